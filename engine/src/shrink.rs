//! Deterministic AST shrinking: reduce a failing program to a canonical minimal witness that fails the same way.

use crate::ast::*;

/// canonical "simpler" replacements for an atom, simplest first
fn simpler_atoms(e: &E) -> Vec<E> {
    let order = [E::Int(1), E::Int(2), E::Val, E::Unit, E::False, E::True];
    let mut out = vec![];
    for a in order.iter() {
        if a == e {
            break;
        }
        out.push(a.clone());
    }
    out
}

fn is_atom(e: &E) -> bool {
    matches!(e, E::Unit | E::True | E::False | E::Int(_) | E::Float(_) | E::Str(_) | E::Bytes(_) | E::Sym(_) | E::Val | E::Ident(_))
}

fn children(e: &E) -> Vec<E> {
    match e {
        E::Pre(_, x) | E::Suf(_, x) | E::Group(x) | E::Nested(_, x) | E::Prop(x, _) | E::PrefixApply(_, x) | E::SuffixApply(_, x) => vec![(**x).clone()],
        E::Bin(_, l, r) | E::SideAfter(l, r) | E::SideBefore(l, r) | E::InfixApply(_, l, r) => vec![(**l).clone(), (**r).clone()],
        E::SpaceList(v) | E::CommaList(v) | E::SeqBlank(v) => v.clone(),
        E::Cond(arms, d) => {
            let mut out = vec![];
            for (_, c, a) in arms {
                out.push(c.clone());
                out.push(a.clone());
            }
            if let Some(d) = d {
                out.push((**d).clone());
            }
            out
        }
        _ => vec![],
    }
}

fn with_child(e: &E, idx: usize, new: E) -> E {
    let mut e = e.clone();
    match &mut e {
        E::Pre(_, x) | E::Suf(_, x) | E::Group(x) | E::Nested(_, x) | E::Prop(x, _) | E::PrefixApply(_, x) | E::SuffixApply(_, x) => **x = new,
        E::Bin(_, l, r) | E::SideAfter(l, r) | E::SideBefore(l, r) | E::InfixApply(_, l, r) => {
            if idx == 0 { **l = new } else { **r = new }
        }
        E::SpaceList(v) | E::CommaList(v) | E::SeqBlank(v) => v[idx] = new,
        E::Cond(arms, d) => {
            let n = arms.len() * 2;
            if idx < n {
                let arm = &mut arms[idx / 2];
                if idx % 2 == 0 { arm.1 = new } else { arm.2 = new }
            } else if let Some(d) = d {
                **d = new;
            }
        }
        _ => {}
    }
    e
}

/// structural simplifications of the node itself (fewer arms, fewer items, drop default)
fn local(e: &E) -> Vec<E> {
    let mut out = vec![];
    match e {
        E::SpaceList(v) if v.len() > 2 => {
            for i in 0..v.len() {
                let mut w = v.clone();
                w.remove(i);
                out.push(E::SpaceList(w));
            }
        }
        E::CommaList(v) if v.len() > 1 => {
            for i in 0..v.len() {
                let mut w = v.clone();
                w.remove(i);
                out.push(E::CommaList(w));
            }
        }
        E::SeqBlank(v) if v.len() > 2 => {
            for i in 0..v.len() {
                let mut w = v.clone();
                w.remove(i);
                out.push(E::SeqBlank(w));
            }
        }
        E::Cond(arms, d) => {
            if d.is_some() {
                out.push(E::Cond(arms.clone(), None));
            }
            if arms.len() > 1 {
                for i in 0..arms.len() {
                    let mut w = arms.clone();
                    w.remove(i);
                    out.push(E::Cond(w, d.clone()));
                }
            }
        }
        _ => {}
    }
    out
}

/// all one-step reductions, smallest results first
pub fn reductions(e: &E) -> Vec<E> {
    let mut out = vec![];
    if is_atom(e) {
        return simpler_atoms(e);
    }
    // the node replaced by one of its children
    for c in children(e) {
        out.push(c);
    }
    // the node replaced by a canonical atom
    out.extend([E::Int(1), E::Unit, E::Val]);
    out.extend(local(e));
    // a child replaced by one of its reductions
    let kids = children(e);
    for (i, k) in kids.iter().enumerate() {
        for r in reductions(k) {
            out.push(with_child(e, i, r));
        }
    }
    out
}

/// Greedy descent to a fixpoint. `fails` returns true when the candidate still fails the same way.
pub fn shrink(e: &E, fails: &mut dyn FnMut(&E) -> bool) -> E {
    let mut cur = e.clone();
    let mut budget = 400;
    'outer: loop {
        for r in reductions(&cur) {
            if budget == 0 {
                break 'outer;
            }
            budget -= 1;
            if r.size() <= cur.size() && r != cur && fails(&r) {
                cur = r;
                continue 'outer;
            }
        }
        break;
    }
    cur
}
