//! Subjects: the two shipped data implementations instantiated with a scripted, recording host,
//! plus the drivers lex -> parse -> build -> execute.

use crate::fw::guard;
use crate::val::{get, put, Adder, V, GD};
use garnish_lang_compiler::build::{build, BuildData};
use garnish_lang_compiler::lex::{lex, LexerToken};
use garnish_lang_compiler::parse::{parse, ParseResult};
use garnish_lang_runtime::{execute_current_instruction, SimpleRuntimeState};
use garnish_lang_simple_data::{
    symbol_value, BasicData, BasicDataCompanion, BasicGarnishData, DataError, NoCustom, ReallocationStrategy, SimpleGarnishData, StorageSettings,
};
use garnish_lang_traits::{GarnishData, GarnishDataType, Instruction};

#[derive(Clone, Debug, PartialEq, Eq, PartialOrd)]
pub enum HVal {
    Unit,
    False,
    True,
    Int(i32),
    External(usize),
    Text(String),
}

impl HVal {
    pub fn to_v(&self) -> V {
        match self {
            HVal::Unit => V::Unit,
            HVal::False => V::False,
            HVal::True => V::True,
            HVal::Int(i) => V::Int(*i),
            HVal::External(n) => V::External(*n),
            HVal::Text(s) => V::str(s),
        }
    }
}

#[derive(Clone, Copy, Debug, PartialEq, Eq, PartialOrd, Default)]
pub enum DeferMode {
    /// no handler installed (library default)
    #[default]
    Absent,
    /// records the call, declines
    Decline,
    /// records the call, pushes the sentinel Int(424242), accepts
    Accept,
}

#[derive(Clone, Debug, PartialEq, Eq, PartialOrd)]
pub enum Call {
    Resolve(u64),
    /// external number, argument (shown structurally)
    Apply(usize, String),
    /// instruction, left (type, shown value), right (type, shown value or "-" for the unary placeholder)
    Defer(String, (String, String), (String, String)),
}

pub const DEFER_SENTINEL: i32 = 424242;

#[derive(Clone, Debug, PartialEq, Eq, PartialOrd, Default)]
pub struct Host {
    /// resolve script: symbol name -> value (absent = decline)
    pub resolve: Vec<(String, HVal)>,
    pub record_resolve: bool,
    /// apply callback accepts (pushes the pair (external number = argument)) or declines
    pub apply_accept: bool,
    pub defer: DeferMode,
    pub log: Vec<Call>,
}

impl Host {
    pub fn none() -> Host {
        Host::default()
    }
    pub fn with_resolve(names: &[(&str, HVal)]) -> Host {
        Host { resolve: names.iter().map(|(n, v)| (n.to_string(), v.clone())).collect(), record_resolve: true, ..Host::default() }
    }
    fn lookup(&self, sym: u64) -> Option<HVal> {
        self.resolve.iter().find(|(n, _)| symbol_value(n) == sym).map(|(_, v)| v.clone())
    }
}

pub type SData = SimpleGarnishData<NoCustom, Host>;
pub type BData = BasicGarnishData<(), Host>;

fn host_resolve<D: Subject>(d: &mut D, sym: u64) -> Result<bool, DataError> {
    if d.host().record_resolve {
        d.host_mut().log.push(Call::Resolve(sym));
    }
    match d.host().lookup(sym) {
        None => Ok(false),
        Some(hv) => {
            let a = put(d, &hv.to_v())?;
            d.push_register(a)?;
            Ok(true)
        }
    }
}

fn host_apply<D: Subject>(d: &mut D, ext: usize, input: usize) -> Result<bool, DataError> {
    let shown = get(d, input).show();
    d.host_mut().log.push(Call::Apply(ext, shown));
    if d.host().apply_accept {
        let n = d.add_number((ext as i32).into())?;
        let p = d.add_pair((n, input))?;
        d.push_register(p)?;
        Ok(true)
    } else {
        Ok(false)
    }
}

fn host_defer<D: Subject>(d: &mut D, op: Instruction, l: (GarnishDataType, usize), r: (GarnishDataType, usize), unary: bool) -> Result<bool, DataError> {
    let mode = d.host().defer;
    if mode == DeferMode::Absent {
        return Ok(false);
    }
    let ls = (format!("{:?}", l.0), get(d, l.1).show());
    let rs = if unary { (format!("{:?}", r.0), "-".to_string()) } else { (format!("{:?}", r.0), get(d, r.1).show()) };
    d.host_mut().log.push(Call::Defer(format!("{:?}", op), ls, rs));
    match mode {
        DeferMode::Accept => {
            let a = d.add_number(DEFER_SENTINEL.into())?;
            d.push_register(a)?;
            Ok(true)
        }
        _ => Ok(false),
    }
}

pub fn is_unary_instruction(op: Instruction) -> bool {
    matches!(
        op,
        Instruction::Opposite
            | Instruction::AbsoluteValue
            | Instruction::BitwiseNot
            | Instruction::AccessLeftInternal
            | Instruction::AccessRightInternal
            | Instruction::AccessLengthInternal
    )
}

// --- Simple ---------------------------------------------------------------------------------

fn s_resolver(d: &mut SData, sym: u64) -> Result<bool, DataError> {
    host_resolve(d, sym)
}
fn s_op_handler(d: &mut SData, op: Instruction, l: (GarnishDataType, usize), r: (GarnishDataType, usize)) -> Result<bool, DataError> {
    host_defer(d, op, l, r, is_unary_instruction(op))
}

impl Adder for SData {
    fn add_text(&mut self, s: &[char]) -> Result<usize, DataError> {
        self.start_char_list()?;
        for c in s {
            self.add_to_char_list(*c)?;
        }
        self.end_char_list()
    }
    fn add_bytes(&mut self, b: &[u8]) -> Result<usize, DataError> {
        self.start_byte_list()?;
        for x in b {
            self.add_to_byte_list(*x)?;
        }
        self.end_byte_list()
    }
}

// --- Basic ----------------------------------------------------------------------------------

impl BasicDataCompanion<()> for Host {
    fn resolve(data: &mut BasicGarnishData<(), Self>, symbol: u64) -> Result<bool, DataError> {
        host_resolve(data, symbol)
    }
    fn apply(data: &mut BasicGarnishData<(), Self>, external_value: usize, input_addr: usize) -> Result<bool, DataError> {
        host_apply(data, external_value, input_addr)
    }
    fn defer_op(data: &mut BasicGarnishData<(), Self>, operation: Instruction, left: (GarnishDataType, usize), right: (GarnishDataType, usize)) -> Result<bool, DataError> {
        host_defer(data, operation, left, right, is_unary_instruction(operation))
    }
}

impl Adder for BData {
    fn add_text(&mut self, s: &[char]) -> Result<usize, DataError> {
        let start = self.push_to_data_block(BasicData::CharList(s.len()))?;
        for c in s {
            self.push_to_data_block(BasicData::Char(*c))?;
        }
        Ok(start)
    }
    fn add_bytes(&mut self, b: &[u8]) -> Result<usize, DataError> {
        let start = self.push_to_data_block(BasicData::ByteList(b.len()))?;
        for x in b {
            self.push_to_data_block(BasicData::Byte(*x))?;
        }
        Ok(start)
    }
}

pub fn basic_settings(initial: usize, strat: ReallocationStrategy) -> StorageSettings {
    StorageSettings::new(initial, usize::MAX, strat)
}

// --- common -----------------------------------------------------------------------------------

pub trait Subject: Adder + Clone {
    const NAME: &'static str;
    fn fresh(host: Host) -> Self;
    /// like `fresh`, with storage that grows geometrically (harness speed only; same code paths)
    fn fresh_growing(host: Host) -> Self {
        Self::fresh(host)
    }
    /// like `fresh`, with storage blocks of different tiny sizes that grow one cell at a time: every push re-lays the
    /// heap out, so a mix-up between the blocks' sizes shows with the first few instructions
    fn fresh_tight(host: Host) -> Self {
        Self::fresh(host)
    }
    fn host(&self) -> &Host;
    fn host_mut(&mut self) -> &mut Host;
    /// operand depth not counting call frames
    fn operand_depth(&self) -> usize;
    fn value_depth(&self) -> usize;
    fn has_external_apply() -> bool;
}

impl Subject for SData {
    const NAME: &'static str = "simple";
    fn fresh(host: Host) -> Self {
        let mut d: SData = SimpleGarnishData::new_custom();
        *d.auxiliary_data_mut() = host;
        d.set_resolver(s_resolver);
        d.set_op_handler(s_op_handler);
        d
    }
    fn host(&self) -> &Host {
        self.auxiliary_data()
    }
    fn host_mut(&mut self) -> &mut Host {
        self.auxiliary_data_mut()
    }
    fn operand_depth(&self) -> usize {
        // frames live on the register stack in this implementation
        let mut n = 0;
        for i in 0..self.get_register_len() {
            if let Some(a) = self.get_register(i) {
                match self.get_raw_data(a) {
                    Some(garnish_lang_simple_data::SimpleData::StackFrame(_)) => {}
                    _ => n += 1,
                }
            }
        }
        n
    }
    fn value_depth(&self) -> usize {
        self.get_value_stack_len()
    }
    fn has_external_apply() -> bool {
        false
    }
}

impl Subject for BData {
    const NAME: &'static str = "basic";
    fn fresh(host: Host) -> Self {
        BasicGarnishData::new(host).expect("BasicGarnishData::new")
    }
    fn fresh_growing(host: Host) -> Self {
        let st = || basic_settings(16, ReallocationStrategy::Multiplicative(2));
        BasicGarnishData::new_with_settings(st(), st(), st(), st(), st(), st(), host).expect("BasicGarnishData::new_with_settings")
    }
    fn fresh_tight(host: Host) -> Self {
        let st = |n: usize, g: usize| basic_settings(n, ReallocationStrategy::FixedSize(g));
        BasicGarnishData::new_with_settings(st(1, 1), st(3, 2), st(2, 1), st(1, 2), st(4, 3), st(1, 1), host).expect("BasicGarnishData::new_with_settings")
    }
    fn host(&self) -> &Host {
        self.companion()
    }
    fn host_mut(&mut self) -> &mut Host {
        self.companion_mut()
    }
    fn operand_depth(&self) -> usize {
        self.get_register_len()
    }
    fn value_depth(&self) -> usize {
        // no public length getter: pop a clone until empty
        let mut c = self.clone();
        let mut n = 0;
        while c.pop_value_stack().is_some() {
            n += 1;
            if n > 100000 {
                break;
            }
        }
        n
    }
    fn has_external_apply() -> bool {
        true
    }
}

#[derive(Clone, Debug, PartialEq)]
pub enum Fail {
    Lex(String),
    Parse(String),
    Build(String),
    Run(String),
    Panic(String, String),
    StepCap,
    NoEntry,
    NoValue,
}

impl Fail {
    pub fn kind(&self) -> String {
        match self {
            Fail::Lex(_) => "lex-err".into(),
            Fail::Parse(_) => "parse-err".into(),
            Fail::Build(_) => "build-err".into(),
            Fail::Run(m) => format!("run-err[{}]", crate::fw::panic_kind(&m.chars().take(60).collect::<String>())),
            Fail::Panic(stage, m) => format!("panic-{}[{}]", stage, crate::fw::panic_kind(m)),
            Fail::StepCap => "step-cap".into(),
            Fail::NoEntry => "no-entry".into(),
            Fail::NoValue => "no-value".into(),
        }
    }
}

pub fn lex_g(src: &str) -> Result<Vec<LexerToken>, Fail> {
    match guard(|| lex(src)) {
        Err(p) => Err(Fail::Panic("lex".into(), p)),
        Ok(Err(e)) => Err(Fail::Lex(format!("{}", e))),
        Ok(Ok(t)) => Ok(t),
    }
}

pub fn parse_g(tokens: &Vec<LexerToken>) -> Result<ParseResult, Fail> {
    match guard(|| parse(tokens)) {
        Err(p) => Err(Fail::Panic("parse".into(), p)),
        Ok(Err(e)) => Err(Fail::Parse(format!("{}", e))),
        Ok(Ok(t)) => Ok(t),
    }
}

pub fn build_g<D: Subject>(pr: &ParseResult, d: &mut D) -> Result<BuildData<D>, Fail> {
    match guard(|| build(pr.get_root(), pr.get_nodes().clone(), d)) {
        Err(p) => Err(Fail::Panic("build".into(), p)),
        Ok(Err(e)) => Err(Fail::Build(format!("{}", e))),
        Ok(Ok(t)) => Ok(t),
    }
}

pub fn compile<D: Subject>(src: &str, d: &mut D) -> Result<(ParseResult, BuildData<D>), Fail> {
    let toks = lex_g(src)?;
    let pr = parse_g(&toks)?;
    let bd = build_g(&pr, d)?;
    Ok((pr, bd))
}

/// Start execution of an already built program: cursor at the entry, input pushed as `$`.
pub fn start<D: Subject>(d: &mut D, jump_index: usize, input: &V) -> Result<(), Fail> {
    let entry = d.get_from_jump_table(jump_index).ok_or(Fail::NoEntry)?;
    d.set_instruction_cursor(entry).map_err(|e| Fail::Run(format!("{}", e)))?;
    let a = put(d, input).map_err(|e| Fail::Run(format!("put input: {}", e)))?;
    d.push_value_stack(a).map_err(|e| Fail::Run(format!("{}", e)))?;
    Ok(())
}

/// One guarded step. Ok(true) = still running.
pub fn step<D: Subject>(d: &mut D) -> Result<bool, Fail> {
    match guard(|| execute_current_instruction(d)) {
        Err(p) => Err(Fail::Panic("run".into(), p)),
        Ok(Err(e)) => Err(Fail::Run(e.get_message().clone() + &format!("{:?}", e.get_type()))),
        Ok(Ok(info)) => Ok(info.get_state() == SimpleRuntimeState::Running),
    }
}

pub fn run_to_end<D: Subject>(d: &mut D, step_cap: usize) -> Result<usize, Fail> {
    let mut steps = 0;
    loop {
        let running = step(d)?;
        steps += 1;
        if !running {
            return Ok(steps);
        }
        if steps >= step_cap {
            return Err(Fail::StepCap);
        }
    }
}

pub fn current_value<D: Subject>(d: &D) -> Result<V, Fail> {
    match d.get_current_value() {
        None => Err(Fail::NoValue),
        Some(a) => Ok(get(d, a)),
    }
}

pub struct RunOut {
    pub value: V,
    pub steps: usize,
    pub log: Vec<Call>,
}

/// Whole pipeline on a fresh data object.
pub fn run_program<D: Subject>(src: &str, input: &V, host: Host, step_cap: usize) -> Result<RunOut, Fail> {
    let mut d = D::fresh(host);
    let (_, bd) = compile(src, &mut d)?;
    start(&mut d, *bd.jump_index(), input)?;
    let steps = run_to_end(&mut d, step_cap)?;
    let value = current_value(&d)?;
    Ok(RunOut { value, steps, log: d.host().log.clone() })
}

pub fn _assert_gd<D: GD>() {}
