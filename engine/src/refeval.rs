//! Reference evaluator: a big-step interpreter over the AST, independent of the compiler and runtime.
//! Semantics transcribed from the documented meaning of each construct (DESIGN.md appendix A).
//! `Stop::Skip` = the reference declines to judge (construct outside the settled core language).

use crate::ast::{BinOp, CondKind, PreOp, SufOp, E};
use crate::props::c09::{oracle1, oracle2, Expect, Op};
use crate::subj::{Call, DeferMode, Host, DEFER_SENTINEL};
use crate::val::{v_to_num, SymPart, V};
use garnish_lang_simple_data::symbol_value;
use std::cmp::Ordering;
use std::collections::HashMap;

#[derive(Debug, Clone, PartialEq)]
pub enum Stop {
    Fuel,
    Skip(String),
    Restart(V),
}

pub struct Ref<'a> {
    pub host: &'a Host,
    pub log: Vec<Call>,
    pub fuel: usize,
    pub steps: usize,
    bodies: HashMap<usize, &'a E>,
}

type R = Result<V, Stop>;

fn skip<T>(s: &str) -> Result<T, Stop> {
    Err(Stop::Skip(s.to_string()))
}

pub fn num_eq(a: &V, b: &V) -> bool {
    match (a, b) {
        (V::Int(x), V::Int(y)) => x == y,
        (V::Float(x), V::Float(y)) => x == y,
        (V::Int(x), V::Float(y)) => (*x as f64) == *y,
        (V::Float(x), V::Int(y)) => *x == (*y as f64),
        _ => false,
    }
}

pub fn num_cmp(a: &V, b: &V) -> Option<Ordering> {
    match (a, b) {
        (V::Int(x), V::Int(y)) => x.partial_cmp(y),
        (V::Float(x), V::Float(y)) => x.partial_cmp(y),
        (V::Int(x), V::Float(y)) => (*x as f64).partial_cmp(y),
        (V::Float(x), V::Int(y)) => x.partial_cmp(&(*y as f64)),
        _ => None,
    }
}

/// flat item sequence of a concatenation: nested concatenations are expanded, list operands are spliced one level
pub fn concat_items(v: &V, out: &mut Vec<V>) {
    match v {
        V::Concat(l, r) => {
            concat_part(l, out);
            concat_part(r, out);
        }
        _ => out.push(v.clone()),
    }
}

fn concat_part(v: &V, out: &mut Vec<V>) {
    match v {
        V::Concat(..) => concat_items(v, out),
        V::List(items) => out.extend(items.iter().cloned()),
        _ => out.push(v.clone()),
    }
}

fn has_slice_or_range(v: &V) -> bool {
    match v {
        V::Slice(..) | V::Range(..) | V::Partial(..) | V::Opaque(_) => true,
        V::Pair(a, b) | V::Concat(a, b) => has_slice_or_range(a) || has_slice_or_range(b),
        V::List(l) => l.iter().any(has_slice_or_range),
        _ => false,
    }
}

/// structural equality as the language defines it (C11)
pub fn ref_equal(a: &V, b: &V) -> Result<bool, Stop> {
    if has_slice_or_range(a) || has_slice_or_range(b) {
        return skip("equality over slice/range/partial");
    }
    Ok(match (a, b) {
        (V::Unit, V::Unit) | (V::True, V::True) | (V::False, V::False) => true,
        (V::Type(x), V::Type(y)) => x == y,
        (V::Expr(x), V::Expr(y)) => x == y,
        (V::External(x), V::External(y)) => x == y,
        (V::Sym(x), V::Sym(y)) => x == y,
        (V::Char(x), V::Char(y)) => x == y,
        (V::Byte(x), V::Byte(y)) => x == y,
        (V::Int(_) | V::Float(_), V::Int(_) | V::Float(_)) => num_eq(a, b),
        (V::Char(c), V::Str(s)) | (V::Str(s), V::Char(c)) => s.len() == 1 && s[0] == *c,
        (V::Byte(c), V::Bytes(s)) | (V::Bytes(s), V::Byte(c)) => s.len() == 1 && s[0] == *c,
        (V::Str(x), V::Str(y)) => x == y,
        (V::Bytes(x), V::Bytes(y)) => x == y,
        (V::SymList(x), V::SymList(y)) => x == y,
        (V::Pair(a1, b1), V::Pair(a2, b2)) => ref_equal(a1, a2)? && ref_equal(b1, b2)?,
        (V::List(_) | V::Concat(..), V::List(_) | V::Concat(..)) => {
            let (mut x, mut y) = (vec![], vec![]);
            match a {
                V::List(l) => x.extend(l.iter().cloned()),
                _ => concat_items(a, &mut x),
            }
            match b {
                V::List(l) => y.extend(l.iter().cloned()),
                _ => concat_items(b, &mut y),
            }
            if x.len() != y.len() {
                false
            } else {
                let mut all = true;
                for (p, q) in x.iter().zip(y.iter()) {
                    if !ref_equal(p, q)? {
                        all = false;
                        break;
                    }
                }
                all
            }
        }
        _ => false,
    })
}

/// Some(ordering) when the pair is ordered by the language, Err(()) for "unit" (NaN), None for "all false"
pub fn ref_compare(a: &V, b: &V) -> Result<Option<Ordering>, ()> {
    match (a, b) {
        (V::Int(_) | V::Float(_), V::Int(_) | V::Float(_)) => match num_cmp(a, b) {
            Some(o) => Ok(Some(o)),
            None => Err(()),
        },
        (V::Char(x), V::Char(y)) => Ok(Some(x.cmp(y))),
        (V::Byte(x), V::Byte(y)) => Ok(Some(x.cmp(y))),
        (V::Str(x), V::Str(y)) => Ok(Some(x.cmp(y))),
        (V::Bytes(x), V::Bytes(y)) => Ok(Some(x.cmp(y))),
        _ => Ok(None),
    }
}

fn key_of(item: &V) -> Option<u64> {
    if let V::Pair(k, _) = item {
        if let V::Sym(s) = **k {
            return Some(s);
        }
    }
    None
}

/// lookup of a symbol key; Ok(None) = absent
pub fn ref_access_symbol(v: &V, sym: u64) -> Result<Option<V>, Stop> {
    match v {
        V::Pair(k, val) => Ok(if matches!(**k, V::Sym(s) if s == sym) { Some((**val).clone()) } else { None }),
        V::List(items) => {
            let hits: Vec<&V> = items.iter().filter(|i| key_of(i) == Some(sym)).collect();
            match hits.len() {
                0 => Ok(None),
                1 => match hits[0] {
                    V::Pair(_, val) => Ok(Some((**val).clone())),
                    _ => unreachable!(),
                },
                _ => skip("duplicate key in list"),
            }
        }
        V::Concat(..) => {
            let mut items = vec![];
            concat_items(v, &mut items);
            let hits: Vec<&V> = items.iter().filter(|i| key_of(i) == Some(sym)).collect();
            match hits.len() {
                0 => Ok(None),
                1 => match hits[0] {
                    V::Pair(_, val) => Ok(Some((**val).clone())),
                    _ => unreachable!(),
                },
                _ => skip("duplicate key in concatenation"),
            }
        }
        V::Slice(..) => skip("slice"),
        _ => Err(Stop::Skip("unsupported".into())), // caller decides (distinguished by message)
    }
}

fn int_index(idx: &V) -> Result<i64, Stop> {
    match idx {
        V::Int(i) => Ok(*i as i64),
        V::Float(_) => skip("float index"),
        _ => skip("non-number index"),
    }
}

/// index by number; Ok(None) = no item
pub fn ref_access_integer(v: &V, idx: &V) -> Result<Option<V>, Stop> {
    match v {
        V::Pair(k, _) => {
            let zero = num_eq(idx, &V::Int(0));
            Ok(if zero && matches!(**k, V::Sym(_)) { Some(v.clone()) } else { None })
        }
        V::List(items) => {
            let i = int_index(idx)?;
            Ok(if i < 0 { None } else { items.get(i as usize).cloned() })
        }
        V::Str(s) => {
            let i = int_index(idx)?;
            Ok(if i < 0 { None } else { s.get(i as usize).map(|c| V::Char(*c)) })
        }
        V::Bytes(s) => {
            let i = int_index(idx)?;
            Ok(if i < 0 { None } else { s.get(i as usize).map(|c| V::Byte(*c)) })
        }
        V::SymList(s) => {
            let i = int_index(idx)?;
            Ok(if i < 0 {
                None
            } else {
                s.get(i as usize).map(|p| match p {
                    SymPart::Sym(x) => V::Sym(*x),
                    SymPart::Num(n) => V::Int(*n),
                })
            })
        }
        V::Concat(..) => {
            let i = int_index(idx)?;
            let mut items = vec![];
            concat_items(v, &mut items);
            Ok(if i < 0 { None } else { items.get(i as usize).cloned() })
        }
        V::Range(..) | V::Slice(..) => skip("range/slice index"),
        _ => skip("unsupported"),
    }
}

fn merge_symlist(l: &V, r: &V) -> Result<V, Stop> {
    let mut parts = vec![];
    for x in [l, r] {
        match x {
            V::Sym(s) => parts.push(SymPart::Sym(*s)),
            V::SymList(p) => parts.extend(p.iter().cloned()),
            _ => return skip("symbol list with numbers"),
        }
    }
    Ok(V::SymList(parts))
}

fn arith_op(op: BinOp) -> Option<Op> {
    Some(match op {
        BinOp::Add => Op::Plus,
        BinOp::Sub => Op::Subtract,
        BinOp::Mul => Op::Multiply,
        BinOp::Div => Op::Divide,
        BinOp::IntDiv => Op::IntegerDivide,
        BinOp::Rem => Op::Remainder,
        BinOp::Pow => Op::Power,
        BinOp::BitAnd => Op::And,
        BinOp::BitOr => Op::Or,
        BinOp::BitXor => Op::Xor,
        BinOp::Shl => Op::Shl,
        BinOp::Shr => Op::Shr,
        _ => return None,
    })
}

fn instr_name(op: BinOp) -> &'static str {
    match op {
        BinOp::Add => "Add",
        BinOp::Sub => "Subtract",
        BinOp::Mul => "Multiply",
        BinOp::Div => "Divide",
        BinOp::IntDiv => "IntegerDivide",
        BinOp::Rem => "Remainder",
        BinOp::Pow => "Power",
        BinOp::BitAnd => "BitwiseAnd",
        BinOp::BitOr => "BitwiseOr",
        BinOp::BitXor => "BitwiseXor",
        BinOp::Shl => "BitwiseShiftLeft",
        BinOp::Shr => "BitwiseShiftRight",
        BinOp::Access => "Access",
        BinOp::Apply | BinOp::ApplyTo => "Apply",
        _ => "?",
    }
}

fn expect_to_v(e: Expect) -> R {
    match e {
        Expect::Unit => Ok(V::Unit),
        Expect::Int(i) => Ok(V::Int(i)),
        Expect::Float(f) => Ok(V::Float(f)),
        Expect::UnitOrInt(_) => skip("shift whose product is not representable"),
    }
}

pub fn literal_int(i: i64) -> V {
    if i >= i32::MIN as i64 && i <= i32::MAX as i64 { V::Int(i as i32) } else { V::Float(i as f64) }
}

impl<'a> Ref<'a> {
    pub fn new(host: &'a Host, fuel: usize) -> Ref<'a> {
        Ref { host, log: vec![], fuel, steps: 0, bodies: HashMap::new() }
    }

    /// evaluate a whole program with the given input
    pub fn run(&mut self, prog: &'a E, input: &V) -> R {
        let mut env = input.clone();
        loop {
            match self.eval(prog, &mut env) {
                Err(Stop::Restart(v)) => {
                    if self.fuel == 0 {
                        return Err(Stop::Fuel);
                    }
                    self.fuel -= 1;
                    env = v;
                }
                other => return other,
            }
        }
    }

    fn call(&mut self, id: usize, arg: V) -> R {
        let body = match self.bodies.get(&id) {
            Some(b) => *b,
            None => return skip("unknown expression"),
        };
        let mut env = arg;
        loop {
            if self.fuel == 0 {
                return Err(Stop::Fuel);
            }
            self.fuel -= 1;
            match self.eval(body, &mut env) {
                Err(Stop::Restart(v)) => env = v,
                other => return other,
            }
        }
    }

    fn defer(&mut self, op: &str, l: &V, r: Option<&V>) -> R {
        match self.host.defer {
            DeferMode::Absent => Ok(V::Unit),
            m => {
                let ls = (format!("{:?}", l.type_of()), l.show());
                let rs = match r {
                    Some(r) => (format!("{:?}", r.type_of()), r.show()),
                    None => ("Unit".to_string(), "-".to_string()),
                };
                self.log.push(Call::Defer(op.to_string(), ls, rs));
                Ok(if m == DeferMode::Accept { V::Int(DEFER_SENTINEL) } else { V::Unit })
            }
        }
    }

    fn resolve(&mut self, name: &str, env: &V) -> R {
        let sym = symbol_value(name);
        match ref_access_symbol(env, sym) {
            Ok(Some(v)) => return Ok(v),
            Ok(None) => {}
            Err(Stop::Skip(m)) if m == "unsupported" => {}
            Err(e) => return Err(e),
        }
        if self.host.record_resolve {
            self.log.push(Call::Resolve(sym));
        }
        match self.host.resolve.iter().find(|(n, _)| symbol_value(n) == sym) {
            Some((_, hv)) => Ok(hv.to_v()),
            None => Ok(V::Unit),
        }
    }

    fn apply(&mut self, f: &V, arg: &V, empty: bool) -> R {
        let opname = if empty { "EmptyApply" } else { "Apply" };
        match (f, arg) {
            (V::Expr(id), _) => self.call(*id, arg.clone()),
            (V::External(n), _) => {
                self.log.push(Call::Apply(*n, arg.show()));
                Ok(if self.host.apply_accept { V::pair(V::Int(*n as i32), arg.clone()) } else { V::Unit })
            }
            (V::Partial(..), _) => skip("partial"),
            (V::Sym(_), V::SymList(_)) | (V::SymList(_), V::Sym(_)) | (V::SymList(_), V::SymList(_)) => merge_symlist(f, arg),
            (V::Range(..), V::Range(..)) | (V::Slice(..), V::Range(..)) => skip("range"),
            (V::SymList(_) | V::List(_) | V::Pair(..), V::Int(_) | V::Float(_)) => Ok(ref_access_integer(f, arg)?.unwrap_or(V::Unit)),
            (V::Pair(..) | V::List(_), V::Sym(s)) => match ref_access_symbol(f, *s) {
                Ok(v) => Ok(v.unwrap_or(V::Unit)),
                Err(e) => Err(e),
            },
            (V::List(_), V::SymList(parts)) => {
                let mut cur = f.clone();
                for p in parts {
                    let next = match p {
                        SymPart::Sym(s) => match ref_access_symbol(&cur, *s) {
                            Ok(v) => v,
                            Err(Stop::Skip(m)) if m == "unsupported" => return skip("chained access through a non-container"),
                            Err(e) => return Err(e),
                        },
                        SymPart::Num(n) => ref_access_integer(&cur, &V::Int(*n))?,
                    };
                    match next {
                        Some(v) => cur = v,
                        None => return Ok(V::Unit),
                    }
                }
                Ok(cur)
            }
            (V::List(_) | V::Concat(..) | V::Str(_) | V::Bytes(_) | V::SymList(_), V::Range(..)) => skip("slice"),
            _ => self.defer(opname, f, Some(arg)),
        }
    }

    fn access(&mut self, l: &V, r: &V) -> R {
        use V::*;
        match (l, r) {
            (Sym(_) | SymList(_), Sym(_) | SymList(_)) => merge_symlist(l, r),
            (Sym(_) | SymList(_), Int(_) | Float(_)) | (Int(_) | Float(_), Sym(_) | SymList(_)) => skip("symbol list with numbers"),
            (Pair(..) | List(_) | Str(_) | Bytes(_) | Range(..) | Concat(..) | Slice(..), Int(_) | Float(_)) => Ok(ref_access_integer(l, r)?.unwrap_or(Unit)),
            (Pair(..) | List(_) | Concat(..) | Slice(..), Sym(s)) => Ok(ref_access_symbol(l, *s)?.unwrap_or(Unit)),
            // text / bytes / range by symbol: the language defines no result
            _ => self.defer("Access", l, Some(r)),
        }
    }

    pub fn eval(&mut self, e: &'a E, env: &mut V) -> R {
        self.steps += 1;
        if self.steps > 200_000 {
            return Err(Stop::Fuel);
        }
        match e {
            E::Unit => Ok(V::Unit),
            E::True => Ok(V::True),
            E::False => Ok(V::False),
            E::Int(i) => Ok(literal_int(*i)),
            E::Float(s) => s.parse::<f64>().map(V::Float).or_else(|_| skip("float literal")),
            E::Str(s) => Ok(V::str(s)),
            E::Bytes(s) => Ok(V::Bytes(s.bytes().collect())),
            E::Sym(s) => Ok(V::sym(s)),
            E::Val => Ok(env.clone()),
            E::Ident(name) => self.resolve(name, env),
            E::Group(x) => self.eval(x, env),
            E::Nested(id, body) => {
                self.bodies.insert(*id, &**body);
                Ok(V::Expr(*id))
            }
            E::Pre(op, x) => {
                let v = self.eval(x, env)?;
                match op {
                    PreOp::Abs | PreOp::Opp | PreOp::BitNot => {
                        let (o, name) = match op {
                            PreOp::Abs => (Op::Abs, "AbsoluteValue"),
                            PreOp::Opp => (Op::Opposite, "Opposite"),
                            _ => (Op::Not, "BitwiseNot"),
                        };
                        match v_to_num(&v) {
                            Some(n) => expect_to_v(oracle1(o, n)),
                            None => self.defer(name, &v, None),
                        }
                    }
                    PreOp::Not => Ok(V::bool(!v.truthy())),
                    PreOp::Tis => Ok(V::bool(v.truthy())),
                    PreOp::TypeOf => Ok(V::Type(v.type_of())),
                    PreOp::LeftInt => match &v {
                        V::Pair(l, _) | V::Concat(l, _) => Ok((**l).clone()),
                        V::Range(..) | V::Slice(..) => skip("range/slice internal"),
                        _ => self.defer("AccessLeftInternal", &v, None),
                    },
                    PreOp::Reapply => Err(Stop::Restart(v)),
                }
            }
            E::Suf(op, x) => {
                let v = self.eval(x, env)?;
                match op {
                    SufOp::EmptyApply => self.apply(&v, &V::Unit, true),
                    SufOp::RightInt => match &v {
                        V::Pair(_, r) | V::Concat(_, r) => Ok((**r).clone()),
                        V::Range(..) | V::Slice(..) => skip("range/slice internal"),
                        _ => self.defer("AccessRightInternal", &v, None),
                    },
                    SufOp::LenInt => match &v {
                        V::Pair(k, _) => Ok(if matches!(**k, V::Sym(_)) { V::Int(1) } else { V::Unit }),
                        V::List(l) => Ok(V::Int(l.len() as i32)),
                        V::Str(s) => Ok(V::Int(s.len() as i32)),
                        V::Bytes(s) => Ok(V::Int(s.len() as i32)),
                        V::Concat(..) => {
                            let mut items = vec![];
                            concat_items(&v, &mut items);
                            Ok(V::Int(items.len() as i32))
                        }
                        V::Range(..) | V::Slice(..) => skip("range/slice internal"),
                        _ => self.defer("AccessLengthInternal", &v, None),
                    },
                }
            }
            E::Prop(x, name) => {
                let l = self.eval(x, env)?;
                let r = V::sym(name);
                self.access(&l, &r)
            }
            E::Bin(op, l, r) => self.eval_bin(*op, l, r, env),
            E::SpaceList(items) | E::CommaList(items) => {
                let mut out = vec![];
                for it in items {
                    out.push(self.eval(it, env)?);
                }
                Ok(V::List(out))
            }
            E::Cond(arms, d) => {
                for (k, c, a) in arms {
                    let cv = self.eval(c, env)?;
                    let take = match k {
                        CondKind::IfTrue => cv.truthy(),
                        CondKind::IfFalse => !cv.truthy(),
                    };
                    if take {
                        return self.eval(a, env);
                    }
                }
                match d {
                    Some(d) => self.eval(d, env),
                    None => Ok(env.clone()),
                }
            }
            E::SeqBlank(items) => {
                let mut last = V::Unit;
                for (i, it) in items.iter().enumerate() {
                    last = self.eval(it, env)?;
                    if i + 1 < items.len() {
                        *env = last.clone();
                    }
                }
                Ok(last)
            }
            E::SideAfter(v, eff) => {
                let val = self.eval(v, env)?;
                let mut copy = env.clone();
                match self.eval(eff, &mut copy) {
                    Err(Stop::Restart(_)) => return skip("reapply inside side effect"),
                    Err(e) => return Err(e),
                    Ok(_) => {}
                }
                Ok(val)
            }
            E::SideBefore(eff, v) => {
                let mut copy = env.clone();
                match self.eval(eff, &mut copy) {
                    Err(Stop::Restart(_)) => return skip("reapply inside side effect"),
                    Err(e) => return Err(e),
                    Ok(_) => {}
                }
                self.eval(v, env)
            }
            E::PrefixApply(f, x) | E::SuffixApply(f, x) => {
                let fv = self.resolve(f, env)?;
                let a = self.eval(x, env)?;
                self.apply(&fv, &a, false)
            }
            E::InfixApply(f, l, r) => {
                let fv = self.resolve(f, env)?;
                let a = self.eval(l, env)?;
                let b2 = self.eval(r, env)?;
                self.apply(&fv, &V::List(vec![a, b2]), false)
            }
        }
    }

    fn eval_bin(&mut self, op: BinOp, l: &'a E, r: &'a E, env: &mut V) -> R {
        use BinOp::*;
        match op {
            And => {
                let a = self.eval(l, env)?;
                if !a.truthy() {
                    return Ok(V::False);
                }
                let b = self.eval(r, env)?;
                Ok(V::bool(b.truthy()))
            }
            Or => {
                let a = self.eval(l, env)?;
                if a.truthy() {
                    return Ok(V::True);
                }
                let b = self.eval(r, env)?;
                Ok(V::bool(b.truthy()))
            }
            Semi => {
                let a = self.eval(l, env)?;
                *env = a;
                self.eval(r, env)
            }
            Pair => {
                // right operand is evaluated first
                let b = self.eval(r, env)?;
                let a = self.eval(l, env)?;
                Ok(V::pair(a, b))
            }
            ApplyTo => {
                let f = self.eval(r, env)?;
                let a = self.eval(l, env)?;
                self.apply(&f, &a, false)
            }
            Access if matches!(r, E::Ident(_)) => {
                // an identifier directly after `.` is a property name, it is not resolved
                let a = self.eval(l, env)?;
                let name = match r {
                    E::Ident(n) => n,
                    _ => unreachable!(),
                };
                self.access(&a, &V::sym(name))
            }
            _ => {
                let a = self.eval(l, env)?;
                let b = self.eval(r, env)?;
                match op {
                    Apply => self.apply(&a, &b, false),
                    Access => self.access(&a, &b),
                    Xor => Ok(V::bool(a.truthy() != b.truthy())),
                    Eq => Ok(V::bool(ref_equal(&a, &b)?)),
                    Ne => Ok(V::bool(!ref_equal(&a, &b)?)),
                    TypeEq => {
                        let rt = match &b {
                            V::Type(t) => *t,
                            other => other.type_of(),
                        };
                        Ok(V::bool(a.type_of() == rt))
                    }
                    Lt | Le | Gt | Ge => match ref_compare(&a, &b) {
                        Err(()) => Ok(V::Unit),
                        Ok(None) => Ok(V::False),
                        Ok(Some(o)) => Ok(V::bool(match op {
                            Lt => o == Ordering::Less,
                            Le => o != Ordering::Greater,
                            Gt => o == Ordering::Greater,
                            _ => o != Ordering::Less,
                        })),
                    },
                    Concat => Ok(V::Concat(Box::new(a), Box::new(b))),
                    Range | StartExRange | EndExRange | ExRange | TypeCast | Partial | CondTrue | CondFalse | Else => skip("range/cast/partial/generic-conditional"),
                    _ => {
                        let o = arith_op(op).unwrap();
                        match (v_to_num(&a), v_to_num(&b)) {
                            (Some(x), Some(y)) => expect_to_v(oracle2(o, x, y)),
                            _ => self.defer(instr_name(op), &a, Some(&b)),
                        }
                    }
                }
            }
        }
    }
}
