//! Framework: property trait, worker loop with watchdog, supervisor with restart/confirm logic,
//! known-findings matching, replay artefacts and evidence files.
//!
//! Exit codes of `engine check`: 0 = property held on everything explored (possibly KNOWN-FINDING lines),
//! 1 = at least one VIOLATION line printed, 2 = MACHINERY-ERROR (never a verdict).

use serde_json::{json, Map, Value};
use std::collections::{BTreeMap, HashSet};
use std::io::{BufRead, BufReader, Write};
use std::panic::{catch_unwind, AssertUnwindSafe};
use std::process::{Command, Stdio};
use std::sync::atomic::{AtomicU64, Ordering};
use std::sync::{Arc, Mutex};
use std::time::{Duration, Instant};

#[derive(Clone, Copy, PartialEq, Eq, Debug)]
pub enum Tier {
    Quick,
    Thorough,
}

impl Tier {
    pub fn parse(s: &str) -> Option<Tier> {
        match s {
            "quick" => Some(Tier::Quick),
            "thorough" => Some(Tier::Thorough),
            _ => None,
        }
    }
    pub fn name(self) -> &'static str {
        match self {
            Tier::Quick => "quick",
            Tier::Thorough => "thorough",
        }
    }
    pub fn pick<T>(self, q: T, t: T) -> T {
        match self {
            Tier::Quick => q,
            Tier::Thorough => t,
        }
    }
}

pub struct Meta {
    pub rule: String,
    pub assumptions: Vec<String>,
    pub trusted_base: Vec<String>,
    pub explanation: String,
}

pub trait Property: Sync {
    fn id(&self) -> &'static str;
    /// "exploration" or "model_checking"
    fn level(&self) -> &'static str;
    /// number of elements in the (finite) index space of this tier
    fn size(&self, tier: Tier) -> u64;
    /// human-readable description of element idx (used to attribute crashes/hangs)
    fn describe(&self, tier: Tier, idx: u64) -> String;
    /// run element idx; all subject calls must go through `guard`
    fn run(&self, tier: Tier, idx: u64, cx: &mut Ctx);
    /// re-run one recorded case (the `detail` object of a violation)
    fn replay(&self, detail: &Value, cx: &mut Ctx);
    fn meta(&self, tier: Tier) -> Meta;
    /// per-element wall budget in ms before the watchdog declares a hang
    fn budget_ms(&self) -> u64 {
        1500
    }
    /// crash/hang of an element is a property violation (C03/C07) or a machinery error (others)
    fn crash_is_violation(&self) -> bool {
        false
    }
    /// signature to use for a crash/hang of element idx
    fn crash_signature(&self, tier: Tier, idx: u64, kind: &str) -> (String, String, Value) {
        let d = self.describe(tier, idx);
        (kind.to_string(), d.clone(), json!({"element": d, "idx": idx}))
    }
}

#[derive(Clone, Debug)]
pub struct Violation {
    pub kind: String,
    pub witness: String,
    pub detail: Value,
    pub idx: u64,
    pub count: u64,
}

impl Violation {
    pub fn sig(&self) -> String {
        format!("{} :: {}", self.kind, self.witness)
    }
}

pub struct Ctx {
    pub tier: Tier,
    pub cur_idx: u64,
    pub counters: BTreeMap<String, u64>,
    pub samples: Vec<Value>,
    pub violations: BTreeMap<String, Violation>,
    pub sample_cap: usize,
    seen: HashSet<u64>,
}

impl Ctx {
    pub fn new(tier: Tier) -> Ctx {
        Ctx { tier, cur_idx: 0, counters: BTreeMap::new(), samples: vec![], violations: BTreeMap::new(), sample_cap: 6, seen: HashSet::new() }
    }
    pub fn count(&mut self, key: &str, n: u64) {
        *self.counters.entry(key.to_string()).or_insert(0) += n;
    }
    pub fn eval(&mut self) {
        self.count("evaluations", 1);
    }
    /// count a distinct non-trivial case, deduplicated (within this worker) by `key`
    pub fn nontrivial<H: std::hash::Hash>(&mut self, key: H) {
        use std::hash::Hasher;
        let mut h = std::collections::hash_map::DefaultHasher::new();
        key.hash(&mut h);
        if self.seen.insert(h.finish()) {
            self.count("nontrivial", 1);
        }
    }
    pub fn sample(&mut self, v: Value) {
        if self.samples.len() < self.sample_cap {
            self.samples.push(v);
        }
    }
    /// sample selected deterministically by index so that samples are spread over the space
    pub fn sample_at(&mut self, every: u64, v: impl FnOnce() -> Value) {
        if self.samples.len() < self.sample_cap && self.cur_idx % every.max(1) == 0 {
            let x = v();
            self.samples.push(x);
        }
    }
    pub fn violation(&mut self, kind: &str, witness: &str, detail: Value) {
        let v = Violation { kind: kind.to_string(), witness: witness.to_string(), detail, idx: self.cur_idx, count: 1 };
        let sig = v.sig();
        match self.violations.get_mut(&sig) {
            Some(old) => {
                old.count += 1;
                if v.idx < old.idx {
                    old.idx = v.idx;
                    old.detail = v.detail;
                }
            }
            None => {
                SIGNATURES.fetch_add(1, Ordering::SeqCst);
                self.violations.insert(sig, v);
            }
        }
    }
}

// ---------------------------------------------------------------------------------------------
// panic capture

thread_local! {
    static LAST_PANIC: std::cell::RefCell<Option<String>> = const { std::cell::RefCell::new(None) };
}

pub fn install_panic_hook() {
    std::panic::set_hook(Box::new(|info| {
        let msg = if let Some(s) = info.payload().downcast_ref::<&str>() {
            s.to_string()
        } else if let Some(s) = info.payload().downcast_ref::<String>() {
            s.clone()
        } else {
            "non-string panic".to_string()
        };
        let loc = info.location().map(|l| format!("{}:{}", l.file().rsplit('/').next().unwrap_or(""), l.line())).unwrap_or_default();
        LAST_PANIC.with(|p| *p.borrow_mut() = Some(format!("{} @ {}", msg, loc)));
    }));
}

/// Run subject code; a panic becomes Err(message @ file:line).
pub fn guard<T>(f: impl FnOnce() -> T) -> Result<T, String> {
    match catch_unwind(AssertUnwindSafe(f)) {
        Ok(v) => Ok(v),
        Err(_) => Err(LAST_PANIC.with(|p| p.borrow_mut().take()).unwrap_or_else(|| "panic".to_string())),
    }
}

/// Normalise a panic message into a short stable kind (drops numbers that vary with the input).
pub fn panic_kind(msg: &str) -> String {
    // drop quoted input fragments (`...`, "...", '...') and numbers: they vary with the input
    let mut stripped = String::new();
    let mut quote: Option<char> = None;
    let tail_at = msg.rfind(" @ ").unwrap_or(msg.len());
    for (i, c) in msg.char_indices() {
        if i >= tail_at {
            stripped.push(c);
            continue;
        }
        match quote {
            Some(q) => {
                if c == q {
                    quote = None;
                    stripped.push('_');
                }
            }
            None => {
                if c == '`' || c == '"' {
                    quote = Some(c);
                } else {
                    stripped.push(c);
                }
            }
        }
    }
    let msg = if quote.is_some() { msg.to_string() } else { stripped };
    let msg = msg.as_str();
    let mut out = String::new();
    let mut last_digit = false;
    for c in msg.chars() {
        if c.is_ascii_digit() {
            if !last_digit {
                out.push('N');
            }
            last_digit = true;
        } else {
            last_digit = false;
            out.push(c);
        }
    }
    // keep file:line exact - put it back from the original tail
    if let Some(pos) = msg.rfind(" @ ") {
        if let Some(p2) = out.rfind(" @ ") {
            out.truncate(p2);
            out.push_str(&msg[pos..]);
        }
    }
    out
}

// ---------------------------------------------------------------------------------------------
// worker

static CUR_IDX: AtomicU64 = AtomicU64::new(u64::MAX);
static CUR_START_MS: AtomicU64 = AtomicU64::new(0);

fn now_ms(t0: Instant) -> u64 {
    t0.elapsed().as_millis() as u64
}

fn rss_kb() -> u64 {
    std::fs::read_to_string("/proc/self/statm")
        .ok()
        .and_then(|s| s.split_whitespace().nth(1).and_then(|x| x.parse::<u64>().ok()))
        .map(|pages| pages * 4)
        .unwrap_or(0)
}

fn emit(v: &Value) {
    let s = serde_json::to_string(v).unwrap();
    let out = std::io::stdout();
    let mut l = out.lock();
    let _ = l.write_all(s.as_bytes());
    let _ = l.write_all(b"\n");
    let _ = l.flush();
}

pub struct WorkerArgs {
    pub tier: Tier,
    pub shard: u64,
    pub nshards: u64,
    pub from: u64,
    pub careful: bool,
    pub single: Option<u64>,
    pub budget_ms: Option<u64>,
    /// indexes not to run (elements already attributed a hang / crash)
    pub skip: Vec<u64>,
}

pub fn worker(prop: &dyn Property, a: WorkerArgs) -> i32 {
    install_panic_hook();
    let t0 = Instant::now();
    let budget = a.budget_ms.unwrap_or(prop.budget_ms());
    let rss_cap_kb: u64 = 3 * 1024 * 1024;
    // watchdog
    std::thread::spawn(move || loop {
        std::thread::sleep(Duration::from_millis(15));
        let idx = CUR_IDX.load(Ordering::SeqCst);
        if idx == u64::MAX {
            continue;
        }
        let started = CUR_START_MS.load(Ordering::SeqCst);
        let el = now_ms(t0).saturating_sub(started);
        let rss = rss_kb();
        if el > budget || rss > rss_cap_kb {
            // re-check the index did not change meanwhile
            if CUR_IDX.load(Ordering::SeqCst) == idx {
                emit(&json!({"t":"hang","i":idx,"ms":el,"rss_kb":rss}));
                std::process::exit(3);
            }
        }
    });

    let size = limit(prop.size(a.tier));
    let mut cx = Ctx::new(a.tier);
    let mut last_emit = Instant::now();
    let run_one = |idx: u64, cx: &mut Ctx| -> Result<(), String> {
        cx.cur_idx = idx;
        if a.careful {
            emit(&json!({"t":"at","i":idx}));
        }
        CUR_START_MS.store(now_ms(t0), Ordering::SeqCst);
        CUR_IDX.store(idx, Ordering::SeqCst);
        let r = catch_unwind(AssertUnwindSafe(|| prop.run(a.tier, idx, cx)));
        CUR_IDX.store(u64::MAX, Ordering::SeqCst);
        match r {
            Ok(()) => Ok(()),
            Err(_) => Err(LAST_PANIC.with(|p| p.borrow_mut().take()).unwrap_or_default()),
        }
    };

    if let Some(idx) = a.single {
        match run_one(idx, &mut cx) {
            Ok(()) => {}
            Err(m) => {
                emit(&json!({"t":"machinery","i":idx,"msg":m}));
                return 2;
            }
        }
        flush_ctx(&mut cx, true);
        return 0;
    }

    let mut idx = a.from;
    // first index >= from that belongs to this shard
    if a.nshards > 0 {
        let r = idx % a.nshards;
        if r != a.shard {
            idx += (a.shard + a.nshards - r) % a.nshards;
        }
    }
    while idx < size {
        if a.skip.contains(&idx) {
            idx += a.nshards;
            continue;
        }
        if let Err(m) = run_one(idx, &mut cx) {
            emit(&json!({"t":"machinery","i":idx,"msg":m, "desc": prop.describe(a.tier, idx)}));
            return 2;
        }
        if last_emit.elapsed() > Duration::from_millis(250) {
            emit(&json!({"t":"p","i":idx}));
            flush_ctx(&mut cx, false);
            last_emit = Instant::now();
        }
        idx += a.nshards;
    }
    flush_ctx(&mut cx, true);
    0
}

/// send accumulated counters/violations/samples as deltas and reset them
fn flush_ctx(cx: &mut Ctx, done: bool) {
    let counters: Map<String, Value> = cx.counters.iter().map(|(k, v)| (k.clone(), json!(v))).collect();
    let viols: Vec<Value> = cx
        .violations
        .values()
        .map(|v| json!({"kind": v.kind, "witness": v.witness, "detail": v.detail, "idx": v.idx, "count": v.count}))
        .collect();
    emit(&json!({"t": if done {"done"} else {"d"}, "c": counters, "v": viols, "s": cx.samples}));
    cx.counters.clear();
    cx.violations.clear();
    if cx.samples.len() >= cx.sample_cap {
        cx.sample_cap = 0; // stop sampling once the quota was delivered
    }
    cx.samples.clear();
}

// ---------------------------------------------------------------------------------------------
// supervisor

#[derive(Default)]
struct Agg {
    counters: BTreeMap<String, u64>,
    samples: Vec<Value>,
    violations: BTreeMap<String, Violation>,
    unconfirmed_timeouts: u64,
    restarts: u64,
    machinery: Vec<String>,
    /// the run was cut short after CRASH_CAP confirmed hangs / aborts
    stopped_early: bool,
}

impl Agg {
    fn absorb(&mut self, rec: &Value) {
        if let Some(c) = rec.get("c").and_then(|c| c.as_object()) {
            for (k, v) in c {
                *self.counters.entry(k.clone()).or_insert(0) += v.as_u64().unwrap_or(0);
            }
        }
        if let Some(s) = rec.get("s").and_then(|s| s.as_array()) {
            for x in s {
                if self.samples.len() < 12 {
                    self.samples.push(x.clone());
                }
            }
        }
        if let Some(vs) = rec.get("v").and_then(|s| s.as_array()) {
            for x in vs {
                let v = Violation {
                    kind: x["kind"].as_str().unwrap_or("").to_string(),
                    witness: x["witness"].as_str().unwrap_or("").to_string(),
                    detail: x["detail"].clone(),
                    idx: x["idx"].as_u64().unwrap_or(0),
                    count: x["count"].as_u64().unwrap_or(1),
                };
                self.add_violation(v);
            }
        }
    }
    fn add_violation(&mut self, v: Violation) {
        let sig = v.sig();
        match self.violations.get_mut(&sig) {
            Some(old) => {
                old.count += v.count;
                if v.idx < old.idx {
                    old.idx = v.idx;
                    old.detail = v.detail;
                }
            }
            None => {
                SIGNATURES.fetch_add(1, Ordering::SeqCst);
                self.violations.insert(sig, v);
            }
        }
    }
}

enum WorkerEnd {
    Done,
    Hang(u64, Option<u64>),
    Crash { last_progress: Option<u64>, last_at: Option<u64>, status: String },
    Machinery(String),
}

fn spawn_worker(id: &str, a: &WorkerArgs) -> std::process::Child {
    // /proc/self/exe keeps pointing at the running image even if the file was replaced by a rebuild meanwhile
    let exe = if std::path::Path::new("/proc/self/exe").exists() { std::path::PathBuf::from("/proc/self/exe") } else { std::env::current_exe().expect("current_exe") };
    let mut cmd = Command::new(exe);
    cmd.arg("worker").arg(id).arg(a.tier.name());
    cmd.arg("--shard").arg(a.shard.to_string());
    cmd.arg("--nshards").arg(a.nshards.to_string());
    cmd.arg("--from").arg(a.from.to_string());
    if a.careful {
        cmd.arg("--careful");
    }
    if let Some(s) = a.single {
        cmd.arg("--single").arg(s.to_string());
    }
    if let Some(b) = a.budget_ms {
        cmd.arg("--budget").arg(b.to_string());
    }
    if !a.skip.is_empty() {
        cmd.arg("--skip").arg(a.skip.iter().map(|x| x.to_string()).collect::<Vec<_>>().join(","));
    }
    cmd.env("RUST_BACKTRACE", "0").env("RUST_LIB_BACKTRACE", "0");
    cmd.stdin(Stdio::null()).stdout(Stdio::piped()).stderr(Stdio::null());
    cmd.spawn().expect("spawn worker")
}

fn run_worker_to_end(id: &str, a: &WorkerArgs, agg: &Mutex<Agg>) -> WorkerEnd {
    let mut child = spawn_worker(id, a);
    let out = child.stdout.take().unwrap();
    let rd = BufReader::new(out);
    let mut last_progress: Option<u64> = None;
    let mut last_at: Option<u64> = None;
    let mut end: Option<WorkerEnd> = None;
    for line in rd.lines() {
        let line = match line {
            Ok(l) => l,
            Err(_) => break,
        };
        let rec: Value = match serde_json::from_str(&line) {
            Ok(v) => v,
            Err(_) => continue,
        };
        match rec["t"].as_str().unwrap_or("") {
            "p" => last_progress = rec["i"].as_u64(),
            "at" => last_at = rec["i"].as_u64(),
            "d" => {
                agg.lock().unwrap().absorb(&rec);
                if crash_cap_reached() {
                    let _ = child.kill();
                    agg.lock().unwrap().stopped_early = true;
                    end = Some(WorkerEnd::Done);
                    break;
                }
            }
            "done" => {
                agg.lock().unwrap().absorb(&rec);
                end = Some(WorkerEnd::Done);
            }
            "hang" => end = Some(WorkerEnd::Hang(rec["i"].as_u64().unwrap_or(0), last_progress)),
            "machinery" => end = Some(WorkerEnd::Machinery(format!("{}", rec))),
            _ => {}
        }
    }
    let status = child.wait().map(|s| format!("{:?}", s)).unwrap_or_default();
    match end {
        Some(e) => e,
        None => WorkerEnd::Crash { last_progress, last_at, status },
    }
}

/// Run one shard to completion, restarting after hangs and crashes.
fn run_shard(prop: &dyn Property, tier: Tier, shard: u64, nshards: u64, agg: &Mutex<Agg>) {
    let id = prop.id();
    let mut from = 0u64;
    let mut careful = false;
    let mut careful_until: u64 = 0;
    let mut skip: Vec<u64> = vec![];
    loop {
        if crash_cap_reached() {
            agg.lock().unwrap().stopped_early = true;
            return;
        }
        let a = WorkerArgs { tier, shard, nshards, from, careful, single: None, budget_ms: None, skip: skip.clone() };
        match run_worker_to_end(id, &a, agg) {
            WorkerEnd::Done => return,
            WorkerEnd::Machinery(m) => {
                agg.lock().unwrap().machinery.push(m);
                return;
            }
            WorkerEnd::Hang(idx, last_progress) => {
                agg.lock().unwrap().restarts += 1;
                if crash_cap_reached() {
                    agg.lock().unwrap().stopped_early = true;
                    return;
                }
                // confirm in a fresh process with a large budget
                let c = WorkerArgs { tier, shard: 0, nshards: 1, from: 0, careful: false, single: Some(idx), budget_ms: Some((3 * prop.budget_ms()).max(6000)), skip: vec![] };
                let confirm_agg = Mutex::new(Agg::default());
                match run_worker_to_end(id, &c, &confirm_agg) {
                    WorkerEnd::Done => {
                        // finished within the large budget: not a hang; keep whatever it reported
                        let ca = confirm_agg.into_inner().unwrap();
                        let mut g = agg.lock().unwrap();
                        g.unconfirmed_timeouts += 1;
                        for (k, v) in ca.counters {
                            *g.counters.entry(k).or_insert(0) += v;
                        }
                        for (_, v) in ca.violations {
                            g.add_violation(v);
                        }
                    }
                    WorkerEnd::Hang(..) => {
                        record_crash(prop, tier, idx, "hang", agg);
                    }
                    WorkerEnd::Crash { .. } => {
                        record_crash(prop, tier, idx, "abort", agg);
                    }
                    WorkerEnd::Machinery(m) => {
                        agg.lock().unwrap().machinery.push(m);
                    }
                }
                // results since the last delivered progress mark were lost with the worker: redo them, skipping idx
                skip.push(idx);
                from = last_progress.map(|p| p + 1).unwrap_or(from);
            }
            WorkerEnd::Crash { last_progress, last_at, status } => {
                agg.lock().unwrap().restarts += 1;
                if careful {
                    match last_at {
                        Some(idx) => {
                            record_crash(prop, tier, idx, "abort", agg);
                            skip.push(idx);
                            from = last_progress.map(|p| p + 1).unwrap_or(from);
                            if from > careful_until {
                                careful = false;
                            }
                        }
                        None => {
                            agg.lock().unwrap().machinery.push(format!("worker died before any element in careful mode: {}", status));
                            return;
                        }
                    }
                } else {
                    // re-run from the last progress mark in careful mode to find the element
                    from = last_progress.map(|p| p + 1).unwrap_or(from);
                    careful = true;
                    careful_until = u64::MAX;
                }
            }
        }
        if from >= limit(prop.size(tier)) {
            return;
        }
    }
}

/// confirmed hangs / aborts of this run; beyond CRASH_CAP the run stops early (every one of them is a violation
/// already, and each further one costs its full wall budget plus a confirmation run)
static CRASHES: std::sync::atomic::AtomicU64 = std::sync::atomic::AtomicU64::new(0);
const CRASH_CAP: u64 = 6;

fn crash_cap_reached() -> bool {
    CRASHES.load(Ordering::SeqCst) >= CRASH_CAP || SIGNATURES.load(Ordering::SeqCst) >= SIGNATURE_CAP
}

/// distinct violation signatures of this run; beyond SIGNATURE_CAP the run stops early (a change that breaks a
/// property for thousands of inputs would otherwise spend its time shrinking each of them)
static SIGNATURES: std::sync::atomic::AtomicU64 = std::sync::atomic::AtomicU64::new(0);
const SIGNATURE_CAP: u64 = 150;

fn record_crash(prop: &dyn Property, tier: Tier, idx: u64, kind: &str, agg: &Mutex<Agg>) {
    let mut g = agg.lock().unwrap();
    if prop.crash_is_violation() {
        let (k, w, d) = prop.crash_signature(tier, idx, kind);
        // a recorded finding does not count towards the early stop: the run has to reach everything else
        let sig = format!("{} :: {}", k, w);
        let known = load_findings(prop.id()).iter().any(|f| !f.fixed && f.sig == sig);
        if !known {
            CRASHES.fetch_add(1, Ordering::SeqCst);
        }
        g.add_violation(Violation { kind: k, witness: w, detail: d, idx, count: 1 });
    } else {
        CRASHES.fetch_add(1, Ordering::SeqCst);
        g.machinery.push(format!("{} of element {} ({}) in a property whose subject calls are all guarded", kind, idx, prop.describe(tier, idx)));
    }
}

#[derive(Clone, Debug)]
pub struct Finding {
    pub fixed: bool,
    pub property: String,
    pub sig: String,
    pub text: String,
}

/// debugging aid: VERIF_MAX_ELEMENTS truncates the index space (never set by registered commands)
pub fn limit(n: u64) -> u64 {
    match std::env::var("VERIF_MAX_ELEMENTS").ok().and_then(|s| s.parse::<u64>().ok()) {
        Some(m) => n.min(m),
        None => n,
    }
}

pub fn verif_root() -> std::path::PathBuf {
    if let Ok(r) = std::env::var("VERIF_ROOT") {
        return r.into();
    }
    // engine binary lives in <root>/engine/target/release/engine
    let exe = std::env::current_exe().unwrap();
    let mut p = exe.as_path();
    for _ in 0..4 {
        p = p.parent().unwrap_or(p);
    }
    p.to_path_buf()
}

pub fn load_findings(prop: &str) -> Vec<Finding> {
    let path = verif_root().join("known_findings.txt");
    let mut out = vec![];
    let text = std::fs::read_to_string(path).unwrap_or_default();
    for line in text.lines() {
        let line = line.trim();
        if line.is_empty() || line.starts_with('#') {
            continue;
        }
        let (fixed, rest) = if let Some(r) = line.strip_prefix("finding:") {
            (false, r.trim())
        } else if let Some(r) = line.strip_prefix("fixed:") {
            (true, r.trim())
        } else {
            continue;
        };
        // property=<ID> sig=<sig text> ;; description
        let mut property = String::new();
        if let Some(p) = rest.strip_prefix("property=") {
            property = p.split_whitespace().next().unwrap_or("").to_string();
        }
        if property != prop {
            continue;
        }
        let sig = match rest.find("sig=") {
            Some(i) => {
                let s = &rest[i + 4..];
                match s.find(" ;; ") {
                    Some(j) => s[..j].trim().to_string(),
                    None => s.trim().to_string(),
                }
            }
            None => String::new(),
        };
        out.push(Finding { fixed, property, sig, text: rest.to_string() });
    }
    out
}

fn sig_hash(s: &str) -> String {
    // FNV-1a 64
    let mut h: u64 = 0xcbf29ce484222325;
    for b in s.as_bytes() {
        h ^= *b as u64;
        h = h.wrapping_mul(0x100000001b3);
    }
    format!("{:016x}", h)
}

pub fn check(prop: &dyn Property, tier: Tier) -> i32 {
    let t0 = Instant::now();
    let id = prop.id();
    let size = limit(prop.size(tier));
    let nshards = (std::thread::available_parallelism().map(|n| n.get() as u64).unwrap_or(8)).min(size.max(1)).min(16);
    let agg = Arc::new(Mutex::new(Agg::default()));
    std::thread::scope(|s| {
        for shard in 0..nshards {
            let agg = agg.clone();
            s.spawn(move || run_shard(prop, tier, shard, nshards, &agg));
        }
    });
    let agg = Arc::try_unwrap(agg).ok().unwrap().into_inner().unwrap();
    let root = verif_root();

    if !agg.machinery.is_empty() {
        for m in &agg.machinery {
            println!("MACHINERY-ERROR property={} {}", id, m);
        }
        return 2;
    }

    let findings = load_findings(id);
    let mut new_violations = 0;
    let mut known = 0;
    let replay_dir = root.join("replays").join(id);
    for (sig, v) in &agg.violations {
        if let Some(f) = findings.iter().find(|f| !f.fixed && &f.sig == sig) {
            known += 1;
            println!("KNOWN-FINDING: property={} {} (x{})", id, f.text.splitn(2, "sig=").nth(1).unwrap_or(sig), v.count);
        } else {
            new_violations += 1;
            let _ = std::fs::create_dir_all(&replay_dir);
            let path = replay_dir.join(format!("{}.json", sig_hash(sig)));
            let doc = json!({"property": id, "sig": sig, "kind": v.kind, "witness": v.witness, "detail": v.detail, "idx": v.idx, "tier": tier.name(), "occurrences": v.count});
            let _ = std::fs::write(&path, serde_json::to_string_pretty(&doc).unwrap());
            println!("VIOLATION property={} replay={}", id, path.display());
            println!("  sig: {}", sig);
        }
    }
    for f in findings.iter().filter(|f| !f.fixed) {
        if !agg.violations.contains_key(&f.sig) {
            println!("NOTE: listed finding did not reproduce in this tier: property={} sig={}", id, f.sig);
        }
    }

    // evidence
    let meta = prop.meta(tier);
    let seed: i64 = std::env::var("VERIF_SEED").ok().and_then(|s| s.parse().ok()).unwrap_or(0);
    let mut cov = Map::new();
    let c = &agg.counters;
    let get = |k: &str| c.get(k).cloned().unwrap_or(0);
    cov.insert("evaluations".into(), json!(get("evaluations")));
    cov.insert("distinct_nontrivial".into(), json!(get("nontrivial")));
    cov.insert("rule".into(), json!(meta.rule));
    cov.insert("samples".into(), json!(agg.samples));
    cov.insert("exhaustive".into(), json!(!agg.stopped_early));
    if agg.stopped_early {
        cov.insert("stopped_early".into(), json!(format!("run cut short after {} confirmed hangs/aborts or {} distinct violation signatures (each is reported); the remaining elements were not evaluated", CRASH_CAP, SIGNATURE_CAP)));
    }
    cov.insert("elements".into(), json!(size));
    cov.insert("trusted_base".into(), json!(meta.trusted_base));
    cov.insert("explanation".into(), json!(meta.explanation));
    if prop.level() == "model_checking" {
        cov.insert("states".into(), json!(get("states")));
        cov.insert("transitions".into(), json!(get("transitions")));
        cov.insert("traces_validated_against_impl".into(), json!(get("traces_validated")));
    }
    let mut others = Map::new();
    for (k, v) in c {
        if !["evaluations", "nontrivial", "states", "transitions", "traces_validated"].contains(&k.as_str()) {
            others.insert(k.clone(), json!(v));
        }
    }
    cov.insert("counters".into(), Value::Object(others));
    cov.insert("unconfirmed_timeouts".into(), json!(agg.unconfirmed_timeouts));
    cov.insert("worker_restarts".into(), json!(agg.restarts));
    cov.insert("known_findings_reproduced".into(), json!(known));
    cov.insert("violation_signatures".into(), json!(agg.violations.keys().collect::<Vec<_>>()));
    let ev = json!({
        "property_id": id,
        "tier": tier.name(),
        "seed": seed,
        "level": prop.level(),
        "coverage": Value::Object(cov),
        "assumptions": meta.assumptions,
        "wall_s": t0.elapsed().as_secs_f64(),
        "violations": new_violations,
    });
    let evdir = root.join("evidence");
    let _ = std::fs::create_dir_all(&evdir);
    if let Err(e) = std::fs::write(evdir.join(format!("{}.json", id)), serde_json::to_string_pretty(&ev).unwrap()) {
        println!("MACHINERY-ERROR property={} cannot write evidence: {}", id, e);
        return 2;
    }
    println!(
        "{} {}: elements={} evaluations={} nontrivial={} signatures={} known={} new={} wall={:.1}s",
        id,
        tier.name(),
        size,
        get("evaluations"),
        get("nontrivial"),
        agg.violations.len(),
        known,
        new_violations,
        t0.elapsed().as_secs_f64()
    );
    if agg.stopped_early {
        println!("NOTE: property={} run cut short after {} confirmed hangs/aborts or {} distinct violation signatures; remaining elements not evaluated", id, CRASH_CAP, SIGNATURE_CAP);
        if new_violations == 0 {
            println!("MACHINERY-ERROR property={} run stopped early without a reportable violation", id);
            return 2;
        }
    }
    if new_violations > 0 { 1 } else { 0 }
}

pub fn replay(prop: &dyn Property, path: &str) -> i32 {
    install_panic_hook();
    let text = match std::fs::read_to_string(path) {
        Ok(t) => t,
        Err(e) => {
            println!("MACHINERY-ERROR cannot read {}: {}", path, e);
            return 2;
        }
    };
    let doc: Value = match serde_json::from_str(&text) {
        Ok(v) => v,
        Err(e) => {
            println!("MACHINERY-ERROR bad replay file: {}", e);
            return 2;
        }
    };
    let tier = Tier::parse(doc["tier"].as_str().unwrap_or("quick")).unwrap_or(Tier::Quick);
    let mut cx = Ctx::new(tier);
    cx.cur_idx = doc["idx"].as_u64().unwrap_or(0);
    prop.replay(&doc["detail"], &mut cx);
    if cx.violations.is_empty() {
        println!("REPLAY property={} holds (no violation reproduced)", prop.id());
        0
    } else {
        for (sig, v) in &cx.violations {
            println!("VIOLATION property={} replay={}", prop.id(), path);
            println!("  sig: {}", sig);
            println!("  detail: {}", v.detail);
        }
        1
    }
}
