mod ast;
mod corpus;
mod fw;
mod grammar;
mod props;
mod refeval;
mod shrink;
mod subj;
mod val;

use fw::{Tier, WorkerArgs};

fn usage() -> ! {
    eprintln!("usage: engine check <ID> <quick|thorough> | engine replay <ID> <file> | engine worker <ID> <tier> [--shard i --nshards k --from j --careful --single idx --budget ms] | engine list");
    std::process::exit(2)
}

fn main() {
    let args: Vec<String> = std::env::args().collect();
    // DataError captures a backtrace when RUST_BACKTRACE is set: three orders of magnitude slower per error
    if std::env::var("RUST_LIB_BACKTRACE").map(|v| v != "0").unwrap_or(true) && std::env::var("RUST_BACKTRACE").map(|v| v != "0").unwrap_or(false) {
        use std::os::unix::process::CommandExt;
        let e = std::process::Command::new(std::env::current_exe().unwrap()).args(&args[1..]).env("RUST_BACKTRACE", "0").env("RUST_LIB_BACKTRACE", "0").exec();
        eprintln!("re-exec failed: {}", e);
        std::process::exit(2);
    }
    if args.len() < 2 {
        usage();
    }
    match args[1].as_str() {
        "list" => {
            for p in props::all() {
                println!("{} {} quick={} thorough={}", p.id(), p.level(), p.size(Tier::Quick), p.size(Tier::Thorough));
            }
        }
        "sizes" => {
            for tier in [Tier::Quick, Tier::Thorough] {
                let sp = props::c01::spaces(tier);
                println!("{}: {}", tier.name(), sp.all().iter().map(|c| format!("{}={}", c.name, c.len())).collect::<Vec<_>>().join(" "));
            }
        }
        "tree" => {
            // debugging aid: print the parse result of a text (\n in the argument = newline)
            let text = args[2].replace("\\n", "\n");
            match subj::lex_g(&text).and_then(|t| subj::parse_g(&t)) {
                Err(f) => println!("rejected: {:?}", f),
                Ok(pr) => {
                    println!("root {}", pr.get_root());
                    for (i, n) in pr.get_nodes().iter().enumerate() {
                        println!("{:>3} {:?} parent={:?} left={:?} right={:?} tok={:?}", i, n.get_definition(), n.get_parent(), n.get_left(), n.get_right(), n.get_lex_token().get_text());
                    }
                    let o = props::pipeline::run_text(&text, true);
                    println!("c04={:?} cyclic={} accepted={} stage_fail={:?} c05={:?}", o.c04.map(|m| m.0), o.cyclic, o.accepted, o.stage_fail, o.c05.map(|m| (m.0, m.1 .0)));
                }
            }
        }
        "describe" => {
            let prop = props::find(&args[2]).unwrap_or_else(|| usage());
            let tier = Tier::parse(&args[3]).unwrap_or_else(|| usage());
            for a in &args[4..] {
                let i: u64 = a.parse().unwrap();
                println!("{}: {}", i, prop.describe(tier, i));
            }
        }
        "check" => {
            if args.len() < 4 {
                usage();
            }
            let prop = props::find(&args[2]).unwrap_or_else(|| usage());
            let tier = Tier::parse(&args[3]).unwrap_or_else(|| usage());
            std::process::exit(fw::check(prop.as_ref(), tier));
        }
        "replay" => {
            if args.len() < 4 {
                usage();
            }
            let prop = props::find(&args[2]).unwrap_or_else(|| usage());
            std::process::exit(fw::replay(prop.as_ref(), &args[3]));
        }
        "worker" => {
            if args.len() < 4 {
                usage();
            }
            let prop = props::find(&args[2]).unwrap_or_else(|| usage());
            let tier = Tier::parse(&args[3]).unwrap_or_else(|| usage());
            let mut a = WorkerArgs { tier, shard: 0, nshards: 1, from: 0, careful: false, single: None, budget_ms: None, skip: vec![] };
            let mut i = 4;
            while i < args.len() {
                let val = |i: usize| -> u64 { args.get(i + 1).and_then(|s| s.parse().ok()).unwrap_or_else(|| usage()) };
                match args[i].as_str() {
                    "--shard" => { a.shard = val(i); i += 1; }
                    "--nshards" => { a.nshards = val(i); i += 1; }
                    "--from" => { a.from = val(i); i += 1; }
                    "--single" => { a.single = Some(val(i)); i += 1; }
                    "--budget" => { a.budget_ms = Some(val(i)); i += 1; }
                    "--careful" => a.careful = true,
                    "--skip" => { a.skip = args.get(i + 1).map(|s| s.split(',').filter_map(|x| x.parse().ok()).collect()).unwrap_or_default(); i += 1; }
                    _ => usage(),
                }
                i += 1;
            }
            std::process::exit(fw::worker(prop.as_ref(), a));
        }
        _ => usage(),
    }
}
