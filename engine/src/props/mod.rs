use crate::fw::Property;

pub mod c09;

pub fn all() -> Vec<Box<dyn Property>> {
    vec![Box::new(c09::C09)]
}

pub fn find(id: &str) -> Option<Box<dyn Property>> {
    all().into_iter().find(|p| p.id() == id)
}
