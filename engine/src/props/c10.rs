//! C10 - one notion of truth; conditionals and logic evaluate only what they must.
//! (a) truth matrix: representative values of every type as the tested value x every testing construct;
//! (b) evaluation order: every derivation of the conditional / logical grammar whose leaves are distinct
//!     identifiers, under every truth assignment, with a recording host; call log compared with the reference.

use crate::ast::*;
use crate::fw::{Ctx, Meta, Property, Tier};
use crate::grammar::Grammar;
use crate::props::c01::{judge_host, reference_of, replay_observed, Outcome};
use crate::subj::{run_program, BData, HVal, Host, SData, Subject};
use crate::val::{SymPart, V};
use garnish_lang_traits::GarnishDataType;
use serde_json::{json, Value};
use std::sync::OnceLock;

pub struct C10;

pub fn representatives() -> Vec<(&'static str, V)> {
    let p = |a: V, c: V| V::Pair(Box::new(a), Box::new(c));
    vec![
        ("unit", V::Unit),
        ("true", V::True),
        ("false", V::False),
        ("int-0", V::Int(0)),
        ("int-5", V::Int(5)),
        ("int-neg", V::Int(-1)),
        ("float-0", V::Float(0.0)),
        ("float-neg-0", V::Float(-0.0)),
        ("float-1.5", V::Float(1.5)),
        ("float-nan", V::Float(f64::NAN)),
        ("char-a", V::Char('a')),
        ("char-nul", V::Char('\0')),
        ("byte-0", V::Byte(0)),
        ("byte-7", V::Byte(7)),
        ("symbol-a", V::sym("a")),
        ("symbol-empty", V::sym("")),
        ("type-unit", V::Type(GarnishDataType::Unit)),
        ("type-false", V::Type(GarnishDataType::False)),
        ("text-empty", V::Str(vec![])),
        ("text-a", V::str("a")),
        ("text-false-spelling", V::str("$!")),
        ("bytes-empty", V::Bytes(vec![])),
        ("bytes-0", V::Bytes(vec![0])),
        ("symlist", V::SymList(vec![SymPart::Sym(1), SymPart::Sym(2)])),
        ("pair-of-falses", p(V::False, V::False)),
        ("pair-of-units", p(V::Unit, V::Unit)),
        ("list-empty", V::List(vec![])),
        ("list-of-false", V::List(vec![V::False])),
        ("list-of-unit", V::List(vec![V::Unit])),
        ("concat-of-falses", V::Concat(Box::new(V::False), Box::new(V::False))),
        ("concat-of-units", V::Concat(Box::new(V::Unit), Box::new(V::Unit))),
        ("range-0-0", V::Range(Box::new(V::Int(0)), Box::new(V::Int(0)))),
        ("slice", V::Slice(Box::new(V::List(vec![V::False])), Box::new(V::Range(Box::new(V::Int(0)), Box::new(V::Int(0)))))),
        ("partial", V::Partial(Box::new(V::False), Box::new(V::Unit))),
        ("expression-0", V::Expr(0)),
        ("external-0", V::External(0)),
    ]
}

/// (name, source, expected result as a function of the truthiness of `$`)
pub fn constructs() -> Vec<(&'static str, &'static str, fn(bool) -> V)> {
    fn sel12(t: bool) -> V {
        if t { V::Int(1) } else { V::Int(2) }
    }
    fn sel21(t: bool) -> V {
        if t { V::Int(2) } else { V::Int(1) }
    }
    fn same(t: bool) -> V {
        V::bool(t)
    }
    fn neg(t: bool) -> V {
        V::bool(!t)
    }
    vec![
        ("?>", "$ ?> 1 |> 2", sel12),
        ("!>", "$ !> 1 |> 2", sel21),
        ("&&-left", "$ && $?", same),
        ("&&-right", "$? && $", same),
        ("||-left", "$ || $!", same),
        ("||-right", "$! || $", same),
        ("^^-left", "$ ^^ $!", same),
        ("^^-right", "$! ^^ $", same),
        ("^^-with-true", "$ ^^ $?", neg),
        ("!!", "!! $", neg),
        ("??", "?? $", same),
        ("?>-plain-taken-or-input", "($ ?> 1) == 1", same),
        ("&&-result-is-boolean", "($? && $) == $?", same),
        ("||-result-is-boolean", "($! || $) == $?", same),
    ]
}

fn truth_cell<D: Subject>(cx: &mut Ctx, ri: usize, ci: usize) {
    let reps = representatives();
    let cons = constructs();
    let (rname, v) = &reps[ri];
    let (cname, src, expect) = cons[ci];
    cx.eval();
    let truthy = !matches!(v, V::Unit | V::False);
    // the last two constructs compare with ==: for the tested value 1 == 1 etc. they stay well defined
    let want = expect(truthy);
    let got = run_program::<D>(src, v, Host::none(), 1000);
    let ok = match &got {
        Ok(o) => o.value == want,
        Err(_) => false,
    };
    if ok {
        cx.nontrivial((D::NAME, rname, cname));
    } else {
        let shown = match &got {
            Ok(o) => o.value.show(),
            Err(f) => f.kind(),
        };
        let class = if truthy { "truthy-value-treated-as-false-or-failed" } else { "false-value-treated-as-true-or-failed" };
        cx.violation(
            class,
            &format!("{} | {} | $={}", D::NAME, cname, rname),
            json!({"mode": "truth", "impl": D::NAME, "construct": ci, "rep": ri, "src": src, "value": v.show(), "expected": want.show(), "got": shown}),
        );
    }
}

// ---- (b) evaluation order -------------------------------------------------------------------

pub fn order_grammar(max: usize) -> (Grammar, usize) {
    const X: usize = 0;
    let mut g = Grammar::new(1);
    g.atom(X, E::Ident("?".into()));
    for o in [BinOp::And, BinOp::Or] {
        g.add(X, 1, vec![X, X], Box::new(move |mut v| {
            let l = v.remove(0);
            let r = v.remove(0);
            E::Bin(o, b(l), b(r))
        }));
    }
    // the remaining testing constructs: ^^ evaluates both operands, !! and ?? their one operand
    g.add(X, 1, vec![X, X], Box::new(|mut v| {
        let l = v.remove(0);
        let r = v.remove(0);
        E::Bin(BinOp::Xor, b(l), b(r))
    }));
    for p in [PreOp::Not, PreOp::Tis] {
        g.add(X, 1, vec![X], Box::new(move |mut v| E::Pre(p, b(v.remove(0)))));
    }
    // operators that test nothing but end an operand / arm with a different last instruction: a comparison, an
    // equality, an arithmetic operation (what follows a block must not depend on how the block ends)
    for o in [BinOp::Lt, BinOp::Eq, BinOp::Add] {
        g.add(X, 1, vec![X, X], Box::new(move |mut v| {
            let l = v.remove(0);
            let r = v.remove(0);
            E::Bin(o, b(l), b(r))
        }));
    }
    for k in [CondKind::IfTrue, CondKind::IfFalse] {
        g.add(X, 1, vec![X, X], Box::new(move |mut v| {
            let c = v.remove(0);
            let a = v.remove(0);
            E::Cond(vec![(k, c, a)], None)
        }));
        g.add(X, 2, vec![X, X, X], Box::new(move |mut v| {
            let c = v.remove(0);
            let a = v.remove(0);
            let d = v.remove(0);
            E::Cond(vec![(k, c, a)], Some(b(d)))
        }));
    }
    g.add(X, 3, vec![X, X, X, X, X], Box::new(|mut v| {
        let c1 = v.remove(0);
        let a1 = v.remove(0);
        let c2 = v.remove(0);
        let a2 = v.remove(0);
        let d = v.remove(0);
        E::Cond(vec![(CondKind::IfTrue, c1, a1), (CondKind::IfFalse, c2, a2)], Some(b(d)))
    }));
    g.add(X, 2, vec![X, X, X, X], Box::new(|mut v| {
        let c1 = v.remove(0);
        let a1 = v.remove(0);
        let c2 = v.remove(0);
        let a2 = v.remove(0);
        E::Cond(vec![(CondKind::IfTrue, c1, a1), (CondKind::IfTrue, c2, a2)], None)
    }));
    g.add(X, 4, vec![X, X, X, X, X, X, X], Box::new(|mut v| {
        let c1 = v.remove(0);
        let a1 = v.remove(0);
        let c2 = v.remove(0);
        let a2 = v.remove(0);
        let c3 = v.remove(0);
        let a3 = v.remove(0);
        let d = v.remove(0);
        E::Cond(vec![(CondKind::IfTrue, c1, a1), (CondKind::IfTrue, c2, a2), (CondKind::IfFalse, c3, a3)], Some(b(d)))
    }));
    g.prepare(max);
    (g, X)
}


// ---- (c) block endings: what follows a block must not depend on the block's last instruction --------------

/// every operator of the core language applied to fresh leaves, as the LAST thing a block evaluates, in every kind
/// of block the builder closes with a normalising or joining instruction: the right operand of && / ||, directly
/// and behind a conditional with else (then-arm and default), and the arms of a conditional
pub fn ending_programs() -> &'static Vec<E> {
    static P: OnceLock<Vec<E>> = OnceLock::new();
    P.get_or_init(|| {
        let leaf = || E::Ident("?".into());
        let mut lasts: Vec<E> = vec![];
        for o in crate::corpus::core_bin() {
            if matches!(o, BinOp::Semi | BinOp::Apply | BinOp::ApplyTo) {
                continue;
            }
            lasts.push(E::Bin(o, b(leaf()), b(leaf())));
        }
        for p in crate::corpus::all_pre() {
            lasts.push(E::Pre(p, b(leaf())));
        }
        for sfx in [SufOp::RightInt, SufOp::LenInt] {
            lasts.push(E::Suf(sfx, b(leaf())));
        }
        lasts.push(E::SpaceList(vec![leaf(), leaf()]));
        lasts.push(E::Prop(b(leaf()), "a".into()));
        lasts.push(E::Group(b(leaf())));
        lasts.push(E::Int(12));
        lasts.push(E::True);
        let mut out = vec![];
        for last in &lasts {
            let cond = |k: CondKind, c: E, a: E, d: Option<E>| E::Cond(vec![(k, c, a)], d.map(b));
            for o in [BinOp::And, BinOp::Or] {
                out.push(E::Bin(o, b(leaf()), b(last.clone())));
                out.push(E::Bin(o, b(last.clone()), b(leaf())));
                out.push(E::Bin(o, b(leaf()), b(cond(CondKind::IfTrue, leaf(), leaf(), Some(last.clone())))));
                out.push(E::Bin(o, b(leaf()), b(cond(CondKind::IfTrue, leaf(), last.clone(), Some(leaf())))));
                out.push(E::Bin(o, b(leaf()), b(cond(CondKind::IfFalse, leaf(), last.clone(), None))));
                out.push(E::Bin(o, b(leaf()), b(E::Bin(if o == BinOp::And { BinOp::Or } else { BinOp::And }, b(leaf()), b(last.clone())))));
            }
            // an else-chain whose later condition or arm is the operator (a condition that reserves jump entries of its own)
            out.push(E::Cond(vec![(CondKind::IfTrue, leaf(), leaf()), (CondKind::IfTrue, last.clone(), leaf())], Some(b(leaf()))));
            out.push(E::Cond(vec![(CondKind::IfTrue, leaf(), leaf()), (CondKind::IfFalse, E::Bin(BinOp::And, b(leaf()), b(last.clone())), leaf())], Some(b(leaf()))));
            out.push(E::Cond(vec![(CondKind::IfTrue, leaf(), leaf()), (CondKind::IfTrue, E::Bin(BinOp::Or, b(last.clone()), b(leaf())), last.clone())], Some(b(leaf()))));
            out.push(cond(CondKind::IfTrue, leaf(), last.clone(), Some(leaf())));
            out.push(cond(CondKind::IfTrue, leaf(), leaf(), Some(last.clone())));
            out.push(cond(CondKind::IfFalse, last.clone(), leaf(), Some(leaf())));
            out.push(E::Pre(PreOp::Not, b(cond(CondKind::IfTrue, leaf(), leaf(), Some(last.clone())))));
            out.push(E::Bin(BinOp::Xor, b(leaf()), b(cond(CondKind::IfTrue, leaf(), leaf(), Some(last.clone())))));
        }
        out
    })
}

struct Order {
    g: Grammar,
    nt: usize,
    total: u64,
}

fn order(tier: Tier) -> &'static Order {
    static Q: OnceLock<Order> = OnceLock::new();
    static T: OnceLock<Order> = OnceLock::new();
    let mk = |max| {
        let (g, nt) = order_grammar(max);
        let total = g.count_upto(nt, max) as u64;
        Order { g, nt, total }
    };
    match tier {
        Tier::Quick => Q.get_or_init(|| mk(7)),
        Tier::Thorough => T.get_or_init(|| mk(9)),
    }
}

/// give every leaf a distinct identifier name (a, b, c, ...) in source order; returns the number of leaves
pub fn name_leaves(e: &mut E, next: &mut usize) {
    match e {
        E::Ident(n) if n == "?" => {
            *n = format!("v{}", (b'a' + (*next as u8)) as char);
            *next += 1;
        }
        E::Bin(_, l, r) => {
            name_leaves(l, next);
            name_leaves(r, next);
        }
        E::Pre(_, x) | E::Group(x) | E::Suf(_, x) | E::Prop(x, _) => name_leaves(x, next),
        E::SpaceList(items) | E::CommaList(items) => {
            for i in items {
                name_leaves(i, next);
            }
        }
        E::Cond(arms, d) => {
            for (_, c, a) in arms {
                name_leaves(c, next);
                name_leaves(a, next);
            }
            if let Some(d) = d {
                name_leaves(d, next);
            }
        }
        _ => {}
    }
}

/// order programs first, then the block-ending family
fn order_program(tier: Tier, i: u64) -> E {
    let o = order(tier);
    if i < o.total {
        o.g.nth(o.nt, i as u128)
    } else {
        ending_programs()[(i - o.total) as usize].clone()
    }
}

fn assignment_host(leaves: usize, bits: u64) -> Host {
    let mut h = Host::default();
    h.record_resolve = true;
    for i in 0..leaves {
        let name = format!("v{}", (b'a' + (i as u8)) as char);
        // truthy values alternate between a number and a text, falsy between $! and unit
        let val = if (bits >> i) & 1 == 1 {
            if i % 2 == 0 { HVal::Int(10 + i as i32) } else { HVal::Text(format!("t{}", i)) }
        } else if i % 2 == 0 {
            HVal::False
        } else {
            HVal::Unit
        };
        h.resolve.push((name, val));
    }
    h
}

fn order_case<D: Subject>(cx: &mut Ctx, e: &E, leaves: usize, bits: u64) -> bool {
    cx.eval();
    let host = assignment_host(leaves, bits);
    let input = V::Int(77);
    match judge_host::<D>(e, &input, &host, true) {
        (Outcome::Ok, _) => {
            cx.count("agree", 1);
            true
        }
        (Outcome::Skip, _) => {
            cx.count("reference_declined", 1);
            true
        }
        (Outcome::Bad(kind, got), src) => {
            // run errors after complete evaluation are C01/C06 findings (else-chain without default): here only
            // what was evaluated is judged, and the call log already matched if we got as far as the value
            if kind.starts_with("run-err") {
                cx.count("run_failed_after_matching_log", 1);
                return true;
            }
            // canonical witness: shrink the assignment to the lowest failing one, and the program by AST reduction
            let mut fails = |c: &E| matches!(judge_host::<D>(c, &input, &host, true).0, Outcome::Bad(ref k, _) if *k == kind);
            let w = crate::shrink::shrink(e, &mut fails);
            let wsrc = print(&w).unwrap_or(src);
            cx.violation(
                &kind,
                &format!("{} | {} | truthy-mask={:b}", D::NAME, wsrc.replace('\n', "\\n"), bits),
                json!({"mode": "order", "impl": D::NAME, "src": wsrc, "leaves": leaves, "bits": bits, "got": got,
                       "expected_log": reference_of::<D>(&w, &input, &host).map(|x| x.0), "expected_value": reference_of::<D>(&w, &input, &host).map(|x| x.1)}),
            );
            false
        }
    }
}

impl Property for C10 {
    fn id(&self) -> &'static str {
        "C10"
    }
    fn level(&self) -> &'static str {
        "exploration"
    }
    fn size(&self, tier: Tier) -> u64 {
        representatives().len() as u64 + order(tier).total + ending_programs().len() as u64
    }
    fn describe(&self, tier: Tier, idx: u64) -> String {
        let nr = representatives().len() as u64;
        if idx < nr {
            format!("truth row {}", representatives()[idx as usize].0)
        } else {
            let mut e = order_program(tier, idx - nr);
            let mut n = 0;
            name_leaves(&mut e, &mut n);
            format!("order: {}", print(&e).unwrap_or_default())
        }
    }
    fn run(&self, tier: Tier, idx: u64, cx: &mut Ctx) {
        let nr = representatives().len() as u64;
        if idx < nr {
            for ci in 0..constructs().len() {
                truth_cell::<SData>(cx, idx as usize, ci);
                truth_cell::<BData>(cx, idx as usize, ci);
            }
            cx.sample(json!({"truth_row": representatives()[idx as usize].0, "constructs": constructs().iter().map(|c| c.1).collect::<Vec<_>>()}));
            return;
        }
        let mut e = order_program(tier, idx - nr);
        let mut leaves = 0;
        name_leaves(&mut e, &mut leaves);
        if leaves > 10 {
            return;
        }
        // after the first failing assignment of a program the remaining ones are only counted
        let (mut s_ok, mut b_ok) = (true, true);
        for bits in 0..(1u64 << leaves) {
            if s_ok {
                s_ok = order_case::<SData>(cx, &e, leaves, bits);
            } else {
                cx.count("assignments_skipped_after_first_failure", 1);
            }
            if b_ok {
                b_ok = order_case::<BData>(cx, &e, leaves, bits);
            } else {
                cx.count("assignments_skipped_after_first_failure", 1);
            }
        }
        cx.nontrivial(("order", idx));
        cx.count("order_programs", 1);
        cx.sample_at(4099, || json!({"order_program": print(&e), "assignments": 1u64 << leaves}));
    }
    fn replay(&self, d: &Value, cx: &mut Ctx) {
        match d["mode"].as_str() {
            Some("truth") => {
                let ri = d["rep"].as_u64().unwrap_or(0) as usize;
                let ci = d["construct"].as_u64().unwrap_or(0) as usize;
                if d["impl"].as_str() == Some("simple") { truth_cell::<SData>(cx, ri, ci) } else { truth_cell::<BData>(cx, ri, ci) }
            }
            _ => {
                let leaves = d["leaves"].as_u64().unwrap_or(0) as usize;
                let bits = d["bits"].as_u64().unwrap_or(0);
                let host = assignment_host(leaves, bits);
                let input = V::Int(77);
                if d["impl"].as_str() == Some("simple") { replay_observed::<SData>(cx, d, &input, &host) } else { replay_observed::<BData>(cx, d, &input, &host) }
            }
        }
    }
    fn meta(&self, tier: Tier) -> Meta {
        Meta {
            rule: format!("(a) {} representative values covering all 19 value types (empty and non-empty, zero, NaN, pair/list/concatenation of falses, the text \"$!\") as the tested value x {} testing programs over ?> !> && || ^^ !! ?? in both operand positions x both implementations: false iff unit or $!, boolean results only; (b) every derivation of the grammar {{&&, ||, ^^, !!, ??, ?>, !>, with default, two- and three-arm else-chains, plus the non-testing operators <, ==, + as operands and arms}} with up to {} AST nodes ({} programs) whose leaves are distinct identifiers, under every truthy/falsy assignment (truthy: number or text, falsy: $! or unit), recording host: the sequence of resolve callbacks and the final value equal the reference evaluator's. (c) block endings: every core operator applied to fresh identifiers as the last thing evaluated by the right operand of && / || (directly, nested in the other logical operator, and in either arm of a conditional inside it), by a conditional's arms and condition, and under ! and ^^ ({} programs), same oracle. Non-trivial: a passing truth cell / an order program; distinct by (implementation, value, construct) / enumeration index.", representatives().len(), constructs().len(), tier.pick(7, 9), order(tier).total, ending_programs().len()),
            assumptions: vec![
                "what was evaluated is observed through the host's resolve callback (one identifier per leaf)".into(),
                "a run that fails after its call log matched (else-chain without default and no match - recorded under C01/C06) is counted, not reported here".into(),
            ],
            trusted_base: vec!["engine/src/refeval.rs (short-circuit and selection semantics)".into(), "recording host in engine/src/subj.rs".into()],
            explanation: "exhaustive truth matrix plus bounded-exhaustive programs x all truth assignments with an observing host".into(),
        }
    }
}
