//! C01 - compiled programs compute what the source means.
//! Every AST of the core-language grammars up to a size bound, printed with minimal parentheses, compiled and
//! executed on both data implementations for every initial input, compared with the reference evaluator.

use crate::ast::{print, E};
use crate::corpus::{self, Corpus};
use crate::fw::{Ctx, Meta, Property, Tier};
use crate::refeval::{Ref, Stop};
use crate::shrink::shrink;
use crate::subj::{run_program, BData, Call, Fail, Host, SData, Subject};
use crate::val::V;
use serde_json::{json, Value};
use std::sync::OnceLock;

pub struct C01;

pub struct Spaces {
    pub t1: Corpus,
    pub t2: Corpus,
    pub t3: Corpus,
    pub t4: Corpus,
    pub t5: Corpus,
    pub t6: Corpus,
    pub t7: Corpus,
}

impl Spaces {
    pub fn all(&self) -> [&Corpus; 7] {
        [&self.t1, &self.t2, &self.t3, &self.t4, &self.t5, &self.t6, &self.t7]
    }
    pub fn total(&self) -> u64 {
        self.all().iter().map(|c| c.len()).sum()
    }
}

pub fn spaces(tier: Tier) -> &'static Spaces {
    static Q: OnceLock<Spaces> = OnceLock::new();
    static T: OnceLock<Spaces> = OnceLock::new();
    match tier {
        Tier::Quick => Q.get_or_init(|| Spaces { t1: corpus::t1(), t2: corpus::t2(corpus::small_atoms()), t3: corpus::t3(corpus::t3_default(6)), t4: corpus::t4(8), t5: corpus::t5(7), t6: corpus::t6(), t7: corpus::t7(3, vec![E::Int(2), E::Val]) }),
        Tier::Thorough => T.get_or_init(|| Spaces { t1: corpus::t1(), t2: corpus::t2(corpus::typed_atoms()), t3: corpus::t3(corpus::t3_default(7)), t4: corpus::t4(10), t5: corpus::t5(9), t6: corpus::t6(), t7: corpus::t7(4, vec![E::Val]) }),
    }
}

pub fn locate(tier: Tier, idx: u64) -> (&'static Corpus, u64) {
    let s = spaces(tier);
    let mut i = idx;
    for c in s.all() {
        if i < c.len() {
            return (c, i);
        }
        i -= c.len();
    }
    panic!("program index out of range")
}

/// does the reference evaluator finish this program (input 0) within its fuel? Used to drop the never-ending
/// bodies of the reapply-loop corpus T4 where running them to a step cap would only cost time.
pub fn ref_terminates(e: &E) -> bool {
    let host = Host::none();
    // top-level loops use the program input as their counter: both inputs the checks run them with must terminate
    for input in [V::Int(0), V::Int(5)] {
        let mut r = Ref::new(&host, 64);
        if matches!(r.run(e, &input), Err(Stop::Fuel)) {
            return false;
        }
    }
    true
}

#[derive(Clone, Debug, PartialEq)]
pub enum Outcome {
    Ok,
    Skip,
    Bad(String, String), // kind, got
}

/// judge one (program, input, implementation)
pub fn judge<D: Subject>(e: &E, input: &V) -> (Outcome, String) {
    judge_host::<D>(e, input, &Host::none(), false)
}

fn show_log(l: &[Call]) -> String {
    l.iter()
        .map(|c| match c {
            Call::Resolve(s) => format!("resolve#{:x}", s & 0xffff),
            Call::Apply(n, a) => format!("apply({},{})", n, a),
            Call::Defer(op, l, r) => format!("defer({},{},{})", op, l.0, r.0),
        })
        .collect::<Vec<_>>()
        .join(" ")
}

/// what the reference expects: (call log, value), both shown as text (for replay files)
pub fn reference_of<D: Subject>(e: &E, input: &V, host: &Host) -> Option<(String, String)> {
    let mut host = host.clone();
    if !D::has_external_apply() {
        host.apply_accept = false;
    }
    let mut r = Ref::new(&host, 64);
    let v = r.run(e, input).ok()?;
    let mut log = r.log.clone();
    if !D::has_external_apply() {
        log.retain(|c| !matches!(c, Call::Apply(..)));
    }
    Some((show_log(&log), v.show()))
}

/// what the implementation does with a source text: (call log, value or failure kind)
pub fn observe<D: Subject>(src: &str, input: &V, host: &Host) -> (String, String) {
    let mut host = host.clone();
    if !D::has_external_apply() {
        host.apply_accept = false;
    }
    let mut d = D::fresh(host);
    let res = (|| -> Result<V, Fail> {
        let (_, bd) = crate::subj::compile(src, &mut d)?;
        crate::subj::start(&mut d, *bd.jump_index(), input)?;
        crate::subj::run_to_end(&mut d, 100_000)?;
        crate::subj::current_value(&d)
    })();
    let log = show_log(&d.host().log);
    (log, match res {
        Ok(v) => v.show(),
        Err(f) => f.kind(),
    })
}

/// replay helper shared by the host-observing properties: still failing iff log or value differ from the recorded expectation
pub fn replay_observed<D: Subject>(cx: &mut Ctx, d: &Value, input: &V, host: &Host) {
    let src = d["src"].as_str().unwrap_or("");
    let (log, val) = observe::<D>(src, input, host);
    let want_log = d["expected_log"].as_str().unwrap_or("");
    let want_val = d["expected_value"].as_str().unwrap_or("");
    if log != want_log || val != want_val {
        let kind = if log != want_log { "host-calls-differ" } else if val.starts_with("run-err") || val.starts_with("panic") { "run-failed" } else { "value-mismatch" };
        cx.violation(kind, &format!("{} | {}", D::NAME, src.replace('\n', "\\n")), json!({"src": src, "log": log, "value": val, "expected_log": want_log, "expected_value": want_val}));
    }
}

/// judge one (program, input, implementation) under a scripted recording host; with `logs` the host-call
/// sequence (callback, argument) must equal the reference evaluator's
pub fn judge_host<D: Subject>(e: &E, input: &V, host: &Host, logs: bool) -> (Outcome, String) {
    let src = match print(e) {
        Some(s) => s,
        None => return (Outcome::Skip, String::new()),
    };
    let mut host = host.clone();
    if !D::has_external_apply() {
        host.apply_accept = false;
    }
    let mut r = Ref::new(&host, 64);
    let expect = match r.run(e, input) {
        Ok(v) => v,
        Err(Stop::Fuel) | Err(Stop::Skip(_)) | Err(Stop::Restart(_)) => return (Outcome::Skip, src),
    };
    let cap = 20 * r.steps + 500;
    let mut want_log = r.log.clone();
    if !D::has_external_apply() {
        want_log.retain(|c| !matches!(c, Call::Apply(..)));
    }
    let mut d = D::fresh(host.clone());
    let res = (|| -> Result<V, Fail> {
        let (_, bd) = crate::subj::compile(&src, &mut d)?;
        crate::subj::start(&mut d, *bd.jump_index(), input)?;
        crate::subj::run_to_end(&mut d, cap)?;
        crate::subj::current_value(&d)
    })();
    let got_log = d.host().log.clone();
    // a run that stopped with an error can only have produced a prefix of the calls: report the failure itself
    let failed_with_prefix = res.is_err() && got_log.len() <= want_log.len() && want_log[..got_log.len()] == got_log[..];
    if logs && got_log != want_log && !failed_with_prefix {
        // classify: a call too many / too few / different order or argument
        let kind = if got_log.len() > want_log.len() {
            "host-called-more-than-reference"
        } else if got_log.len() < want_log.len() {
            "host-called-less-than-reference"
        } else {
            "host-calls-differ"
        };
        return (Outcome::Bad(kind.into(), format!("calls [{}] (reference [{}])", show_log(&got_log), show_log(&want_log))), src);
    }
    match res {
        Ok(value) => {
            if value == expect {
                (Outcome::Ok, src)
            } else {
                (Outcome::Bad("value-mismatch".into(), format!("{} (reference {})", value.show(), expect.show())), src)
            }
        }
        Err(f) => (Outcome::Bad(fail_kind(&f), format!("{:?} (reference {})", f, expect.show())), src),
    }
}

pub fn fail_kind(f: &Fail) -> String {
    f.kind()
}

fn check_one<D: Subject>(cx: &mut Ctx, e: &E, input_i: usize, shrink_it: bool) {
    let ins = corpus::inputs();
    let (iname, input) = &ins[input_i];
    cx.eval();
    let (o, src) = judge::<D>(e, input);
    match o {
        Outcome::Ok => {
            cx.count("agree", 1);
        }
        Outcome::Skip => cx.count("reference_declined_or_unprintable", 1),
        Outcome::Bad(kind, got) => {
            cx.count("disagree", 1);
            // shrink program, then input, to a canonical minimal witness failing the same way
            let (w, wi) = if shrink_it {
                let mut fails = |c: &E| matches!(judge::<D>(c, input).0, Outcome::Bad(ref k, _) if *k == kind);
                let w = shrink(e, &mut fails);
                let mut wi = input_i;
                for j in 0..input_i {
                    if matches!(judge::<D>(&w, &ins[j].1).0, Outcome::Bad(ref k, _) if *k == kind) {
                        wi = j;
                        break;
                    }
                }
                (w, wi)
            } else {
                (e.clone(), input_i)
            };
            let wsrc = print(&w).unwrap_or_default();
            let (_, wgot) = match judge::<D>(&w, &ins[wi].1) {
                (Outcome::Bad(_, g), _) => ((), g),
                _ => ((), got.clone()),
            };
            // the recorded else-chain defect (last arm conditional, no arm matches: nothing is left for the end of
            // the expression) has one signature per failure kind and implementation, whatever conditions and atoms
            // the minimal witness happens to keep; every other failure keeps its exact witness
            let witness = if kind.starts_with("run-err[") && corpus::ends_chain_with_conditional(&w) {
                format!("{} | <else-chain whose last arm is conditional>", D::NAME)
            } else {
                format!("{} | {} | $={}", D::NAME, wsrc.replace('\n', "\\n"), ins[wi].0)
            };
            cx.violation(
                &kind,
                &witness,
                json!({"impl": D::NAME, "src": wsrc, "input": wi, "input_shown": ins[wi].0, "got": wgot, "first_seen_src": src, "first_seen_input": iname, "ast": format!("{:?}", w)}),
            );
        }
    }
}

fn nontrivial(e: &E) -> bool {
    e.size() > 1
}

impl Property for C01 {
    fn id(&self) -> &'static str {
        "C01"
    }
    fn level(&self) -> &'static str {
        "exploration"
    }
    fn size(&self, tier: Tier) -> u64 {
        spaces(tier).total()
    }
    fn describe(&self, tier: Tier, idx: u64) -> String {
        let (c, i) = locate(tier, idx);
        format!("{}#{}: {}", c.name, i, print(&c.program(i)).unwrap_or_default())
    }
    fn crash_is_violation(&self) -> bool {
        true
    }
    fn run(&self, tier: Tier, idx: u64, cx: &mut Ctx) {
        let (c, i) = locate(tier, idx);
        let e = c.program(i);
        let n_inputs = match (c.name, tier) {
            ("T1", _) => 5,
            ("T2", Tier::Quick) => 2,
            ("T2", Tier::Thorough) => 5,
            (_, Tier::Quick) => 2,
            _ => 5,
        };
        // quick tiers use the inputs "5" and "(:a = 1, :b = 2)"; thorough all five
        // T1 (every operator once) and the small T6/T7 corpora also run with the input whose key `a` holds unit
        let mut sel: Vec<usize> = if c.name == "T4" { vec![1, 5] } else if n_inputs == 2 { vec![1, 3] } else { (0..5).collect() };
        if c.name == "T1" || (tier == Tier::Thorough && c.name != "T4") {
            sel.push(6);
        }
        for ii in sel {
            check_one::<SData>(cx, &e, ii, true);
            check_one::<BData>(cx, &e, ii, true);
        }
        if nontrivial(&e) {
            cx.nontrivial((c.name, i));
        }
        cx.count(&format!("programs_{}", c.name), 1);
        cx.sample_at(49_999, || json!({"corpus": c.name, "src": print(&e), "inputs": n_inputs}));
    }
    fn replay(&self, d: &Value, cx: &mut Ctx) {
        // replays re-run the recorded source text directly (no AST needed): compare both the recorded expectation
        let src = d["src"].as_str().unwrap_or("").to_string();
        let input_i = d["input"].as_u64().unwrap_or(0) as usize;
        let ins = corpus::inputs();
        let input = &ins[input_i.min(ins.len() - 1)].1;
        let which = d["impl"].as_str().unwrap_or("simple");
        let r = if which == "simple" { run_program::<SData>(&src, input, Host::none(), 100_000) } else { run_program::<BData>(&src, input, Host::none(), 100_000) };
        let shown = match &r {
            Ok(o) => o.value.show(),
            Err(f) => format!("{:?}", f),
        };
        // the recorded `got` starts with the observed outcome; still failing iff the outcome is unchanged
        let recorded = d["got"].as_str().unwrap_or("");
        let recorded_obs = recorded.split(" (reference ").next().unwrap_or("");
        let reference = recorded.split(" (reference ").nth(1).unwrap_or("").trim_end_matches(')');
        let now_ok = match &r {
            Ok(o) => o.value.show() == reference,
            Err(_) => false,
        };
        if !now_ok {
            let kind = match &r {
                Ok(_) => "value-mismatch".to_string(),
                Err(f) => f.kind(),
            };
            cx.violation(&kind, &format!("{} | {} | $={}", which, src.replace('\n', "\\n"), ins[input_i.min(ins.len() - 1)].0), json!({"src": src, "got": shown, "recorded": recorded_obs, "reference": reference}));
        }
    }
    fn meta(&self, tier: Tier) -> Meta {
        let s = spaces(tier);
        Meta {
            rule: format!(
                "all ASTs of five grammars by size (unranked index -> AST): T1 every core operator with <=1 operator over 12 typed atoms ({} programs, 5 inputs); T2 every ordered pair of operators in both nestings ({} programs); T3 structural grammar (groups, space/comma lists, conditionals with else-chains, && ||, `;` and blank-line sequencing, side-effect blocks, nested expressions with <~ ~> ~~, identifiers, property access, bounded reapply loops) up to {} AST nodes ({} programs); T4 reapply loops `{{ T }} <~ 0`, `0 ~> {{ T }}` and top-level `T` (input as counter; inputs 5 and 0) whose body places `^~ $ + 1` / `^~ $ + 2` in every guarded position - conditional arms, else arms, chained arms, right operand of && / ||, groups, after `;` and blank-line sequencing - up to {} nodes ({} programs); T5 calls: nested expressions applied inside nested expressions by <~ ~> ~~ with additions, lists, conditionals and `;` around them, up to {} nodes ({} programs); T6 block endings: every core operator as the last thing evaluated by the right operand of && / ||, by conditional arms / conditions, under ! and ^^, over four literal pools ({} programs); T7 nesting: every one-hole context (operand positions of one operator per class, list items, evaluated conditional arms and conditions, side-effect bodies, nested-expression bodies and arguments, sequence positions, a loop body) inside every other to depth 3/4 ({} programs); each printed with minimal parentheses, run on SimpleGarnishData and BasicGarnishData and compared with the reference evaluator. Non-trivial = program with at least one operator; distinct by enumeration index (the unranking is injective).",
                s.t1.len(), s.t2.len(), s.t3.max, s.t3.len(), s.t4.max, s.t4.len(), s.t5.max, s.t5.len(), s.t6.len(), s.t7.len()
            ),
            assumptions: vec![
                "reference evaluator engine/src/refeval.rs is the statement of the core-language semantics (DESIGN.md appendix A); constructs it declines (ranges, slices, casts, float indexes, duplicate keys, shifts with unrepresentable product) are counted, not judged".into(),
                "expression values compare as 'some expression'".into(),
                "larger programs are not sampled; the bound is the grammar size per tier".into(),
            ],
            trusted_base: vec!["engine/src/refeval.rs".into(), "engine/src/ast.rs printer + spec precedence levels".into(), "engine/src/val.rs bridge".into()],
            explanation: "bounded-exhaustive differential check against an independent big-step reference evaluator".into(),
        }
    }
}
