//! C19 - compaction and cloning preserve everything reachable.
//! (1) explicit-state search over value-graph construction histories on a real BasicGarnishData; in every
//!     construction state: optimize for every retention count at a value boundary x every root set of <= 2
//!     addresses (once and twice) and clone_data of every value; everything reachable is read back and compared.
//! (2) compaction injected at every step boundary (and every pair of boundaries) of running programs.

use crate::ast::print;
use crate::corpus::{self, Corpus};
use crate::fw::{guard, panic_kind, Ctx, Meta, Property, Tier};
use crate::subj::{basic_settings, compile, current_value, start, step, BData, Host, Subject};
use crate::val::{get, put_list, Adder, V};
use garnish_lang_simple_data::{symbol_value, BasicGarnishData, ReallocationStrategy};
use garnish_lang_traits::GarnishData;
use serde_json::{json, Value};
use std::sync::OnceLock;

pub struct C19;

#[derive(Clone, Copy, Debug, PartialEq)]
pub enum Op {
    Number,
    Text,
    Bytes,
    Symbol,
    Pair(usize, usize),
    KeyedPair(usize),
    List1(usize),
    List2(usize, usize),
    Concat(usize, usize),
    SymList(usize, usize),
    PushRegister(usize),
    PushValue(usize),
    PushFrame,
    /// clone_data of an existing value (leaves its scratch cells in the data block: later compactions see them)
    Clone(usize),
    /// a scalar of the remaining kinds, cycling with the step number: float, char, byte, unit, true, type, expression, external
    Scalar,
    /// range / slice / partial of an existing value and the most recent one
    Range(usize),
    Slice(usize),
    Partial(usize),
}

/// operations enabled with `n` existing values (operands are value ordinals)
fn enabled(n: usize) -> Vec<Op> {
    let mut v = vec![Op::Number, Op::Text, Op::Symbol, Op::Bytes, Op::Scalar];
    for i in 0..n {
        v.push(Op::Range(i));
        v.push(Op::Slice(i));
        v.push(Op::Partial(i));
        v.push(Op::KeyedPair(i));
        v.push(Op::List1(i));
        v.push(Op::PushRegister(i));
        v.push(Op::PushValue(i));
        v.push(Op::Clone(i));
        for j in 0..n {
            v.push(Op::Pair(i, j));
            v.push(Op::List2(i, j));
            v.push(Op::Concat(i, j));
        }
    }
    if n >= 2 {
        v.push(Op::SymList(0, 1));
    }
    v.push(Op::PushFrame);
    v
}

fn adds_value(op: Op) -> bool {
    !matches!(op, Op::PushRegister(_) | Op::PushValue(_) | Op::PushFrame)
}

#[derive(Clone)]
struct St {
    d: BData,
    /// addresses of constructed values, in construction order
    values: Vec<usize>,
    /// data cursor after every step (valid retention counts), starting with 0
    boundaries: Vec<usize>,
    symbols: Vec<String>,
    frames: Vec<usize>,
    steps: usize,
}

fn small_store() -> BData {
    let st = |n| basic_settings(n, ReallocationStrategy::FixedSize(3));
    // the data block keeps the library's default size and growth: `optimize` derives its work limit from the block
    // size, so a tiny data block would make it fail for reasons unrelated to the graph; the blocks around it are
    // tiny so that the heap is re-laid out while values exist
    let data = basic_settings(10, ReallocationStrategy::FixedSize(10));
    BasicGarnishData::new_with_settings(st(2), st(2), st(1), st(1), data, st(1), Host::none()).expect("new_with_settings")
}

fn apply(st: &mut St, op: Op) -> Result<(), String> {
    let e = |x: garnish_lang_simple_data::DataError| format!("{}", x);
    let k = st.steps as i32;
    let val = |st: &St, i: usize| st.values[i];
    let new = match op {
        Op::Number => Some(st.d.add_number((100 + k).into()).map_err(e)?),
        Op::Text => Some(st.d.add_text(&format!("t{}é", k).chars().collect::<Vec<_>>()).map_err(e)?),
        Op::Bytes => Some(st.d.add_bytes(&[k as u8, 255]).map_err(e)?),
        Op::Symbol => {
            let name = format!("s{}", k);
            let a = st.d.parse_add_symbol(&name).map_err(e)?;
            st.symbols.push(name);
            Some(a)
        }
        Op::Pair(i, j) => Some(st.d.add_pair((val(st, i), val(st, j))).map_err(e)?),
        Op::KeyedPair(i) => {
            let name = format!("k{}", k);
            let s = st.d.parse_add_symbol(&name).map_err(e)?;
            st.symbols.push(name);
            // the key symbol is a value of its own
            st.values.push(s);
            Some(st.d.add_pair((s, val(st, i))).map_err(e)?)
        }
        Op::List1(i) => {
            let a = val(st, i);
            Some(put_list(&mut st.d, &[a]).map_err(e)?)
        }
        Op::List2(i, j) => {
            let (a, c) = (val(st, i), val(st, j));
            Some(put_list(&mut st.d, &[a, c]).map_err(e)?)
        }
        Op::Concat(i, j) => Some(st.d.add_concatenation(val(st, i), val(st, j)).map_err(e)?),
        Op::SymList(_, _) => {
            let a = st.d.add_symbol(symbol_value("x")).map_err(e)?;
            let b = st.d.add_symbol(symbol_value("y")).map_err(e)?;
            st.values.push(a);
            st.values.push(b);
            Some(st.d.merge_to_symbol_list(a, b).map_err(e)?)
        }
        Op::PushRegister(i) => {
            st.d.push_register(val(st, i)).map_err(e)?;
            None
        }
        Op::PushValue(i) => {
            st.d.push_value_stack(val(st, i)).map_err(e)?;
            None
        }
        Op::Clone(i) => Some(st.d.clone_data(val(st, i)).map_err(e)?),
        Op::Scalar => Some(match st.steps % 8 {
            0 => st.d.add_number(garnish_lang_simple_data::SimpleNumber::Float(k as f64 + 0.5)).map_err(e)?,
            1 => st.d.add_char('é').map_err(e)?,
            2 => st.d.add_byte(200).map_err(e)?,
            3 => st.d.add_unit().map_err(e)?,
            4 => st.d.add_true().map_err(e)?,
            5 => st.d.add_type(garnish_lang_traits::GarnishDataType::List).map_err(e)?,
            6 => st.d.add_expression(3).map_err(e)?,
            _ => st.d.add_external(9).map_err(e)?,
        }),
        Op::Range(i) => {
            let (a, c) = (val(st, i), *st.values.last().unwrap());
            Some(st.d.add_range(a, c).map_err(e)?)
        }
        Op::Slice(i) => {
            let (a, c) = (val(st, i), *st.values.last().unwrap());
            Some(st.d.add_slice(a, c).map_err(e)?)
        }
        Op::Partial(i) => {
            let (a, c) = (val(st, i), *st.values.last().unwrap());
            Some(st.d.add_partial(a, c).map_err(e)?)
        }
        Op::PushFrame => {
            let ret = 1000 + st.steps;
            st.d.push_frame(ret).map_err(e)?;
            st.frames.push(ret);
            None
        }
    };
    if let Some(a) = new {
        st.values.push(a);
    }
    st.steps += 1;
    st.boundaries.push(st.d.data_size());
    Ok(())
}

/// everything observable: registers (bottom to top), value stack (top to bottom), frames (top to bottom, with the
/// register depth each frame restores), symbol names
#[derive(Debug, PartialEq, Clone)]
struct Obs {
    registers: Vec<V>,
    values: Vec<V>,
    frames: Vec<(usize, usize)>,
    names: Vec<Option<String>>,
}

fn observe(d: &BData, symbols: &[String]) -> Result<Obs, String> {
    let mut registers = vec![];
    for i in 0..d.get_register_len() {
        match d.get_register(i) {
            Some(a) => registers.push(get(d, a)),
            None => return Err("register-unreadable".into()),
        }
    }
    let mut c = d.clone();
    let mut values = vec![];
    while let Some(a) = c.pop_value_stack() {
        values.push(get(&c, a));
        if values.len() > 1000 {
            return Err("value-stack-does-not-end".into());
        }
    }
    let mut c = d.clone();
    let mut frames = vec![];
    loop {
        match c.pop_frame() {
            Ok(Some(ret)) => frames.push((ret, c.get_register_len())),
            Ok(None) => break,
            Err(x) => return Err(format!("pop-frame-error[{}]", x)),
        }
        if frames.len() > 1000 {
            return Err("frame-chain-does-not-end".into());
        }
    }
    let mut names = vec![];
    for s in symbols {
        match d.get_symbol_string(symbol_value(s)) {
            Ok(n) => names.push(n),
            Err(x) => return Err(format!("symbol-name-error[{}]", x)),
        }
    }
    Ok(Obs { registers, values, frames, names })
}

fn diff(a: &Obs, b: &Obs) -> Option<&'static str> {
    if a.registers != b.registers {
        Some("operand-stack-changed")
    } else if a.values != b.values {
        Some("input-value-stack-changed")
    } else if a.frames != b.frames {
        Some("frame-chain-changed")
    } else if a.names != b.names {
        Some("symbol-name-changed")
    } else {
        None
    }
}

/// one compaction variant on a clone of the state; Err(kind)
fn compact_variant(st: &St, retain: usize, roots: &[usize], twice: bool) -> Result<(), String> {
    let mut d = st.d.clone();
    let before = observe(&d, &st.symbols)?;
    let root_vals: Vec<V> = roots.iter().map(|r| get(&d, st.values[*r])).collect();
    let retained: Vec<(usize, V)> = st.values.iter().filter(|a| **a < retain).map(|a| (*a, get(&d, *a))).collect();
    d.set_data_retention_count(retain);
    let addrs: Vec<usize> = roots.iter().map(|r| st.values[*r]).collect();
    let mut mapped = d.optimize(&addrs).map_err(|x| format!("optimize-error[{}]", crate::val::short_err(&x).chars().take(40).collect::<String>()))?;
    if twice {
        mapped = d.optimize(&mapped).map_err(|x| format!("second-optimize-error[{}]", crate::val::short_err(&x).chars().take(40).collect::<String>()))?;
    }
    let after = observe(&d, &st.symbols)?;
    if let Some(k) = diff(&before, &after) {
        return Err(k.to_string());
    }
    if mapped.len() != roots.len() {
        return Err("mapping-length-differs".into());
    }
    for (i, m) in mapped.iter().enumerate() {
        if get(&d, *m) != root_vals[i] {
            return Err("extra-root-changed".into());
        }
    }
    for (a, v) in &retained {
        if get(&d, *a) != *v {
            return Err("retained-value-changed".into());
        }
    }
    // the store still works: add something and read everything again
    let extra = d.add_number(7.into()).map_err(|x| format!("add-after-optimize-error[{}]", x))?;
    if get(&d, extra) != V::Int(7) {
        return Err("add-after-optimize-reads-back-wrong".into());
    }
    let again = observe(&d, &st.symbols)?;
    if let Some(k) = diff(&before, &again) {
        return Err(format!("{}-after-next-add", k));
    }
    Ok(())
}

fn clone_variant(st: &St, i: usize) -> Result<(), String> {
    let mut d = st.d.clone();
    let before = observe(&d, &st.symbols)?;
    let all: Vec<V> = st.values.iter().map(|a| get(&d, *a)).collect();
    let a = st.values[i];
    let c = d.clone_data(a).map_err(|x| format!("clone-error[{}]", crate::val::short_err(&x).chars().take(40).collect::<String>()))?;
    if get(&d, c) != all[i] {
        return Err("clone-differs-from-original".into());
    }
    for (k, a2) in st.values.iter().enumerate() {
        if get(&d, *a2) != all[k] {
            return Err("clone-changed-an-original".into());
        }
    }
    let after = observe(&d, &st.symbols)?;
    if let Some(k) = diff(&before, &after) {
        return Err(format!("clone-{}", k));
    }
    Ok(())
}

struct Search {
    depth: usize,
    states: u64,
    transitions: u64,
    variants: u64,
    failure: Option<(String, Vec<Op>, String)>,
    /// first compaction / clone that hit the work limit on a value with shared sub-values (recorded finding): it is
    /// reported once under a constant witness and does not end the search of this element
    sharing_limit: Option<(String, Vec<Op>, String)>,
}

/// number of nodes of a value written out as a tree (shared sub-values counted once per occurrence)
fn tree_nodes(v: &V) -> u64 {
    match v {
        V::Pair(a, b) | V::Concat(a, b) | V::Range(a, b) | V::Slice(a, b) | V::Partial(a, b) => 1 + tree_nodes(a) + tree_nodes(b),
        V::List(items) => 1 + items.iter().map(tree_nodes).sum::<u64>(),
        _ => 1,
    }
}

/// does the failure belong to the recorded class "work limit hit because shared sub-values are expanded once per
/// occurrence"? (the tree expansion of the values involved is larger than the number of cells in the store)
fn is_sharing_limit(kind: &str, st: &St, values: &[usize]) -> bool {
    if !kind.contains("Clone limit reached") {
        return false;
    }
    let expanded: u64 = values.iter().map(|a| tree_nodes(&get(&st.d, *a))).sum();
    expanded > st.d.data_size() as u64
}

fn check_state(x: &mut Search, st: &St, hist: &[Op]) {
    let n = st.values.len();
    let mut root_sets: Vec<Vec<usize>> = vec![vec![]];
    for i in 0..n {
        root_sets.push(vec![i]);
        for j in (i + 1)..n {
            root_sets.push(vec![i, j]);
        }
    }
    if n >= 1 {
        root_sets.push(vec![n - 1, n - 1]); // the same root twice
    }
    let mut bounds = st.boundaries.clone();
    bounds.dedup();
    for c in &bounds {
        for r in &root_sets {
            for twice in [false, true] {
                x.variants += 1;
                let res = match guard(|| compact_variant(st, *c, r, twice)) {
                    Ok(r) => r,
                    Err(p) => Err(format!("panic[{}]", panic_kind(&p))),
                };
                if let Err(k) = res {
                    // everything the compaction has to copy: the extra roots and whatever the stacks hold
                    let involved: Vec<usize> = st.values.clone();
                    if is_sharing_limit(&k, st, &involved) {
                        if x.sharing_limit.is_none() {
                            x.sharing_limit = Some((k, hist.to_vec(), format!("optimize retain={} roots={:?}{}", c, r, if twice { " twice" } else { "" })));
                        }
                        continue;
                    }
                    if x.failure.is_none() {
                        x.failure = Some((k, hist.to_vec(), format!("optimize retain={} roots={:?}{}", c, r, if twice { " twice" } else { "" })));
                    }
                    return;
                }
            }
        }
    }
    for i in 0..n {
        x.variants += 1;
        let res = match guard(|| clone_variant(st, i)) {
            Ok(r) => r,
            Err(p) => Err(format!("panic[{}]", panic_kind(&p))),
        };
        if let Err(k) = res {
            if is_sharing_limit(&k, st, &[st.values[i]]) {
                if x.sharing_limit.is_none() {
                    x.sharing_limit = Some((k, hist.to_vec(), format!("clone_data value#{}", i)));
                }
                continue;
            }
            if x.failure.is_none() {
                x.failure = Some((k, hist.to_vec(), format!("clone_data value#{}", i)));
            }
            return;
        }
    }
}

fn dfs(x: &mut Search, st: &St, hist: &mut Vec<Op>) {
    x.states += 1;
    check_state(x, st, hist);
    if x.failure.is_some() || hist.len() >= x.depth {
        return;
    }
    for op in enabled(st.values.len()) {
        let mut next = st.clone();
        x.transitions += 1;
        hist.push(op);
        let r = match guard(|| apply(&mut next, op)) {
            Ok(r) => r,
            Err(p) => Err(format!("panic[{}]", panic_kind(&p))),
        };
        match r {
            Ok(()) => dfs(x, &next, hist),
            Err(k) => {
                if x.failure.is_none() {
                    x.failure = Some((format!("construction-error[{}]", k.chars().take(50).collect::<String>()), hist.clone(), "construction".into()));
                }
            }
        }
        hist.pop();
        if x.failure.is_some() {
            return;
        }
    }
}

fn initial() -> St {
    St { d: small_store(), values: vec![], boundaries: vec![0], symbols: vec![], frames: vec![], steps: 0 }
}

fn values_after(ops: &[Op]) -> usize {
    ops.iter()
        .map(|a| match a {
            Op::KeyedPair(_) => 2,
            Op::SymList(..) => 3,
            x if adds_value(*x) => 1,
            _ => 0,
        })
        .sum()
}

/// construction prefixes of length 2 (quick) / 3 (thorough) in DFS order (abstract: only the number of values
/// matters for what is enabled)
fn prefixes(tier: Tier) -> &'static Vec<Vec<Op>> {
    static Q: OnceLock<Vec<Vec<Op>>> = OnceLock::new();
    static T: OnceLock<Vec<Vec<Op>>> = OnceLock::new();
    fn gen_prefixes(len: usize) -> Vec<Vec<Op>> {
        let mut out: Vec<Vec<Op>> = vec![vec![]];
        for _ in 0..len {
            let mut next = vec![];
            for p in &out {
                for op in enabled(values_after(p)) {
                    let mut q = p.clone();
                    q.push(op);
                    next.push(q);
                }
            }
            out = next;
        }
        out
    }
    match tier {
        Tier::Quick => Q.get_or_init(|| gen_prefixes(2)),
        Tier::Thorough => T.get_or_init(|| gen_prefixes(3)),
    }
}

fn replay_history(ops: &[Op]) -> Result<St, String> {
    let mut st = initial();
    for op in ops {
        apply(&mut st, *op)?;
    }
    Ok(st)
}

// ---- part 2: compaction while a program runs ----------------------------------------------------

fn programs(tier: Tier) -> &'static Corpus {
    static Q: OnceLock<Corpus> = OnceLock::new();
    static T: OnceLock<Corpus> = OnceLock::new();
    match tier {
        Tier::Quick => Q.get_or_init(|| corpus::t3(corpus::t3_default(4))),
        Tier::Thorough => T.get_or_init(|| corpus::t3(corpus::t3_default(5))),
    }
}

/// run `src` with compactions after the given step counts; Ok(None) when the plain run does not succeed
fn run_with_compactions(src: &str, cuts: &[usize]) -> Result<Option<(V, usize)>, String> {
    let mut d = BData::fresh(Host::none());
    let (_, bd) = match compile(src, &mut d) {
        Ok(x) => x,
        Err(_) => return Ok(None),
    };
    d.retain_all_current_data();
    let input = V::List(vec![V::pair(V::sym("a"), V::Int(1)), V::pair(V::sym("b"), V::Int(2))]);
    if start(&mut d, *bd.jump_index(), &input).is_err() {
        return Ok(None);
    }
    let mut steps = 0usize;
    loop {
        if cuts.contains(&steps) {
            d.optimize(&[]).map_err(|x| format!("optimize-error-while-running[{}]", crate::val::short_err(&x).chars().take(40).collect::<String>()))?;
        }
        match step(&mut d) {
            Ok(true) => {}
            Ok(false) => break,
            Err(f) => {
                return if cuts.is_empty() { Ok(None) } else { Err(format!("run-fails-after-compaction[{}]", f.kind())) };
            }
        }
        steps += 1;
        if steps > 3000 {
            return if cuts.is_empty() { Ok(None) } else { Err("run-does-not-end-after-compaction".into()) };
        }
    }
    match current_value(&d) {
        Ok(v) => Ok(Some((v, steps))),
        Err(f) => {
            if cuts.is_empty() { Ok(None) } else { Err(format!("no-result-after-compaction[{}]", f.kind())) }
        }
    }
}

fn program_case(cx: &mut Ctx, src: &str, pairs: bool) -> Option<(String, Vec<usize>)> {
    let (v0, steps) = match guard(|| run_with_compactions(src, &[])) {
        Ok(Ok(Some(x))) => x,
        _ => {
            cx.count("program_does_not_run", 1);
            return None;
        }
    };
    let mut cut_sets: Vec<Vec<usize>> = (0..=steps).map(|k| vec![k]).collect();
    if pairs {
        for a in 0..=steps {
            for b2 in a..=steps {
                cut_sets.push(vec![a, b2]);
            }
        }
    }
    for cuts in cut_sets {
        cx.eval();
        cx.count("transitions", 1);
        let r = match guard(|| run_with_compactions(src, &cuts)) {
            Ok(r) => r,
            Err(p) => Err(format!("panic[{}]", panic_kind(&p))),
        };
        match r {
            Ok(Some((v, _))) => {
                if v != v0 {
                    return Some(("result-differs-after-compaction".into(), cuts));
                }
                cx.count("traces_validated", 1);
            }
            Ok(None) => return Some(("run-stops-after-compaction".into(), cuts)),
            Err(k) => return Some((k, cuts)),
        }
    }
    None
}

fn op_json(op: &Op) -> Value {
    json!(format!("{:?}", op))
}

fn parse_op(s: &str) -> Option<Op> {
    let nums: Vec<usize> = s.split(|c: char| !c.is_ascii_digit()).filter(|x| !x.is_empty()).filter_map(|x| x.parse().ok()).collect();
    let g = |i: usize| nums.get(i).cloned().unwrap_or(0);
    Some(if s.starts_with("Number") {
        Op::Number
    } else if s.starts_with("Text") {
        Op::Text
    } else if s.starts_with("Bytes") {
        Op::Bytes
    } else if s.starts_with("Symbol") {
        Op::Symbol
    } else if s.starts_with("Pair") {
        Op::Pair(g(0), g(1))
    } else if s.starts_with("KeyedPair") {
        Op::KeyedPair(g(0))
    } else if s.starts_with("List1") {
        Op::List1(g(1))
    } else if s.starts_with("List2") {
        Op::List2(g(1), g(2))
    } else if s.starts_with("Concat") {
        Op::Concat(g(0), g(1))
    } else if s.starts_with("SymList") {
        Op::SymList(g(0), g(1))
    } else if s.starts_with("PushRegister") {
        Op::PushRegister(g(0))
    } else if s.starts_with("PushValue") {
        Op::PushValue(g(0))
    } else if s.starts_with("PushFrame") {
        Op::PushFrame
    } else if s.starts_with("Clone") {
        Op::Clone(g(0))
    } else if s.starts_with("Scalar") {
        Op::Scalar
    } else if s.starts_with("Range") {
        Op::Range(g(0))
    } else if s.starts_with("Slice") {
        Op::Slice(g(0))
    } else if s.starts_with("Partial") {
        Op::Partial(g(0))
    } else {
        return None;
    })
}

impl Property for C19 {
    fn id(&self) -> &'static str {
        "C19"
    }
    fn level(&self) -> &'static str {
        "model_checking"
    }
    fn size(&self, tier: Tier) -> u64 {
        prefixes(tier).len() as u64 + programs(tier).len()
    }
    fn budget_ms(&self) -> u64 {
        60_000
    }
    fn describe(&self, tier: Tier, idx: u64) -> String {
        let np = prefixes(tier).len() as u64;
        if idx < np { format!("construction prefix {:?}", prefixes(tier)[idx as usize]) } else { format!("program {}", print(&programs(tier).program(idx - np)).unwrap_or_default()) }
    }
    fn run(&self, tier: Tier, idx: u64, cx: &mut Ctx) {
        let np = prefixes(tier).len() as u64;
        if idx < np {
            let all = prefixes(tier);
            let pre = &all[idx as usize];
            let st = match guard(|| replay_history(pre)) {
                Ok(Ok(s)) => s,
                Ok(Err(k)) => {
                    cx.violation(&format!("construction-error[{}]", k.chars().take(50).collect::<String>()), &format!("{:?}", pre), json!({"mode": "graph", "history": pre.iter().map(op_json).collect::<Vec<_>>(), "variant": "construction"}));
                    return;
                }
                Err(p) => {
                    cx.violation(&format!("panic[{}]", panic_kind(&p)), &format!("{:?}", pre), json!({"mode": "graph", "history": pre.iter().map(op_json).collect::<Vec<_>>(), "variant": "construction"}));
                    return;
                }
            };
            let mut x = Search { depth: tier.pick(4, 5), states: 0, transitions: 0, variants: 0, failure: None, sharing_limit: None };
            let mut hist = pre.clone();
            // states shallower than the prefix are checked by the first element whose prefix passes through them
            for d in 0..pre.len() {
                if all.iter().position(|q| q[..d] == pre[..d]) == Some(idx as usize) {
                    if let Ok(Ok(s)) = guard(|| replay_history(&pre[..d])) {
                        check_state(&mut x, &s, &pre[..d]);
                        x.states += 1;
                    }
                }
            }
            dfs(&mut x, &st, &mut hist);
            cx.count("states", x.states);
            cx.count("transitions", x.transitions + x.variants);
            cx.count("traces_validated", x.variants);
            cx.count("evaluations", x.variants);
            cx.count("compaction_and_clone_variants", x.variants);
            cx.nontrivial(("graph", idx));
            if let Some((kind, h, variant)) = x.failure {
                cx.violation(&kind, &format!("{:?} then {}", h, variant), json!({"mode": "graph", "history": h.iter().map(op_json).collect::<Vec<_>>(), "variant": variant}));
            }
            if let Some((kind, h, variant)) = x.sharing_limit {
                cx.violation(
                    &format!("work-limit-on-shared-values[{}]", if variant.starts_with("clone") { "clone_data" } else { "optimize" }),
                    "a value whose sub-values are shared (tree expansion larger than the store)",
                    json!({"mode": "graph", "history": h.iter().map(op_json).collect::<Vec<_>>(), "variant": variant, "error": kind, "class": "sharing-limit"}),
                );
            }
            cx.sample_at(97, || json!({"construction_prefix": format!("{:?}", pre), "then": "every continuation to the depth bound; in every state optimize(retention boundary x root set, once/twice) and clone_data(every value)"}));
            return;
        }
        let e = programs(tier).program(idx - np);
        if let Some(src) = print(&e) {
            cx.count("states", 1);
            if let Some((kind, cuts)) = program_case(cx, &src, e.size() <= tier.pick(3, 4)) {
                cx.violation(&kind, &format!("{} | compaction before steps {:?}", src.replace('\n', "\\n"), cuts), json!({"mode": "program", "src": src, "cuts": cuts}));
            }
            cx.nontrivial(("program", idx));
            cx.sample_at(4099, || json!({"program": src, "compaction": "before every step boundary (and every pair for small programs)"}));
        }
    }
    fn replay(&self, d: &Value, cx: &mut Ctx) {
        if d["mode"].as_str() == Some("program") {
            let src = d["src"].as_str().unwrap_or("");
            let cuts: Vec<usize> = d["cuts"].as_array().map(|a| a.iter().filter_map(|x| x.as_u64().map(|u| u as usize)).collect()).unwrap_or_default();
            let base = guard(|| run_with_compactions(src, &[]));
            let r = guard(|| run_with_compactions(src, &cuts));
            let bad = match (base, r) {
                (Ok(Ok(Some((v0, _)))), Ok(Ok(Some((v, _))))) => {
                    if v0 != v { Some("result-differs-after-compaction".to_string()) } else { None }
                }
                (Ok(Ok(Some(_))), Ok(Ok(None))) => Some("run-stops-after-compaction".into()),
                (Ok(Ok(Some(_))), Ok(Err(k))) => Some(k),
                (Ok(Ok(Some(_))), Err(p)) => Some(format!("panic[{}]", panic_kind(&p))),
                _ => None,
            };
            if let Some(k) = bad {
                cx.violation(&k, &format!("{} | compaction before steps {:?}", src.replace('\n', "\\n"), cuts), json!({"mode": "program", "src": src, "cuts": cuts}));
            }
            return;
        }
        let ops: Vec<Op> = d["history"].as_array().map(|a| a.iter().filter_map(|x| x.as_str().and_then(parse_op)).collect()).unwrap_or_default();
        match guard(|| replay_history(&ops)) {
            Ok(Ok(st)) => {
                let mut x = Search { depth: 0, states: 0, transitions: 0, variants: 0, failure: None, sharing_limit: None };
                check_state(&mut x, &st, &ops);
                if let Some((kind, h, variant)) = x.failure {
                    cx.violation(&kind, &format!("{:?} then {}", h, variant), json!({"mode": "graph", "history": d["history"], "variant": variant}));
                }
                if let Some((kind, _, variant)) = x.sharing_limit {
                    cx.violation(&format!("work-limit-on-shared-values[{}]", if variant.starts_with("clone") { "clone_data" } else { "optimize" }), "a value whose sub-values are shared (tree expansion larger than the store)", json!({"mode": "graph", "history": d["history"], "variant": variant, "error": kind}));
                }
            }
            Ok(Err(k)) => cx.violation(&format!("construction-error[{}]", k.chars().take(50).collect::<String>()), &format!("{:?}", ops), json!({"mode": "graph", "history": d["history"]})),
            Err(p) => cx.violation(&format!("panic[{}]", panic_kind(&p)), &format!("{:?}", ops), json!({"mode": "graph", "history": d["history"]})),
        }
    }
    fn meta(&self, tier: Tier) -> Meta {
        Meta {
            rule: format!("(1) depth-first search over all construction histories up to depth {} on a BasicGarnishData with tiny blocks (so the heap reallocates): operations add number / text with a multi-byte character / bytes / named symbol, pair(i,j), symbol-keyed pair, list of 1 or 2 existing values, concatenation(i,j), symbol list, push_register(i), push_value_stack(i), push_frame, operands over all existing values (sharing arises naturally); in every state: optimize for every retention count at a value boundary x every root set of <= 2 values (and the same root twice), applied once and twice, and clone_data of every value. Invariant: operand stack, input-value stack, frame chain (return address and restored operand depth), every symbol name, every retained value and every extra root read back structurally identical at the address the store reports, and the store still accepts and reads back a new value. (2) every program of the structural corpus up to {} nodes ({} programs) on BasicGarnishData with all build-time data retained: optimize before every step boundary (every pair of boundaries for small programs), final value equal to the uninterrupted run. States = construction states + programs, transitions = construction steps + compaction/clone variants + interrupted runs; every one executes the real code.", tier.pick(4, 5), programs(tier).max, programs(tier).len()),
            assumptions: vec![
                "retention counts are taken at value boundaries only (a count that splits a multi-cell value is a caller error)".into(),
                "states are not merged; every explored trace is an implementation trace".into(),
                "programs that do not run to completion uninterrupted are counted, not judged".into(),
            ],
            trusted_base: vec!["value bridge (val::get)".into(), "observe(): stacks read by popping a clone".into()],
            explanation: "explicit-state search over construction histories of the real store with compaction/clone variants in every state, plus compaction injected at every step boundary of running programs".into(),
        }
    }
}
