//! C17 - host extension points are called exactly as documented.
//! Programs with identifiers and externals at every operand position, run under scripted recording hosts;
//! the sequence of (callback, argument) and the final value must equal the reference evaluator's.

use crate::ast::*;
use crate::fw::{Ctx, Meta, Property, Tier};
use crate::grammar::{number_nested, Grammar};
use crate::props::c01::{judge_host, reference_of, replay_observed, Outcome};
use crate::shrink::shrink;
use crate::subj::{BData, HVal, Host, SData, Subject};
use crate::val::V;
use serde_json::{json, Value};
use std::sync::OnceLock;

pub struct C17;

const X: usize = 0;
const B: usize = 1;
const A: usize = 2;

fn take2(mut v: Vec<E>) -> (E, E) {
    let a = v.remove(0);
    let c = v.remove(0);
    (a, c)
}

pub fn host_grammar(max: usize) -> Grammar {
    let mut g = Grammar::new(3);
    for a in [E::Ident("a".into()), E::Ident("b".into()), E::Ident("c".into()), E::Int(1)] {
        g.atom(A, a);
    }
    g.alias(X, A);
    // one representative per operator class
    for o in [BinOp::Add, BinOp::Eq, BinOp::And, BinOp::Or, BinOp::Pair] {
        g.add(X, 1, vec![X, X], Box::new(move |v| {
            let (l, r) = take2(v);
            E::Bin(o, b(l), b(r))
        }));
    }
    g.add(X, 1, vec![X], Box::new(|mut v| E::Pre(PreOp::Not, b(v.remove(0)))));
    g.add(X, 1, vec![X, X], Box::new(|v| E::SpaceList(v)));
    g.add(X, 1, vec![X], Box::new(|mut v| E::Prop(b(v.remove(0)), "a".into())));
    for k in [CondKind::IfTrue, CondKind::IfFalse] {
        g.add(X, 1, vec![X, X], Box::new(move |v| {
            let (c, a) = take2(v);
            E::Cond(vec![(k, c, a)], None)
        }));
    }
    g.add(X, 2, vec![X, X, X], Box::new(|mut v| {
        let c = v.remove(0);
        let a = v.remove(0);
        let d = v.remove(0);
        E::Cond(vec![(CondKind::IfTrue, c, a)], Some(b(d)))
    }));
    g.add(X, 1, vec![A, B], Box::new(|v| {
        let (val, eff) = take2(v);
        E::SideAfter(b(val), b(eff))
    }));
    // nested expressions: the body sees its own `$`
    g.add(X, 2, vec![B, X], Box::new(|v| {
        let (body, arg) = take2(v);
        E::Bin(BinOp::Apply, b(E::Nested(0, b(body))), b(arg))
    }));
    g.add(X, 2, vec![B], Box::new(|mut v| E::Suf(SufOp::EmptyApply, b(E::Nested(0, b(v.remove(0)))))));
    // the six ways to apply something named `f`
    g.add(X, 2, vec![X], Box::new(|mut v| E::Bin(BinOp::Apply, b(E::Ident("f".into())), b(v.remove(0)))));
    g.add(X, 2, vec![X], Box::new(|mut v| E::Bin(BinOp::ApplyTo, b(v.remove(0)), b(E::Ident("f".into())))));
    g.add(X, 2, vec![], Box::new(|_| E::Suf(SufOp::EmptyApply, b(E::Ident("f".into())))));
    g.add(X, 1, vec![X], Box::new(|mut v| E::PrefixApply("f".into(), b(v.remove(0)))));
    g.add(X, 1, vec![X], Box::new(|mut v| E::SuffixApply("f".into(), b(v.remove(0)))));
    g.add(X, 1, vec![X, X], Box::new(|v| {
        let (l, r) = take2(v);
        E::InfixApply("f".into(), b(l), b(r))
    }));
    // bounded loop with an identifier in the body: { $ >= 2 ?> BODY |> ^~ $ + 1 } <~ 0
    g.add(X, 4, vec![X], Box::new(|mut v| {
        let body = v.remove(0);
        let cond = E::Bin(BinOp::Ge, b(E::Val), b(E::Int(2)));
        let step = E::Pre(PreOp::Reapply, b(E::Bin(BinOp::Add, b(E::Val), b(E::Int(1)))));
        let looped = E::Cond(vec![(CondKind::IfTrue, cond, body)], Some(b(step)));
        E::Bin(BinOp::Apply, b(E::Nested(0, b(looped))), b(E::Int(0)))
    }));
    // a loop whose reapply sits in an else-chain nested inside a conditional branch, with an identifier looked up on
    // every pass before it: { [a]($ < 2 ?> ($ < 1 ?> ^~ $ + 1 |> ^~ $ + 2) |> BODY) } <~ 0
    g.add(X, 4, vec![X], Box::new(|mut v| {
        let body = v.remove(0);
        let lt = |k: i64| E::Bin(BinOp::Lt, b(E::Val), b(E::Int(k)));
        let again = |k: i64| E::Pre(PreOp::Reapply, b(E::Bin(BinOp::Add, b(E::Val), b(E::Int(k)))));
        let inner = E::Cond(vec![(CondKind::IfTrue, lt(1), again(1))], Some(b(again(2))));
        let outer = E::Cond(vec![(CondKind::IfTrue, lt(2), E::Group(b(inner)))], Some(b(body)));
        let seq = E::SideBefore(b(E::Ident("a".into())), b(E::Group(b(outer))));
        E::Bin(BinOp::Apply, b(E::Nested(0, b(seq))), b(E::Int(0)))
    }));
    g.alias(B, X);
    g.add(B, 1, vec![X, X], Box::new(|v| {
        let (l, r) = take2(v);
        E::Bin(BinOp::Semi, b(l), b(r))
    }));
    g.prepare(max);
    g
}

struct Space {
    g: Grammar,
    total: u64,
}

fn space(tier: Tier) -> &'static Space {
    static Q: OnceLock<Space> = OnceLock::new();
    static T: OnceLock<Space> = OnceLock::new();
    let mk = |max| {
        let g = host_grammar(max);
        let total = g.count_upto(B, max) as u64;
        Space { g, total }
    };
    match tier {
        Tier::Quick => Q.get_or_init(|| mk(5)),
        Tier::Thorough => T.get_or_init(|| mk(6)),
    }
}

fn program(tier: Tier, i: u64) -> E {
    let s = space(tier);
    let mut e = s.g.nth(B, i as u128);
    let mut n = 1;
    number_nested(&mut e, &mut n);
    e
}

pub fn inputs() -> Vec<(&'static str, V)> {
    vec![
        ("unit", V::Unit),
        ("(:a = 10),", V::List(vec![V::pair(V::sym("a"), V::Int(10))])),
        ("(:a = 10, :b = 20)", V::List(vec![V::pair(V::sym("a"), V::Int(10)), V::pair(V::sym("b"), V::Int(20))])),
    ]
}

pub fn hosts() -> Vec<(&'static str, Host)> {
    let mk = |names: &[(&str, HVal)], accept: bool| {
        let mut h = Host::with_resolve(names);
        h.apply_accept = accept;
        h
    };
    vec![
        ("resolves-nothing", mk(&[], false)),
        ("resolves-a;f-external;apply-accepts", mk(&[("a", HVal::Int(100)), ("f", HVal::External(7))], true)),
        ("resolves-a-b-c;f-external;apply-declines", mk(&[("a", HVal::Int(100)), ("b", HVal::False), ("c", HVal::Text("cc".into())), ("f", HVal::External(7))], false)),
        ("resolves-a-b-c;f-external;apply-accepts", mk(&[("a", HVal::Int(100)), ("b", HVal::False), ("c", HVal::Text("cc".into())), ("f", HVal::External(7))], true)),
    ]
}

fn case<D: Subject>(cx: &mut Ctx, e: &E, ii: usize, hi: usize) {
    cx.eval();
    let ins = inputs();
    let hs = hosts();
    let (iname, input) = &ins[ii];
    let (hname, host) = &hs[hi];
    match judge_host::<D>(e, input, host, true) {
        (Outcome::Ok, _) => cx.count("agree", 1),
        (Outcome::Skip, _) => cx.count("reference_declined_or_unprintable", 1),
        (Outcome::Bad(kind, _), _) => {
            if kind.starts_with("run-err[No references in register") {
                // unbalanced else-chain / bracket + side effect: recorded under C01/C06, not a host-call matter
                cx.count("run_failed_known_unbalanced_shapes", 1);
                return;
            }
            let mut fails = |c: &E| matches!(judge_host::<D>(c, input, host, true).0, Outcome::Bad(ref k, _) if *k == kind);
            let w = shrink(e, &mut fails);
            let wsrc = print(&w).unwrap_or_default();
            let got = match judge_host::<D>(&w, input, host, true) {
                (Outcome::Bad(_, g), _) => g,
                _ => String::new(),
            };
            cx.violation(&kind, &format!("{} | {} | $={} | host={}", D::NAME, wsrc.replace('\n', "\\n"), iname, hname), json!({"impl": D::NAME, "src": wsrc, "input": ii, "host": hi, "got": got, "ast": format!("{:?}", w),
                "expected_log": reference_of::<D>(&w, input, host).map(|x| x.0), "expected_value": reference_of::<D>(&w, input, host).map(|x| x.1)}));
        }
    }
}

impl Property for C17 {
    fn id(&self) -> &'static str {
        "C17"
    }
    fn level(&self) -> &'static str {
        "exploration"
    }
    fn size(&self, tier: Tier) -> u64 {
        space(tier).total
    }
    fn describe(&self, tier: Tier, idx: u64) -> String {
        print(&program(tier, idx)).unwrap_or_default()
    }
    fn run(&self, tier: Tier, idx: u64, cx: &mut Ctx) {
        let e = program(tier, idx);
        for ii in 0..inputs().len() {
            for hi in 0..hosts().len() {
                case::<SData>(cx, &e, ii, hi);
                case::<BData>(cx, &e, ii, hi);
            }
        }
        if e.size() > 1 {
            cx.nontrivial(idx);
        }
        cx.sample_at(20_011, || json!({"src": print(&e), "inputs": inputs().len(), "hosts": hosts().iter().map(|h| h.0).collect::<Vec<_>>()}));
    }
    fn replay(&self, d: &Value, cx: &mut Ctx) {
        let ii = (d["input"].as_u64().unwrap_or(0) as usize).min(inputs().len() - 1);
        let hi = (d["host"].as_u64().unwrap_or(0) as usize).min(hosts().len() - 1);
        let input = inputs()[ii].1.clone();
        let host = hosts()[hi].1.clone();
        if d["impl"].as_str() == Some("simple") { replay_observed::<SData>(cx, d, &input, &host) } else { replay_observed::<BData>(cx, d, &input, &host) }
    }
    fn meta(&self, tier: Tier) -> Meta {
        Meta {
            rule: format!("every program of a grammar whose atoms are the identifiers a, b, c and one literal, with one operator per class, lists, property access, conditionals, side effects, `;`, nested expressions with <~ and ~~, a bounded reapply loop, a loop whose reapply sits in an else-chain nested in a conditional branch behind an identifier, and the six apply forms of a name f (f <~ x, x ~> f, f~~, f` x, x `f, x `f` y), up to {} AST nodes ({} programs) x inputs {{unit, (:a = 10), (:a = 10, :b = 20)}} x 4 scripted recording hosts (resolve nothing / a / a,b,c; f resolves to external 7; apply accepts or declines) x both implementations (external apply judged on BasicGarnishData, the implementation exposing the hook). Oracle: the recorded sequence of (callback, argument) and the final value equal the reference evaluator's. Non-trivial = program with an operator; distinct by enumeration index.", tier.pick(5, 6), space(tier).total),
            assumptions: vec![
                "when the host accepts an external apply it returns the pair (external number = argument), so argument identity is visible in the final value".into(),
                "SimpleGarnishData has no apply hook: there the external apply is expected to yield unit and only resolve calls are compared".into(),
                "runs that stop with 'No references in register' (shapes recorded under C01/C06) are counted, not reported".into(),
            ],
            trusted_base: vec!["engine/src/refeval.rs".into(), "recording host in engine/src/subj.rs".into()],
            explanation: "bounded-exhaustive programs x scripted hosts with a call-log oracle from the reference evaluator".into(),
        }
    }
}
