//! C18 - layout that carries no meaning does not change the result (metamorphic).
//! Every generated program x every single application, at every applicable position, of the rewrites
//! R1 add/remove spaces and tabs at token boundaries, R2 trailing whitespace before a newline / blank lines with
//! spaces, R3 annotations and comment lines, R4 parentheses around a complete operand, R5 a side-effect block with
//! an effect-free body after / before an operand; pairs of text rewrites for small programs.
//! Oracle: same parse tree modulo trivia / added group / side-effect nodes, same final value on both implementations.

use crate::ast::*;
use crate::corpus::{self, Corpus};
use crate::fw::{Ctx, Meta, Property, Tier};
use crate::shrink::shrink;
use crate::subj::{lex_g, parse_g, run_program, BData, Host, SData, Subject};
use crate::val::V;
use garnish_lang_compiler::lex::{LexerToken, TokenType};
use garnish_lang_compiler::parse::{Definition, ParseResult};
use serde_json::{json, Value};
use std::sync::OnceLock;

pub struct C18;

struct Spaces {
    t1: Corpus,
    t3: Corpus,
    t4: Corpus,
    t5: Corpus,
    t6: Corpus,
}

impl Spaces {
    fn all(&self) -> [&Corpus; 5] {
        [&self.t1, &self.t3, &self.t4, &self.t5, &self.t6]
    }
}

fn spaces(tier: Tier) -> &'static Spaces {
    static Q: OnceLock<Spaces> = OnceLock::new();
    static T: OnceLock<Spaces> = OnceLock::new();
    match tier {
        Tier::Quick => Q.get_or_init(|| Spaces { t1: corpus::t1(), t3: corpus::t3(corpus::t3_default(4)), t4: corpus::t4(5), t5: corpus::t5(4), t6: corpus::t6() }),
        Tier::Thorough => T.get_or_init(|| Spaces { t1: corpus::t1(), t3: corpus::t3(corpus::t3_default(5)), t4: corpus::t4(7), t5: corpus::t5(6), t6: corpus::t6() }),
    }
}

fn locate(tier: Tier, idx: u64) -> (&'static Corpus, u64) {
    let s = spaces(tier);
    let mut i = idx;
    for c in s.all() {
        if i < c.len() {
            return (c, i);
        }
        i -= c.len();
    }
    panic!("C18 index out of range")
}

// ---- text level rewrites ----------------------------------------------------------------------

fn is_trivia(t: TokenType) -> bool {
    matches!(t, TokenType::Whitespace | TokenType::Annotation | TokenType::LineAnnotation)
}

/// significant token sequence (type, text); blank-line separators keep their type only
fn significant(toks: &[LexerToken]) -> Vec<(TokenType, String)> {
    toks.iter()
        .filter(|t| !is_trivia(t.get_token_type()))
        .map(|t| (t.get_token_type(), if t.get_token_type() == TokenType::Subexpression { String::new() } else { t.get_text().clone() }))
        .collect()
}

fn value_like_end(t: TokenType) -> bool {
    matches!(
        t,
        TokenType::Number | TokenType::Identifier | TokenType::Symbol | TokenType::CharList | TokenType::ByteList | TokenType::UnitLiteral | TokenType::Value | TokenType::True | TokenType::False | TokenType::EndGroup | TokenType::EndExpression | TokenType::EndSideEffect | TokenType::ExpressionTerminator
    )
}

fn can_start_item(t: TokenType) -> bool {
    matches!(
        t,
        TokenType::Number | TokenType::Identifier | TokenType::Symbol | TokenType::CharList | TokenType::ByteList | TokenType::UnitLiteral | TokenType::Value | TokenType::True | TokenType::False | TokenType::StartGroup | TokenType::StartExpression | TokenType::StartSideEffect
            | TokenType::AbsoluteValue | TokenType::Opposite | TokenType::BitwiseNot | TokenType::Not | TokenType::Tis | TokenType::TypeOf | TokenType::LeftInternal | TokenType::Reapply | TokenType::PrefixIdentifier | TokenType::ExpressionTerminator
    )
}

#[derive(Clone, Debug)]
pub struct Rewrite {
    pub rule: &'static str,
    pub text: String,
}

/// all single text-level rewrites of `src` (R1, R2, R3)
pub fn text_rewrites(src: &str) -> Vec<Rewrite> {
    let toks = match lex_g(src) {
        Ok(t) => t,
        Err(_) => return vec![],
    };
    let texts: Vec<String> = toks.iter().map(|t| t.get_text().clone()).collect();
    if texts.concat() != src {
        return vec![];
    }
    let sig0 = significant(&toks);
    let mut out = vec![];
    // `pure` edits replace layout by layout (whitespace by other whitespace, an annotation put inside whitespace): the
    // significant tokens cannot change unless the lexer is wrong, so they are always applied and judged. Edits that
    // remove whitespace or put some between two tokens may merge or split tokens: they are applied only when
    // re-lexing shows the same significant token sequence.
    let mut push_kind = |rule: &'static str, parts: Vec<String>, out: &mut Vec<Rewrite>, pure: bool| {
        let text = parts.concat();
        if pure {
            out.push(Rewrite { rule, text });
            return;
        }
        if let Ok(t2) = lex_g(&text) {
            if significant(&t2) == sig0 {
                out.push(Rewrite { rule, text });
            }
        }
    };
    let _ = &sig0;
    for i in 0..toks.len() {
        let ty = toks[i].get_token_type();
        match ty {
            TokenType::Whitespace if texts[i] != "\n" => {
                // R1: more / other horizontal whitespace where some is already there
                if !texts[i].contains('\n') {
                    for rep in ["  ", "\t", " \t "] {
                        let mut p = texts.clone();
                        p[i] = rep.to_string();
                        push_kind("R1-widen-whitespace", p, &mut out, texts[i].chars().all(|c| c == ' ' || c == '\t'));
                    }
                    // R1: remove it where no list is formed by it
                    let prev = toks[..i].iter().rev().find(|t| !is_trivia(t.get_token_type())).map(|t| t.get_token_type());
                    let next = toks[i + 1..].iter().find(|t| !is_trivia(t.get_token_type())).map(|t| t.get_token_type());
                    let forms_list = match (prev, next) {
                        (Some(p), Some(n)) => value_like_end(p) && can_start_item(n),
                        _ => false,
                    };
                    if !forms_list {
                        let mut p = texts.clone();
                        p[i] = String::new();
                        push_kind("R1-remove-whitespace", p, &mut out, false);
                    }
                    // R3: annotation inside existing whitespace
                    let mut p = texts.clone();
                    p[i] = format!("{}@note ", texts[i]);
                    push_kind("R3-annotation", p, &mut out, texts[i].chars().all(|c| c == ' ' || c == '\t'));
                    // an annotation whose name holds digits and an underscore
                    let mut p = texts.clone();
                    p[i] = format!("{}@n2_x9 ", texts[i]);
                    push_kind("R3-annotation", p, &mut out, texts[i].chars().all(|c| c == ' ' || c == '\t'));
                }
            }
            TokenType::Whitespace if texts[i] == "\n" => {
                // a line break that acts as whitespace (multi-line layout): R2 trailing whitespace on the line before
                // it, indentation after it; R3 a comment at the end of the line
                for rep in [" \n", "\t\n", "\n ", "\n\t", " \n "] {
                    let mut p = texts.clone();
                    p[i] = rep.to_string();
                    push_kind("R2-trailing-whitespace", p, &mut out, true);
                }
                let mut p = texts.clone();
                p[i] = " @@ comment\n".to_string();
                push_kind("R3-comment-line", p, &mut out, true);
            }
            TokenType::Subexpression => {
                // R2: trailing whitespace on the line before the blank line, spaces on the blank line, extra blank line
                for rep in [" \n\n", "\t\n\n", "\n \n", "\n\t\n", " \n \n", "\n\n\n", "\n\n "] {
                    let mut p = texts.clone();
                    p[i] = rep.to_string();
                    // trailing whitespace on the line before the blank line is named by the statement; whether spaces
                    // on the blank line itself keep it blank is not, those variants are applied when the lexer agrees
                    push_kind("R2-blank-line-whitespace", p, &mut out, texts[i] == "\n\n" && (rep == " \n\n" || rep == "\t\n\n"));
                }
                // R3: comment line after the blank line, and on the line before it
                let mut p = texts.clone();
                p[i] = "\n\n@@ comment\n".to_string();
                push_kind("R3-comment-line", p, &mut out, false);
                let mut p = texts.clone();
                p[i] = " @@ comment\n\n".to_string();
                // a comment at the end of the line before the blank line: the blank line stays a separator
                push_kind("R3-comment-line", p, &mut out, texts[i] == "\n\n");
            }
            _ => {}
        }
        // boundary after token i with no whitespace on either side: insert a space (R1) / an annotation (R3)
        if i + 1 < toks.len() && !is_trivia(ty) && ty != TokenType::Subexpression {
            let nt = toks[i + 1].get_token_type();
            if !is_trivia(nt) && nt != TokenType::Subexpression {
                // inserting whitespace between two items would make a list: such boundaries do not occur in valid programs
                if !(value_like_end(ty) && can_start_item(nt)) || nt == TokenType::StartSideEffect || ty == TokenType::EndSideEffect {
                    let mut p = texts.clone();
                    p[i] = format!("{} ", texts[i]);
                    push_kind("R1-insert-space", p, &mut out, false);
                    let mut p = texts.clone();
                    p[i] = format!("{} @note ", texts[i]);
                    push_kind("R3-annotation", p, &mut out, false);
                }
            }
        }
    }
    // R2 / R3 at the ends of the program
    out.push(Rewrite { rule: "R2-trailing-whitespace", text: format!("{} ", src) });
    out.push(Rewrite { rule: "R2-trailing-whitespace", text: format!("{}\t\n", src) });
    out.push(Rewrite { rule: "R2-leading-whitespace", text: format!(" \n{}", src) });
    out.push(Rewrite { rule: "R3-comment-line", text: format!("@@ comment\n{}", src) });
    out.push(Rewrite { rule: "R3-comment-line", text: format!("{}\n@@ comment", src) });
    out.push(Rewrite { rule: "R3-annotation", text: format!("@note {}", src) });
    out.push(Rewrite { rule: "R3-annotation", text: format!("{} @note", src) });
    out
}

// ---- AST level rewrites -----------------------------------------------------------------------

fn is_atom(e: &E) -> bool {
    matches!(e, E::Unit | E::True | E::False | E::Int(_) | E::Float(_) | E::Str(_) | E::Bytes(_) | E::Sym(_) | E::Val | E::Ident(_))
}

/// every AST obtained by transforming exactly one operand subtree with f (None = not applicable there)
fn map_one(e: &E, f: &dyn Fn(&E) -> Option<E>, out: &mut Vec<E>, is_operand: bool) {
    if is_operand {
        if let Some(n) = f(e) {
            out.push(n);
        }
    }
    let rec = |child: &E, rebuild: &dyn Fn(E) -> E, out: &mut Vec<E>, operand: bool| {
        let mut tmp = vec![];
        map_one(child, f, &mut tmp, operand);
        for t in tmp {
            out.push(rebuild(t));
        }
    };
    match e {
        E::Pre(o, x) => rec(x, &|n| E::Pre(*o, b(n)), out, true),
        E::Suf(o, x) => rec(x, &|n| E::Suf(*o, b(n)), out, true),
        E::Prop(x, name) => rec(x, &|n| E::Prop(b(n), name.clone()), out, true),
        E::Group(x) => rec(x, &|n| E::Group(b(n)), out, false),
        E::Nested(id, x) => rec(x, &|n| E::Nested(*id, b(n)), out, false),
        E::Bin(o, l, r) => {
            let seq = *o == BinOp::Semi;
            rec(l, &|n| E::Bin(*o, b(n), r.clone()), out, !seq || !matches!(**l, E::Bin(BinOp::Semi, ..)));
            // the right operand of `.` may be a property name: parenthesising it would turn it into a lookup
            let prop = *o == BinOp::Access && matches!(**r, E::Ident(_));
            if !prop {
                rec(r, &|n| E::Bin(*o, l.clone(), b(n)), out, true);
            }
        }
        E::SpaceList(v) | E::CommaList(v) | E::SeqBlank(v) => {
            for i in 0..v.len() {
                let mk = |n: E| {
                    let mut w = v.clone();
                    w[i] = n;
                    match e {
                        E::SpaceList(_) => E::SpaceList(w),
                        E::CommaList(_) => E::CommaList(w),
                        _ => E::SeqBlank(w),
                    }
                };
                rec(&v[i], &mk, out, true);
            }
        }
        E::Cond(arms, d) => {
            for i in 0..arms.len() {
                let mkc = |n: E| {
                    let mut a = arms.clone();
                    a[i].1 = n;
                    E::Cond(a, d.clone())
                };
                rec(&arms[i].1, &mkc, out, true);
                let mka = |n: E| {
                    let mut a = arms.clone();
                    a[i].2 = n;
                    E::Cond(a, d.clone())
                };
                rec(&arms[i].2, &mka, out, true);
            }
            if let Some(dd) = d {
                rec(dd, &|n| E::Cond(arms.clone(), Some(b(n))), out, true);
            }
        }
        E::SideAfter(v, eff) => {
            rec(v, &|n| E::SideAfter(b(n), eff.clone()), out, false);
            // the body of a block is a complete operand of its own
            rec(eff, &|n| E::SideAfter(v.clone(), b(n)), out, true);
        }
        E::SideBefore(eff, v) => {
            rec(eff, &|n| E::SideBefore(b(n), v.clone()), out, true);
        }
        _ => {}
    }
}

pub fn ast_rewrites(e: &E) -> Vec<(&'static str, E)> {
    let mut out = vec![];
    // R4: parentheses around a complete operand (a sequence is not an operand; a list item that is a list is already grouped)
    let mut r4 = vec![];
    map_one(
        e,
        &|x| {
            if matches!(x, E::SeqBlank(_) | E::Bin(BinOp::Semi, ..) | E::Group(_) | E::SpaceList(_) | E::CommaList(_)) {
                None
            } else {
                Some(E::Group(b(x.clone())))
            }
        },
        &mut r4,
        true,
    );
    out.extend(r4.into_iter().map(|x| ("R4-parenthesise-operand", x)));
    // R5: effect-free side-effect block after an atom operand / after a grouped operand / before an atom operand
    let mut r5a = vec![];
    map_one(e, &|x| if is_atom(x) { Some(E::SideAfter(b(x.clone()), b(E::Int(1)))) } else { None }, &mut r5a, true);
    out.extend(r5a.into_iter().map(|x| ("R5-side-effect-after-atom", x)));
    let mut r5g = vec![];
    map_one(e, &|x| if matches!(x, E::SeqBlank(_) | E::Bin(BinOp::Semi, ..) | E::Group(_) | E::SpaceList(_) | E::CommaList(_) | E::SideAfter(..) | E::SideBefore(..)) { None } else { Some(E::SideAfter(b(E::Group(b(x.clone()))), b(E::Int(1)))) }, &mut r5g, true);
    out.extend(r5g.into_iter().map(|x| ("R5-side-effect-after-group", x)));
    let mut r5b = vec![];
    map_one(e, &|x| if is_atom(x) { Some(E::SideBefore(b(E::Int(1)), b(x.clone()))) } else { None }, &mut r5b, true);
    out.extend(r5b.into_iter().map(|x| ("R5-side-effect-before-atom", x)));
    // ... and before an operand that starts with a prefix operator or a bracket
    let mut r5p = vec![];
    map_one(e, &|x| if matches!(x, E::Pre(o, _) if *o != PreOp::Reapply) || matches!(x, E::Group(_) | E::Nested(..)) { Some(E::SideBefore(b(E::Int(1)), b(x.clone()))) } else { None }, &mut r5p, true);
    out.extend(r5p.into_iter().map(|x| ("R5-side-effect-before-operand", x)));
    out
}

// ---- oracle -------------------------------------------------------------------------------------

/// canonical parse tree: definitions and token texts, `skip` definitions are replaced by their content
pub fn canon(pr: &ParseResult, skip_groups: bool, skip_side_effects: bool) -> String {
    let nodes = pr.get_nodes();
    if nodes.is_empty() {
        return String::new();
    }
    fn go(nodes: &Vec<garnish_lang_compiler::parse::ParseNode>, i: usize, sg: bool, ss: bool, depth: usize, out: &mut String) {
        if depth > 200 || i >= nodes.len() {
            out.push('?');
            return;
        }
        let n = &nodes[i];
        let d = n.get_definition();
        if d == Definition::Group && sg {
            match n.get_right() {
                Some(r) => go(nodes, r, sg, ss, depth + 1, out),
                None => out.push_str("()"),
            }
            return;
        }
        if d == Definition::SideEffect && ss {
            // a side-effect node may carry the operand it was attached after as its left child
            match n.get_left() {
                Some(l) => go(nodes, l, sg, ss, depth + 1, out),
                None => out.push('_'),
            }
            return;
        }
        out.push('(');
        out.push_str(&format!("{:?}", d));
        if d != Definition::List && d != Definition::Subexpression {
            out.push(':');
            out.push_str(n.get_lex_token().get_text());
        }
        for c in [n.get_left(), n.get_right()] {
            out.push(' ');
            match c {
                Some(c) => go(nodes, c, sg, ss, depth + 1, out),
                None => out.push('_'),
            }
        }
        out.push(')');
    }
    let mut s = String::new();
    go(nodes, pr.get_root(), skip_groups, skip_side_effects, 0, &mut s);
    s
}

fn tree_of(src: &str, sg: bool, ss: bool) -> Option<String> {
    let t = lex_g(src).ok()?;
    let p = parse_g(&t).ok()?;
    Some(canon(&p, sg, ss))
}

fn input() -> V {
    V::List(vec![V::pair(V::sym("a"), V::Int(1)), V::pair(V::sym("b"), V::Int(2))])
}

fn value_of<D: Subject>(src: &str) -> Result<V, String> {
    run_program::<D>(src, &input(), Host::none(), 1500).map(|o| o.value).map_err(|f| f.kind())
}

/// Some(kind) when the rewritten text behaves differently from the original
fn differs<D: Subject>(orig: &str, rew: &str, rule: &str) -> Option<String> {
    let v0 = match value_of::<D>(orig) {
        Ok(v) => v,
        Err(_) => return None, // original does not run: nothing to preserve (C01/C03 judge it)
    };
    let (sg, ss) = (rule.starts_with("R4") || rule.starts_with("R5"), rule.starts_with("R5"));
    match value_of::<D>(rew) {
        Ok(v1) => {
            if v1 != v0 {
                return Some("value-changed".into());
            }
        }
        Err(k) => return Some(format!("rewritten-program-fails[{}]", k.chars().take(40).collect::<String>())),
    }
    match (tree_of(orig, sg, ss), tree_of(rew, sg, ss)) {
        (Some(a), Some(c)) if a != c => Some("parse-tree-changed".into()),
        _ => None,
    }
}

/// first rewrite of `rule` on program `e` that differs: (kind, rewritten text)
fn first_difference<D: Subject>(e: &E, rule: &str) -> Option<(String, String)> {
    let src = print(e)?;
    if rule.starts_with("R4") || rule.starts_with("R5") {
        for (r, ne) in ast_rewrites(e) {
            if r == rule {
                if let Some(t) = print(&ne) {
                    if let Some(k) = differs::<D>(&src, &t, r) {
                        return Some((k, t));
                    }
                }
            }
        }
    } else {
        for rw in text_rewrites(&src) {
            if rw.rule == rule {
                if let Some(k) = differs::<D>(&src, &rw.text, rw.rule) {
                    return Some((k, rw.text));
                }
            }
        }
    }
    None
}

/// the program text with every single-space whitespace token replaced by a line break (None when there is none)
fn newline_layout(src: &str) -> Option<String> {
    let toks = lex_g(src).ok()?;
    let mut out = String::new();
    let mut changed = false;
    for t in &toks {
        if t.get_token_type() == TokenType::Whitespace && t.get_text() == " " {
            out.push('\n');
            changed = true;
        } else {
            out.push_str(t.get_text());
        }
    }
    if !changed {
        return None;
    }
    // the edit must not merge or split tokens
    let t2 = lex_g(&out).ok()?;
    if significant(&t2) != significant(&toks) {
        return None;
    }
    Some(out)
}

/// first rewrite of `rule` on the multi-line layout of `e` that differs: (kind, original, rewritten)
fn first_difference_nl<D: Subject>(e: &E, rule: &str) -> Option<(String, String, String)> {
    let src = print(e)?;
    let nl = newline_layout(&src)?;
    if value_of::<D>(&nl).ok() != value_of::<D>(&src).ok() || tree_of(&nl, false, false) != tree_of(&src, false, false) {
        return None;
    }
    for rw in text_rewrites(&nl) {
        if rw.rule == rule {
            if let Some(k) = differs::<D>(&nl, &rw.text, rw.rule) {
                return Some((k, nl, rw.text));
            }
        }
    }
    None
}

const RULES: [&str; 14] = [
    "R1-widen-whitespace",
    "R1-remove-whitespace",
    "R1-insert-space",
    "R2-blank-line-whitespace",
    "R2-trailing-whitespace",
    "R2-leading-whitespace",
    "R3-annotation",
    "R3-comment-line",
    "R4-parenthesise-operand",
    "R5-side-effect-after-atom",
    "R5-side-effect-after-group",
    "R5-side-effect-before-atom",
    "R5-side-effect-before-operand",
    "pairs",
];

fn check_program<D: Subject>(cx: &mut Ctx, e: &E, pairs: bool) {
    let src = match print(e) {
        Some(s) => s,
        None => return,
    };
    if value_of::<D>(&src).is_err() {
        cx.count("original_does_not_run", 1);
        return;
    }
    let mut texts = text_rewrites(&src);
    // multi-line layout of the same program: every single space between tokens becomes a line break; it is used as a
    // second original when it has the same tree and value as the one-line text (a line break is whitespace there)
    if let Some(nl) = newline_layout(&src) {
        if value_of::<D>(&nl).ok() == value_of::<D>(&src).ok() && tree_of(&nl, false, false) == tree_of(&src, false, false) {
            cx.count("multi_line_layouts", 1);
            for rw in text_rewrites(&nl) {
                cx.eval();
                if let Some(kind) = differs::<D>(&nl, &rw.text, rw.rule) {
                    // canonical witness: shrink the program while some rewrite of its multi-line layout differs the same way
                    let rule = rw.rule;
                    let mut fails = |c: &E| matches!(first_difference_nl::<D>(c, rule), Some((ref k, _, _)) if *k == kind);
                    let w = shrink(e, &mut fails);
                    let (wo, wt) = first_difference_nl::<D>(&w, rule).map(|x| (x.1, x.2)).unwrap_or((nl.clone(), rw.text.clone()));
                    cx.violation(
                        &format!("multi-line/{}/{}", rule, kind),
                        &format!("{} | {} => {}", D::NAME, crate::props::pipeline::show(&wo), crate::props::pipeline::show(&wt)),
                        json!({"impl": D::NAME, "rule": rule, "original": wo, "rewritten": wt, "first_seen_original": nl, "first_seen_rewritten": rw.text}),
                    );
                    break;
                }
            }
        }
    }
    let mut asts: Vec<(&'static str, String)> = ast_rewrites(e).into_iter().filter_map(|(r, ne)| print(&ne).map(|t| (r, t))).collect();
    // a block put before an operand stays attached to it across whitespace, an annotation or a comment line
    let mut spaced = vec![];
    for (r, t) in asts.iter() {
        if r.starts_with("R5-side-effect-before") {
            // the inserted block starts where the rewritten text departs from the original
            let at = src.char_indices().zip(t.char_indices()).find(|((_, a), (_, c))| a != c).map(|((i, _), _)| i).unwrap_or(src.len());
            if t[at..].starts_with("[1]") {
                for gap in [" ", "\t", " @note ", "@note ", "\n@@ c\n", " @@ c\n"] {
                    spaced.push((*r, format!("{}[1]{}{}", &t[..at], gap, &t[at + 3..])));
                }
            }
        }
    }
    asts.extend(spaced);
    let singles = texts.clone();
    let mut pair_labels: std::collections::HashMap<String, String> = std::collections::HashMap::new();
    if pairs {
        // pairs of text rewrites: apply every single rewrite to every singly rewritten text that is still a rewrite of the original
        let mut seen = std::collections::HashSet::new();
        for a in singles.iter().take(24) {
            for b2 in text_rewrites(&a.text).into_iter().take(24) {
                if seen.insert(b2.text.clone()) {
                    pair_labels.insert(b2.text.clone(), format!("{}+{}", a.rule, b2.rule));
                    texts.push(Rewrite { rule: "pairs", text: b2.text });
                }
            }
        }
    }
    let mut failed_rules: Vec<&'static str> = vec![];
    let mut all: Vec<(&'static str, String)> = texts.iter().filter(|r| r.rule != "pairs").map(|r| (r.rule, r.text.clone())).collect();
    all.extend(asts.into_iter());
    all.extend(texts.iter().filter(|r| r.rule == "pairs").map(|r| (r.rule, r.text.clone())));
    for (rule, text) in all.into_iter() {
        cx.eval();
        if failed_rules.contains(&rule) {
            continue;
        }
        // a pair is only interesting when no single rewrite of this program already differs
        if rule == "pairs" && !failed_rules.is_empty() {
            continue;
        }
        if let Some(kind) = differs::<D>(&src, &text, rule) {
            failed_rules.push(rule);
            // canonical witness: the smallest program on which some application of the same rule differs the same way
            if rule == "pairs" {
                // a pair that differs although no single rewrite does: identified by the two rules it combines
                let label = pair_labels.get(&text).cloned().unwrap_or_default();
                cx.violation(&format!("pairs({})/{}", label, kind), D::NAME, json!({"impl": D::NAME, "rule": "pairs", "original": src, "rewritten": text}));
                continue;
            }
            let w = if rule == "pairs" {
                e.clone()
            } else {
                let mut fails = |c: &E| matches!(first_difference::<D>(c, rule), Some((ref k, _)) if *k == kind);
                shrink(e, &mut fails)
            };
            let wsrc = print(&w).unwrap_or_default();
            let wtext = first_difference::<D>(&w, rule).map(|x| x.1).unwrap_or(text.clone());
            // the side-effect-after-bracket defect fails in many ways depending on what surrounds it: one signature per failure kind
            let witness = if rule == "R5-side-effect-after-group" { D::NAME.to_string() } else { format!("{} | {} => {}", D::NAME, crate::props::pipeline::show(&wsrc), crate::props::pipeline::show(&wtext)) };
            cx.violation(
                &format!("{}/{}", rule, kind),
                &witness,
                json!({"impl": D::NAME, "rule": rule, "original": wsrc, "rewritten": wtext, "first_seen_original": src, "first_seen_rewritten": text}),
            );
        }
    }
}

impl Property for C18 {
    fn id(&self) -> &'static str {
        "C18"
    }
    fn level(&self) -> &'static str {
        "exploration"
    }
    fn size(&self, tier: Tier) -> u64 {
        spaces(tier).all().iter().map(|c| c.len()).sum()
    }
    fn describe(&self, tier: Tier, idx: u64) -> String {
        let (c, i) = locate(tier, idx);
        print(&c.program(i)).unwrap_or_default()
    }
    fn budget_ms(&self) -> u64 {
        20_000
    }
    fn run(&self, tier: Tier, idx: u64, cx: &mut Ctx) {
        let (c, i) = locate(tier, idx);
        let e = c.program(i);
        let pairs = e.size() <= 5 && c.name == "T1" || e.size() <= 3;
        check_program::<SData>(cx, &e, pairs);
        check_program::<BData>(cx, &e, pairs);
        cx.nontrivial((c.name, i));
        cx.sample_at(20_011, || {
            let src = print(&e).unwrap_or_default();
            let rw = text_rewrites(&src);
            json!({"original": src, "rewrites": rw.iter().take(4).map(|r| format!("{}: {}", r.rule, r.text)).collect::<Vec<_>>()})
        });
    }
    fn replay(&self, d: &Value, cx: &mut Ctx) {
        let orig = d["original"].as_str().unwrap_or("");
        let rew = d["rewritten"].as_str().unwrap_or("");
        let rule = RULES.iter().find(|r| Some(**r) == d["rule"].as_str()).cloned().unwrap_or("R1-widen-whitespace");
        let k = if d["impl"].as_str() == Some("simple") { differs::<SData>(orig, rew, rule) } else { differs::<BData>(orig, rew, rule) };
        if let Some(kind) = k {
            if rule == "pairs" {
                cx.violation(&format!("pairs/{}", kind), d["impl"].as_str().unwrap_or(""), json!({"original": orig, "rewritten": rew}));
                return;
            }
            cx.violation(&format!("{}/{}", rule, kind), &format!("{} | {} => {}", d["impl"].as_str().unwrap_or(""), crate::props::pipeline::show(orig), crate::props::pipeline::show(rew)), json!({"original": orig, "rewritten": rew}));
        }
    }
    fn meta(&self, tier: Tier) -> Meta {
        let s = spaces(tier);
        Meta {
            rule: format!("every program of the C01 corpora T1 ({}), T3 up to {} nodes ({}), T4 reapply loops ({}), T5 call nesting ({}) and T6 block endings ({}) that runs - in its one-line text and, where a line break acts as whitespace, in a multi-line layout (every single space a line break; text rewrites only) -, x every single application at every applicable position of: R1 widen / remove / insert horizontal whitespace at a token boundary (only where the significant token sequence is unchanged and no list is formed or dissolved), R2 trailing whitespace before a newline, spaces on the blank line, extra blank line, leading/trailing whitespace, R3 annotation inside whitespace or at a boundary, comment lines, R4 parentheses around every complete operand, R5 `[1]` after an atom operand, after a parenthesised operator operand, before an atom operand and before an operand that starts with a prefix operator or a bracket (tight and with a space, tab, annotation or comment line between block and operand); plus pairs of text rewrites for programs of <= 3 nodes (T1: <= 5). Oracle: the final value (input (:a = 1, :b = 2)) on both implementations is unchanged and the parse tree is equal modulo trivia (R1-R3), added groups (R4) and side-effect nodes (R5). Non-trivial = program; distinct by enumeration index.", s.t1.len(), s.t3.max, s.t3.len(), s.t4.len(), s.t5.len(), s.t6.len()),
            assumptions: vec![
                "a rewrite is applied only when re-lexing shows the same significant tokens (no tokens merged or split by the edit)".into(),
                "programs whose original does not run are skipped (nothing to preserve)".into(),
                "the identifier after `.` is a property name: it is never parenthesised".into(),
            ],
            trusted_base: vec!["the repository's lexer for locating token boundaries (judged separately by C13)".into(), "engine/src/ast.rs printer".into()],
            explanation: "metamorphic bounded-exhaustive check: every program x every meaning-free rewrite".into(),
        }
    }
}
