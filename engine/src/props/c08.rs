//! C08 - undefined operand combinations yield unit, after offering them to the host.
//!
//! Bounded-exhaustive: the complete matrix {operand-consuming instruction} x {ordered pairs (singles for unary
//! instructions) of representative values of all 19 value types} x {Simple, Basic data implementation} x
//! {host absent, declining, accepting}. Every cell builds a fresh data object, pushes the operands in source
//! order on top of a marker operand, executes the instruction through the real runtime and inspects the result,
//! the recorded `defer_op` calls and the operand stack, then executes one more instruction. A second path
//! compiles the program `($.0) <op> ($.1)` and runs it to its end on the input list (left, right); the
//! thorough tier adds other operand-stack layouts, the direct `ops::` entry points and `# (<program>)`.
//!
//! The oracle is the table `defined()` below: per instruction, the operand type combinations for which the
//! language defines a result (the listed arms of the runtime). Only *undefined* cells are judged; in defined
//! cells the only thing that is reported is an escaping `ErrorType::UnsupportedOpTypes`, the code by which the
//! implementation itself says "these operand types have no defined result".

use crate::fw::{guard, panic_kind, Ctx, Meta, Property, Tier};
use crate::subj::{compile, BData, Call, DeferMode, Host, SData, Subject, DEFER_SENTINEL};
use crate::val::{get, put, SymPart, V};
use garnish_lang_runtime::{execute_current_instruction, ops, SimpleRuntimeState};
use garnish_lang_simple_data::{symbol_value, SimpleGarnishData};
use garnish_lang_traits::{ErrorType, GarnishDataType as T, Instruction as I};
use serde_json::{json, Value};
use std::collections::{BTreeMap, BTreeSet};

pub struct C08;

// ---------------------------------------------------------------------------------------------
// operations

#[derive(Clone, Copy, Debug, PartialEq, Eq)]
enum Fam {
    /// binary arithmetic / bitwise: defined on (Number, Number)
    Arith2,
    /// unary arithmetic / bitwise not: defined on Number
    Arith1,
    Access,
    InternalSide,
    InternalLength,
    Apply,
    EmptyApply,
    Cast,
    Range,
    /// a result is defined for every operand type (never defers): only the escaping-error rule applies
    Total2,
    Total1,
    /// `Resolve`: left operand = current input value, right operand = the instruction's data address
    Resolve,
}

#[derive(Clone, Copy, Debug)]
struct OpK {
    instr: I,
    fam: Fam,
}

const OPS: &[OpK] = &[
    OpK { instr: I::Add, fam: Fam::Arith2 },
    OpK { instr: I::Subtract, fam: Fam::Arith2 },
    OpK { instr: I::Multiply, fam: Fam::Arith2 },
    OpK { instr: I::Divide, fam: Fam::Arith2 },
    OpK { instr: I::IntegerDivide, fam: Fam::Arith2 },
    OpK { instr: I::Power, fam: Fam::Arith2 },
    OpK { instr: I::Remainder, fam: Fam::Arith2 },
    OpK { instr: I::BitwiseAnd, fam: Fam::Arith2 },
    OpK { instr: I::BitwiseOr, fam: Fam::Arith2 },
    OpK { instr: I::BitwiseXor, fam: Fam::Arith2 },
    OpK { instr: I::BitwiseShiftLeft, fam: Fam::Arith2 },
    OpK { instr: I::BitwiseShiftRight, fam: Fam::Arith2 },
    OpK { instr: I::Access, fam: Fam::Access },
    OpK { instr: I::Apply, fam: Fam::Apply },
    OpK { instr: I::ApplyType, fam: Fam::Cast },
    OpK { instr: I::MakeRange, fam: Fam::Range },
    OpK { instr: I::MakeStartExclusiveRange, fam: Fam::Range },
    OpK { instr: I::MakeEndExclusiveRange, fam: Fam::Range },
    OpK { instr: I::MakeExclusiveRange, fam: Fam::Range },
    OpK { instr: I::Concat, fam: Fam::Total2 },
    OpK { instr: I::MakePair, fam: Fam::Total2 },
    OpK { instr: I::PartialApply, fam: Fam::Total2 },
    OpK { instr: I::Equal, fam: Fam::Total2 },
    OpK { instr: I::NotEqual, fam: Fam::Total2 },
    OpK { instr: I::TypeEqual, fam: Fam::Total2 },
    OpK { instr: I::LessThan, fam: Fam::Total2 },
    OpK { instr: I::LessThanOrEqual, fam: Fam::Total2 },
    OpK { instr: I::GreaterThan, fam: Fam::Total2 },
    OpK { instr: I::GreaterThanOrEqual, fam: Fam::Total2 },
    OpK { instr: I::Xor, fam: Fam::Total2 },
    OpK { instr: I::Resolve, fam: Fam::Resolve },
    OpK { instr: I::Opposite, fam: Fam::Arith1 },
    OpK { instr: I::AbsoluteValue, fam: Fam::Arith1 },
    OpK { instr: I::BitwiseNot, fam: Fam::Arith1 },
    OpK { instr: I::AccessLeftInternal, fam: Fam::InternalSide },
    OpK { instr: I::AccessRightInternal, fam: Fam::InternalSide },
    OpK { instr: I::AccessLengthInternal, fam: Fam::InternalLength },
    OpK { instr: I::EmptyApply, fam: Fam::EmptyApply },
    OpK { instr: I::Not, fam: Fam::Total1 },
    OpK { instr: I::Tis, fam: Fam::Total1 },
    OpK { instr: I::TypeOf, fam: Fam::Total1 },
];

impl OpK {
    fn name(&self) -> String {
        format!("{:?}", self.instr)
    }
    fn unary(&self) -> bool {
        matches!(self.fam, Fam::Arith1 | Fam::InternalSide | Fam::InternalLength | Fam::EmptyApply | Fam::Total1)
    }
    fn from_name(s: &str) -> Option<OpK> {
        OPS.iter().cloned().find(|o| o.name() == s)
    }
}

/// The type a cast targets: the type held by a Type value, otherwise the operand's own type.
fn effective_right(op: &OpK, r: &V) -> T {
    match (op.fam, r) {
        (Fam::Cast, V::Type(t)) => *t,
        _ => r.type_of(),
    }
}

/// Does the language define a result for this instruction on these operand types?
/// (`r` is the effective right type; for unary instructions it is ignored.)
fn defined(op: &OpK, l: T, r: T) -> bool {
    match op.fam {
        Fam::Arith2 | Fam::Range => l == T::Number && r == T::Number,
        Fam::Arith1 => l == T::Number,
        Fam::Access => {
            let namey = |t: T| matches!(t, T::Symbol | T::SymbolList | T::Number);
            let merge = namey(l) && namey(r) && !(l == T::Number && r == T::Number);
            let indexed = matches!(l, T::Pair | T::List | T::CharList | T::ByteList | T::Range | T::Concatenation | T::Slice);
            let keyed = matches!(l, T::Pair | T::List | T::Concatenation | T::Slice);
            merge || (indexed && r == T::Number) || (keyed && r == T::Symbol)
        }
        Fam::InternalSide => matches!(l, T::Pair | T::Range | T::Slice | T::Concatenation),
        Fam::InternalLength => matches!(l, T::Pair | T::List | T::CharList | T::ByteList | T::Range | T::Slice | T::Concatenation),
        Fam::Apply => match (l, r) {
            (T::Expression, _) | (T::External, _) | (T::Partial, _) => true,
            (T::Symbol, T::SymbolList) | (T::SymbolList, T::Symbol) | (T::SymbolList, T::SymbolList) => true,
            (T::Range, T::Range) | (T::Slice, T::Range) => true,
            (T::SymbolList, T::Number) | (T::List, T::Number) | (T::Pair, T::Number) => true,
            (T::Pair, T::Symbol) | (T::List, T::Symbol) | (T::List, T::SymbolList) => true,
            (T::List, T::Range) | (T::Concatenation, T::Range) | (T::CharList, T::Range) | (T::ByteList, T::Range) | (T::SymbolList, T::Range) => true,
            _ => false,
        },
        Fam::EmptyApply => matches!(l, T::Expression | T::External | T::Partial),
        Fam::Cast => {
            if l == r {
                return true;
            }
            match (l, r) {
                (T::CharList, T::Number) => true,
                (_, T::CharList) | (_, T::ByteList) | (_, T::Symbol) => true,
                (T::Number, T::Char) | (T::Number, T::Byte) | (T::Char, T::Number) | (T::Char, T::Byte) | (T::Byte, T::Number) | (T::Byte, T::Char) => true,
                (T::CharList, T::Char) => true,
                (T::SymbolList, T::List) | (T::Range, T::List) | (T::CharList, T::List) | (T::ByteList, T::List) | (T::Concatenation, T::List) | (T::Slice, T::List) => true,
                (T::Unit, _) => true,
                (_, T::False) | (_, T::True) => true,
                _ => false,
            }
        }
        Fam::Total2 | Fam::Total1 | Fam::Resolve => true,
    }
}

/// value-level refinement of `defined`: what a slice can be indexed by depends on what it is a slice of (a slice of a
/// list or concatenation by number or symbol, a slice of text or bytes by number only, a slice of anything else by
/// nothing)
fn defined_v(op: &OpK, l: &V, r: T) -> bool {
    if let (Fam::Access, V::Slice(inner, _)) = (op.fam, l) {
        return match inner.type_of() {
            T::List | T::Concatenation => r == T::Number || r == T::Symbol,
            T::CharList | T::ByteList => r == T::Number,
            _ => false,
        };
    }
    // a partial can be applied when its receiver can be called
    if let (Fam::Apply | Fam::EmptyApply, V::Partial(receiver, _)) = (op.fam, l) {
        return matches!(receiver.type_of(), T::Expression | T::External);
    }
    defined(op, l.type_of(), r)
}

// ---------------------------------------------------------------------------------------------
// representative values

fn sp(n: &str) -> SymPart {
    SymPart::Sym(symbol_value(n))
}
fn b(v: V) -> Box<V> {
    Box::new(v)
}
fn rng(a: i32, z: i32) -> V {
    V::Range(b(V::Int(a)), b(V::Int(z)))
}
fn assoc(n: &str, v: V) -> V {
    V::pair(V::sym(n), v)
}

/// (value, member of the quick tier's set). Every one of the 19 value types has an empty / singleton /
/// typical / nested representative where the type admits one.
fn reps_all() -> Vec<(V, bool)> {
    let l123 = V::List(vec![V::Int(1), V::Int(2), V::Int(3)]);
    vec![
        (V::Unit, true),
        (V::True, true),
        (V::False, true),
        (V::Int(0), true),
        (V::Int(5), true),
        (V::Int(-3), true),
        (V::Float(2.5), true),
        (V::Type(T::Number), true),
        (V::Type(T::Unit), true),
        (V::Type(T::List), true),
        (V::Char('a'), true),
        (V::Char('\u{0}'), true),
        (V::str(""), true),
        (V::str("a"), true),
        (V::str("abc"), true),
        (V::Byte(0), true),
        (V::Byte(200), true),
        (V::Bytes(vec![]), true),
        (V::Bytes(vec![7]), true),
        (V::Bytes(vec![1, 2, 3]), true),
        (V::sym("a"), true),
        (V::sym("zz"), true),
        (V::SymList(vec![sp("a"), sp("b")]), true),
        (V::SymList(vec![sp("a"), SymPart::Num(1)]), true),
        (V::SymList(vec![sp("a"), sp("b"), sp("c")]), true),
        (assoc("a", V::Int(5)), true),
        (V::pair(V::Int(1), V::Int(2)), true),
        (assoc("a", assoc("b", V::Int(1))), true),
        (rng(1, 3), true),
        (rng(0, 0), true),
        (rng(5, 2), true),
        (V::Concat(b(V::Int(1)), b(V::Int(2))), true),
        (V::Concat(b(V::List(vec![V::Int(1), V::Int(2)])), b(V::List(vec![V::Int(3)]))), true),
        (V::Concat(b(assoc("a", V::Int(1))), b(assoc("b", V::Int(2)))), true),
        (V::Concat(b(V::str("a")), b(V::str("b"))), true),
        (V::Slice(b(l123.clone()), b(rng(0, 1))), true),
        (V::Slice(b(V::str("abc")), b(rng(1, 2))), true),
        (V::Slice(b(V::Bytes(vec![1, 2, 3])), b(rng(0, 0))), true),
        (V::Slice(b(V::SymList(vec![sp("a"), sp("b"), sp("c")])), b(rng(0, 1))), true),
        (V::Slice(b(V::Concat(b(V::Concat(b(V::Int(1)), b(V::Int(2)))), b(V::Int(3)))), b(rng(0, 1))), true),
        (V::Partial(b(V::Expr(0)), b(V::Int(5))), true),
        (V::Partial(b(V::Int(5)), b(V::Int(6))), true),
        (V::List(vec![]), true),
        (V::List(vec![V::Int(1)]), true),
        (V::List(vec![V::Int(1), V::str("a"), V::sym("b")]), true),
        (V::List(vec![assoc("a", V::Int(1)), assoc("b", V::Int(2))]), true),
        (V::List(vec![V::List(vec![V::Int(1)]), V::List(vec![V::Int(2)])]), true),
        (V::Expr(0), true),
        (V::External(3), true),
        (V::External(0), true),
        // thorough only: more shapes per type
        (V::Int(i32::MAX), false),
        (V::Int(i32::MIN), false),
        (V::Float(-0.0), false),
        (V::Type(T::Type), false),
        (V::Type(T::Symbol), false),
        (V::Char('é'), false),
        (V::str("hello world"), false),
        (V::Byte(255), false),
        (V::Bytes(vec![0, 255, 0, 255, 9]), false),
        (V::sym(""), false),
        (V::SymList(vec![sp("b"), sp("a"), SymPart::Num(0), sp("c")]), false),
        (V::pair(V::str("k"), V::List(vec![])), false),
        (V::pair(V::Unit, V::Unit), false),
        (rng(-2, 2), false),
        (V::Concat(b(V::Concat(b(V::Int(1)), b(assoc("a", V::Int(2))))), b(V::Concat(b(V::str("x")), b(V::Unit)))), false),
        (V::Slice(b(l123.clone()), b(rng(1, 7))), false),
        (V::Slice(b(V::List(vec![assoc("a", V::Int(1)), assoc("b", V::Int(2))])), b(rng(0, 1))), false),
        (V::Partial(b(V::Expr(0)), b(V::List(vec![V::Int(1)]))), false),
        (V::List(vec![assoc("a", assoc("b", V::Int(1))), assoc("a", V::List(vec![assoc("b", V::Int(9))]))]), false),
        (V::List(vec![V::Unit, V::True, V::False]), false),
        (V::List(vec![V::List(vec![V::List(vec![])])]), false),
    ]
}

const ALL_TYPES: [T; 19] = [
    T::Unit,
    T::Number,
    T::Type,
    T::Char,
    T::CharList,
    T::Byte,
    T::ByteList,
    T::Symbol,
    T::SymbolList,
    T::Pair,
    T::Range,
    T::Concatenation,
    T::Slice,
    T::Partial,
    T::List,
    T::Expression,
    T::External,
    T::True,
    T::False,
];

fn reps(tier: Tier) -> Vec<V> {
    reps_all().into_iter().filter(|(_, q)| *q || tier == Tier::Thorough).map(|(v, _)| v).collect()
}

/// right operands: for the cast instruction additionally a Type value for every type (and Custom)
fn rights(tier: Tier, op: &OpK) -> Vec<V> {
    let mut r = reps(tier);
    if op.fam == Fam::Cast {
        for t in ALL_TYPES.iter().chain([T::Custom].iter()) {
            let v = V::Type(*t);
            if !r.iter().any(|x| x.show() == v.show()) {
                r.push(v);
            }
        }
    }
    r
}

fn find_rep(shown: &str) -> Option<V> {
    let mut all: Vec<V> = reps_all().into_iter().map(|(v, _)| v).collect();
    for t in ALL_TYPES.iter().chain([T::Custom].iter()) {
        all.push(V::Type(*t));
    }
    all.into_iter().find(|v| v.show() == shown)
}

// ---------------------------------------------------------------------------------------------
// harness

#[derive(Clone, Copy, Debug, PartialEq, Eq)]
enum Path {
    /// through `execute_current_instruction` with the instruction in the instruction list
    Execute,
    /// the `garnish_lang_runtime::ops` function called directly
    Direct,
    /// a compiled program `($.0) <op> ($.1)` run to its end on the input list (left, right)
    Source,
    /// the same program wrapped in a following operation: `# (($.0) <op> ($.1))`
    SourceNext,
}

impl Path {
    fn is_source(self) -> bool {
        matches!(self, Path::Source | Path::SourceNext)
    }
}

/// Source text whose only non-accessor operation is this instruction, operands in source order.
/// (`~>` is left out on purpose: it names its operands in the opposite order.)
fn source_form(op: &OpK) -> Option<String> {
    let infix = |o: &str| Some(format!("($.0) {} ($.1)", o));
    let prefix = |o: &str| Some(format!("{} ($.0)", o));
    let suffix = |o: &str| Some(format!("($.0) {}", o));
    match op.instr {
        I::Add => infix("+"),
        I::Subtract => infix("-"),
        I::Multiply => infix("*"),
        I::Divide => infix("/"),
        I::IntegerDivide => infix("//"),
        I::Power => infix("**"),
        I::Remainder => infix("%"),
        I::BitwiseAnd => infix("&"),
        I::BitwiseOr => infix("|"),
        I::BitwiseXor => infix("^"),
        I::BitwiseShiftLeft => infix("<<"),
        I::BitwiseShiftRight => infix(">>"),
        I::Access => infix("."),
        I::Apply => infix("<~"),
        I::ApplyType => infix("~#"),
        I::MakeRange => infix(".."),
        I::MakeStartExclusiveRange => infix(">.."),
        I::MakeEndExclusiveRange => infix("..<"),
        I::MakeExclusiveRange => infix(">..<"),
        I::Opposite => prefix("--"),
        I::AbsoluteValue => prefix("++"),
        I::BitwiseNot => prefix("!"),
        I::AccessLeftInternal => prefix("_."),
        I::AccessRightInternal => suffix("._"),
        I::AccessLengthInternal => suffix(".|"),
        I::EmptyApply => suffix("~~"),
        _ => None,
    }
}

/// register / address layout around the operands
#[derive(Clone, Copy, Debug, PartialEq, Eq)]
enum Layout {
    /// one padding value, one marker operand below the operands
    Std,
    /// no padding, no marker: the operands are the only registers
    Bare,
    /// several padding values and three marker operands
    Deep,
}

impl Layout {
    fn name(self) -> &'static str {
        match self {
            Layout::Std => "std",
            Layout::Bare => "bare",
            Layout::Deep => "deep",
        }
    }
    fn parse(s: &str) -> Layout {
        match s {
            "bare" => Layout::Bare,
            "deep" => Layout::Deep,
            _ => Layout::Std,
        }
    }
    fn markers(self) -> usize {
        match self {
            Layout::Std => 1,
            Layout::Bare => 0,
            Layout::Deep => 3,
        }
    }
}

fn mode_name(m: DeferMode) -> &'static str {
    match m {
        DeferMode::Absent => "absent",
        DeferMode::Decline => "decline",
        DeferMode::Accept => "accept",
    }
}
fn mode_parse(s: &str) -> DeferMode {
    match s {
        "decline" => DeferMode::Decline,
        "accept" => DeferMode::Accept,
        _ => DeferMode::Absent,
    }
}
const MODES: [DeferMode; 3] = [DeferMode::Absent, DeferMode::Decline, DeferMode::Accept];

trait Sub8: Subject {
    fn make(mode: DeferMode) -> Self;
}
impl Sub8 for SData {
    fn make(mode: DeferMode) -> Self {
        if mode == DeferMode::Absent {
            // nothing installed: the library's default handler
            SimpleGarnishData::new_custom()
        } else {
            SData::fresh(Host { defer: mode, ..Host::default() })
        }
    }
}
impl Sub8 for BData {
    fn make(mode: DeferMode) -> Self {
        // the companion is part of the type; "absent" is the companion that declines without looking
        BData::fresh(Host { defer: mode, ..Host::default() })
    }
}

#[derive(Clone, Debug)]
enum Res {
    Ok { running: bool },
    Unsupported,
    Err(String),
}

#[derive(Clone, Debug)]
struct Obs {
    res: Res,
    /// recorded defer calls: (operation, (left type, left shown), (right type, right shown))
    defers: Vec<(String, (String, String), (String, String))>,
    /// what the operands look like when read back before the instruction ran
    left_shown: String,
    right_shown: String,
    /// registers after the instruction, top first
    regs_after: Vec<usize>,
    top: Option<V>,
    markers: Vec<usize>,
    cursor_before: usize,
    cursor_after: usize,
    /// result of executing the follow-up `TypeOf`: the type it produced, or the failure
    next: Option<Result<V, String>>,
    /// Source path only: the program's final value, or why there is none
    program: Option<Result<V, String>>,
    wrapped: bool,
    /// depth of the input-value stack before / after the instruction (instruction-level paths only)
    values: Option<(usize, usize)>,
}

const MARK: i32 = 7_700_000;

fn de<E: std::fmt::Display>(what: &'static str) -> impl Fn(E) -> String {
    move |e| format!("harness: {}: {}", what, e)
}

fn all_registers<D: Subject>(d: &D) -> Vec<usize> {
    let mut c = d.clone();
    let mut out = vec![];
    loop {
        match c.pop_register() {
            Ok(Some(a)) => out.push(a),
            Ok(None) => return out,
            // Simple keeps call frames on the register stack and refuses to pop them: mark and stop
            Err(_) => {
                out.push(usize::MAX);
                return out;
            }
        }
        if out.len() > 64 {
            return out;
        }
    }
}

fn call_direct<D: Subject>(d: &mut D, op: &OpK, data: Option<usize>) -> Result<Option<usize>, garnish_lang_traits::RuntimeError<D::Error>> {
    match op.instr {
        I::Add => ops::add(d),
        I::Subtract => ops::subtract(d),
        I::Multiply => ops::multiply(d),
        I::Divide => ops::divide(d),
        I::IntegerDivide => ops::integer_divide(d),
        I::Power => ops::power(d),
        I::Remainder => ops::remainder(d),
        I::BitwiseAnd => ops::bitwise_and(d),
        I::BitwiseOr => ops::bitwise_or(d),
        I::BitwiseXor => ops::bitwise_xor(d),
        I::BitwiseShiftLeft => ops::bitwise_left_shift(d),
        I::BitwiseShiftRight => ops::bitwise_right_shift(d),
        I::Access => ops::access(d),
        I::Apply => ops::apply(d),
        I::ApplyType => ops::type_cast(d),
        I::MakeRange => ops::make_range(d),
        I::MakeStartExclusiveRange => ops::make_start_exclusive_range(d),
        I::MakeEndExclusiveRange => ops::make_end_exclusive_range(d),
        I::MakeExclusiveRange => ops::make_exclusive_range(d),
        I::Concat => ops::concat(d),
        I::MakePair => ops::make_pair(d),
        I::PartialApply => ops::partial_apply(d),
        I::Equal => ops::equal(d),
        I::NotEqual => ops::not_equal(d),
        I::TypeEqual => ops::type_equal(d),
        I::LessThan => ops::less_than(d),
        I::LessThanOrEqual => ops::less_than_or_equal(d),
        I::GreaterThan => ops::greater_than(d),
        I::GreaterThanOrEqual => ops::greater_than_or_equal(d),
        I::Xor => ops::xor(d),
        I::Resolve => ops::resolve(d, data.unwrap_or(0)),
        I::Opposite => ops::opposite(d),
        I::AbsoluteValue => ops::absolute_value(d),
        I::BitwiseNot => ops::bitwise_not(d),
        I::AccessLeftInternal => ops::access_left_internal(d),
        I::AccessRightInternal => ops::access_right_internal(d),
        I::AccessLengthInternal => ops::access_length_internal(d),
        I::EmptyApply => ops::empty_apply(d),
        I::Not => ops::not(d),
        I::Tis => ops::tis(d),
        I::TypeOf => ops::type_of(d),
        _ => Ok(None),
    }
}

/// Build the situation and run the instruction. Err(..) = the harness itself could not set the case up
/// (reported as its own kind, never mixed with a verdict on the instruction).
fn observe<D: Sub8>(op: &OpK, l: &V, r: Option<&V>, mode: DeferMode, path: Path, layout: Layout) -> Result<Obs, String> {
    let mut d = D::make(mode);
    // a jump target for expression values (bodies 0 and 1): a lone EndExpression each
    for _ in 0..2 {
        let e = d.push_instruction(I::EndExpression, None).map_err(de("push_instruction"))?;
        d.push_to_jump_table(e).map_err(de("push_to_jump_table"))?;
    }
    match layout {
        Layout::Std => {
            put(&mut d, &V::str("pad")).map_err(de("pad"))?;
        }
        Layout::Bare => {}
        Layout::Deep => {
            put(&mut d, &V::str("padding")).map_err(de("pad"))?;
            put(&mut d, &V::List(vec![V::Int(9), V::Int(8)])).map_err(de("pad"))?;
            put(&mut d, &V::sym("pad")).map_err(de("pad"))?;
        }
    }
    let mut marker_addrs = vec![];
    for k in 0..layout.markers() {
        marker_addrs.push(put(&mut d, &V::Int(MARK + k as i32)).map_err(de("marker"))?);
    }
    let la = put(&mut d, l).map_err(de("put left"))?;
    let ra = match r {
        Some(r) => Some(put(&mut d, r).map_err(de("put right"))?),
        None => None,
    };
    let left_shown = get(&d, la).show();
    let right_shown = ra.map(|a| get(&d, a).show()).unwrap_or_else(|| "-".to_string());

    let data = if op.fam == Fam::Resolve { ra } else { None };
    let start = d.push_instruction(op.instr, data).map_err(de("push_instruction"))?;
    d.push_instruction(I::TypeOf, None).map_err(de("push_instruction"))?;
    d.push_instruction(I::TypeOf, None).map_err(de("push_instruction"))?;
    d.set_instruction_cursor(start).map_err(de("set_instruction_cursor"))?;

    for m in &marker_addrs {
        d.push_register(*m).map_err(de("push marker"))?;
    }
    if op.fam == Fam::Resolve {
        d.push_value_stack(la).map_err(de("push_value_stack"))?;
    } else {
        d.push_register(la).map_err(de("push left"))?;
        if let Some(ra) = ra {
            d.push_register(ra).map_err(de("push right"))?;
        }
    }
    d.host_mut().log.clear();

    let cursor_before = d.get_instruction_cursor();
    let values_before = d.value_depth();
    let res = match path {
        Path::Execute => match execute_current_instruction(&mut d) {
            Ok(info) => Res::Ok { running: info.get_state() == SimpleRuntimeState::Running },
            Err(e) => {
                if e.get_type() == ErrorType::UnsupportedOpTypes { Res::Unsupported } else { Res::Err(rt_err(&e)) }
            }
        },
        Path::Source | Path::SourceNext | Path::Direct => match call_direct(&mut d, op, data) {
            Ok(next) => {
                // what execute_current_instruction does with the returned cursor
                let n = next.unwrap_or(cursor_before + 1);
                let moved = d.set_instruction_cursor(n).is_ok();
                Res::Ok { running: moved }
            }
            Err(e) => {
                if e.get_type() == ErrorType::UnsupportedOpTypes { Res::Unsupported } else { Res::Err(rt_err(&e)) }
            }
        },
    };
    let defers = defer_calls(d.host());
    let values_after = d.value_depth();
    let regs_after = all_registers(&d);
    let top = regs_after.first().map(|a| get(&d, *a));
    let cursor_after = d.get_instruction_cursor();

    let mut next = None;
    if matches!(res, Res::Ok { .. }) && cursor_after == cursor_before + 1 && !regs_after.is_empty() {
        let r2 = match path {
            Path::Execute => execute_current_instruction(&mut d).map(|_| ()),
            Path::Source | Path::SourceNext | Path::Direct => ops::type_of(&mut d).map(|_| ()),
        };
        next = Some(match r2 {
            Err(e) => Err(rt_err(&e)),
            Ok(()) => match all_registers(&d).first() {
                Some(a) => Ok(get(&d, *a)),
                None => Err("no operand left".to_string()),
            },
        });
    }
    Ok(Obs { res, defers, left_shown, right_shown, regs_after, top, markers: marker_addrs, cursor_before, cursor_after, next, program: None, wrapped: false, values: Some((values_before, values_after)) })
}

fn defer_calls(h: &Host) -> Vec<(String, (String, String), (String, String))> {
    h.log
        .iter()
        .filter_map(|c| match c {
            Call::Defer(o, l, r) => Some((o.clone(), l.clone(), r.clone())),
            _ => None,
        })
        .collect()
}

/// Source path: compile `($.0) <op> ($.1)`, run it to the end on the input list (l, r).
fn observe_source<D: Sub8>(op: &OpK, l: &V, r: Option<&V>, mode: DeferMode, wrapped: bool) -> Result<Obs, String> {
    let src = source_form(op).ok_or_else(|| "harness: no source form".to_string())?;
    let src = if wrapped { format!("# ({})", src) } else { src };
    let mut d = D::make(mode);
    let (_, bd) = compile(&src, &mut d).map_err(|e| format!("harness: compile: {}", e.kind()))?;
    let n_op = d.get_instruction_iter().filter(|i| d.get_instruction(*i).map(|x| x.0) == Some(op.instr)).count();
    // `.` is also what the operand accessors compile to
    let want = if op.instr == I::Access { if op.unary() { 2 } else { 3 } } else { 1 };
    let n_typeof = d.get_instruction_iter().filter(|i| d.get_instruction(*i).map(|x| x.0) == Some(I::TypeOf)).count();
    if n_op != want || n_typeof != wrapped as usize {
        return Err(format!("harness: `{}` does not compile to one {:?}", src, op.instr));
    }
    let mut items = vec![l.clone()];
    if let Some(r) = r {
        items.push(r.clone());
    }
    let entry = d.get_from_jump_table(*bd.jump_index()).ok_or_else(|| "harness: no entry".to_string())?;
    d.set_instruction_cursor(entry).map_err(de("set_instruction_cursor"))?;
    let ia = put(&mut d, &V::List(items)).map_err(de("put input"))?;
    d.push_value_stack(ia).map_err(de("push_value_stack"))?;
    let (left_shown, right_shown) = match get(&d, ia) {
        V::List(xs) if xs.len() == if r.is_some() { 2 } else { 1 } => (xs[0].show(), xs.get(1).map(|x| x.show()).unwrap_or_else(|| "-".into())),
        other => return Err(format!("harness: input list reads back as {}", other.show())),
    };
    d.host_mut().log.clear();
    let mut res = Res::Err("step cap".into());
    for _ in 0..400 {
        match execute_current_instruction(&mut d) {
            Ok(info) => {
                if info.get_state() == SimpleRuntimeState::End {
                    res = Res::Ok { running: false };
                    break;
                }
            }
            Err(e) => {
                res = if e.get_type() == ErrorType::UnsupportedOpTypes { Res::Unsupported } else { Res::Err(rt_err(&e)) };
                break;
            }
        }
    }
    let program = Some(match d.get_current_value() {
        Some(a) => Ok(get(&d, a)),
        None => Err("no current value".to_string()),
    });
    let defers = defer_calls(d.host());
    Ok(Obs { res, defers, left_shown, right_shown, regs_after: vec![], top: program.clone().and_then(|p| p.ok()), markers: vec![], cursor_before: 0, cursor_after: 0, next: None, program, wrapped, values: None })
}

/// Text of a runtime error without Debug-formatting it (a DataError may carry a captured backtrace whose
/// symbolisation takes seconds).
fn rt_err<E: std::error::Error + 'static>(e: &garnish_lang_traits::RuntimeError<E>) -> String {
    use std::error::Error;
    let src = e.source().map(|s| format!("{}", s)).unwrap_or_default();
    format!("{:?}: {} {}", e.get_type(), e.get_message(), src).trim().to_string()
}

/// Shorten an error text into a stable kind fragment.
fn err_kind(m: &str) -> String {
    let s: String = m.chars().take(90).collect();
    panic_kind(&s)
}

/// Judge one observation. None = nothing to report.
fn judge(op: &OpK, l: &V, r: Option<&V>, mode: DeferMode, o: &Obs) -> Option<(String, String)> {
    let lt = l.type_of();
    let rt = r.map(|r| effective_right(op, r)).unwrap_or(T::Unit);
    let is_defined = defined_v(op, l, rt);
    // wherever it occurs
    if let Res::Unsupported = o.res {
        return Some(("err-unsupported-op-types".into(), "Err(RuntimeError{UnsupportedOpTypes})".into()));
    }
    if is_defined {
        // applying a symbol list to a list walks a chain of accesses: a step that lands on a value the next part
        // cannot index is an undefined combination inside a defined one - the chain ends with unit, it does not fail
        if let (Fam::Apply, T::List, T::SymbolList, Res::Err(m)) = (op.fam, lt, rt, &o.res) {
            return Some((format!("err-in-symbol-list-chain[{}]", err_kind(m)), m.clone()));
        }
        return None;
    }
    if let Res::Err(m) = &o.res {
        return Some((format!("err[{}]", err_kind(m)), m.clone()));
    }
    // an operation without a defined result leaves the input-value stack alone
    if let Some((before, after)) = o.values {
        if before != after {
            return Some(("input-value-stack-changed".into(), format!("value stack depth {} -> {}", before, after)));
        }
    }
    let running = matches!(o.res, Res::Ok { running: true });
    // host offered exactly once, with this operation and the operands in source order
    if mode != DeferMode::Absent {
        if o.defers.is_empty() {
            return Some(("defer-not-called".into(), format!("no defer_op call; result {}", o.top.as_ref().map(|v| v.show()).unwrap_or("<none>".into()))));
        }
        if o.defers.len() > 1 {
            return Some(("defer-called-more-than-once".into(), format!("{} defer_op calls", o.defers.len())));
        }
        let (dop, dl, dr) = &o.defers[0];
        if *dop != op.name() {
            return Some(("defer-wrong-operation".into(), format!("defer_op called with {}", dop)));
        }
        let left_ok = dl.0 == format!("{:?}", lt) && dl.1 == o.left_shown;
        let right_ok = match r {
            // unary: the statement does not say what stands in for the missing operand
            None => true,
            Some(rv) => {
                let tag_ok = dr.0 == format!("{:?}", rv.type_of()) || dr.0 == format!("{:?}", rt);
                tag_ok && dr.1 == o.right_shown
            }
        };
        if !left_ok || !right_ok {
            return Some(("defer-wrong-operands".into(), format!("defer_op called with left {:?} right {:?}", dl, dr)));
        }
    }
    if let Some(p) = &o.program {
        // Source path: the program ran to its end and its value is the result
        if o.wrapped {
            let want = if mode == DeferMode::Accept { V::Type(T::Number) } else { V::Type(T::Unit) };
            return match p {
                Err(m) => Some(("program-has-no-result".into(), m.clone())),
                Ok(v) if *v != want => Some(("next-instruction-saw-other-operand".into(), format!("following TypeOf produced {}", v.show()))),
                Ok(_) => None,
            };
        }
        return match p {
            Err(m) => Some(("program-has-no-result".into(), m.clone())),
            Ok(v) if mode == DeferMode::Accept && *v != V::Int(DEFER_SENTINEL) => Some(("accepted-result-not-used".into(), format!("result {} instead of the host's value", v.show()))),
            Ok(v) if mode != DeferMode::Accept && *v != V::Unit => Some((format!("expected-unit-got-{}", format!("{:?}", v.type_of()).to_lowercase()), format!("result {}", v.show()))),
            Ok(_) => None,
        };
    }
    // exactly one result on top of the untouched markers
    let want_len = o.markers.len() + 1;
    if o.regs_after.len() != want_len {
        let diff = o.regs_after.len() as i64 - want_len as i64;
        return Some((format!("operand-count-off-by[{:+}]", diff), format!("{} operands left, expected {}", o.regs_after.len(), want_len)));
    }
    let below: Vec<usize> = o.regs_after[1..].iter().rev().cloned().collect();
    if below != o.markers {
        return Some(("operands-below-disturbed".into(), format!("registers below the result are {:?}, were {:?}", below, o.markers)));
    }
    let top = o.top.clone().unwrap_or(V::Opaque("none".into()));
    if mode == DeferMode::Accept {
        if top != V::Int(DEFER_SENTINEL) {
            return Some(("accepted-result-not-used".into(), format!("result {} instead of the host's value", top.show())));
        }
    } else if top != V::Unit {
        return Some((format!("expected-unit-got-{}", format!("{:?}", top.type_of()).to_lowercase()), format!("result {}", top.show())));
    }
    // execution continues with the next instruction
    if !running || o.cursor_after != o.cursor_before + 1 {
        return Some(("execution-did-not-continue".into(), format!("running={} cursor {} -> {}", running, o.cursor_before, o.cursor_after)));
    }
    let want_next = if mode == DeferMode::Accept { V::Type(T::Number) } else { V::Type(T::Unit) };
    match &o.next {
        Some(Ok(v)) if *v == want_next => None,
        Some(Ok(v)) => Some(("next-instruction-saw-other-operand".into(), format!("following TypeOf produced {}", v.show()))),
        Some(Err(m)) => Some(("next-instruction-failed".into(), m.clone())),
        None => Some(("next-instruction-failed".into(), "not executed".into())),
    }
}

#[derive(Clone, Debug)]
enum Verdict {
    /// the implementation cannot represent an operand (e.g. Simple has no symbol list with a number part)
    Skipped(String),
    Pass,
    Fail(String, String),
}

/// One cell on one implementation.
fn cell<D: Sub8>(op: &OpK, l: &V, r: Option<&V>, mode: DeferMode, path: Path, layout: Layout) -> (Verdict, usize) {
    let lt = l.type_of();
    let rt = r.map(|r| effective_right(op, r)).unwrap_or(T::Unit);
    let is_defined = defined_v(op, l, rt);
    let run = || if path.is_source() { observe_source::<D>(op, l, r, mode, path == Path::SourceNext) } else { observe::<D>(op, l, r, mode, path, layout) };
    match guard(run) {
        Err(p) => {
            // a panic in a defined cell is some other property's business
            if is_defined { (Verdict::Pass, 0) } else { (Verdict::Fail(format!("panic[{}]", panic_kind(&p)), p), 0) }
        }
        Ok(Err(h)) => (Verdict::Skipped(h), 0),
        Ok(Ok(o)) => {
            let n = o.defers.len();
            match judge(op, l, r, mode, &o) {
                None => (Verdict::Pass, n),
                Some((k, g)) => (Verdict::Fail(k, g), n),
            }
        }
    }
}

fn tname(t: T) -> String {
    format!("{:?}", t)
}

#[derive(Clone, Copy)]
struct OpElem {
    op: OpK,
    mode: DeferMode,
    path: Path,
    layout: Layout,
}

#[derive(Clone, Copy)]
struct Elem {
    group: usize,
    mode: DeferMode,
    path: Path,
    layout: Layout,
}

struct Group {
    name: &'static str,
    ops: Vec<OpK>,
}

/// Instructions that are thin wrappers around one shared routine form one group.
fn groups() -> Vec<Group> {
    let fam = |f: Fam| OPS.iter().cloned().filter(|o| o.fam == f).collect::<Vec<_>>();
    let mut out = vec![
        Group { name: "BinaryArithmetic*", ops: fam(Fam::Arith2) },
        Group { name: "UnaryArithmetic*", ops: fam(Fam::Arith1) },
        Group { name: "Make*Range", ops: fam(Fam::Range) },
    ];
    for o in OPS {
        if !matches!(o.fam, Fam::Arith2 | Fam::Arith1 | Fam::Range) {
            out.push(Group { name: "", ops: vec![*o] });
        }
    }
    out
}

fn elems(tier: Tier) -> Vec<Elem> {
    let variants: Vec<(Path, Layout)> = match tier {
        Tier::Quick => vec![(Path::Execute, Layout::Std), (Path::Source, Layout::Std)],
        Tier::Thorough => vec![(Path::Execute, Layout::Std), (Path::Execute, Layout::Bare), (Path::Execute, Layout::Deep), (Path::Direct, Layout::Std), (Path::Source, Layout::Std), (Path::SourceNext, Layout::Std)],
    };
    let gs = groups();
    let mut out = vec![];
    for (path, layout) in variants {
        for mode in MODES {
            for (gi, g) in gs.iter().enumerate() {
                if path.is_source() && source_form(&g.ops[0]).is_none() {
                    continue;
                }
                out.push(Elem { group: gi, mode, path, layout });
            }
        }
    }
    out
}

type FailMap = BTreeMap<(String, &'static str), BTreeMap<(String, String), (Value, u64)>>;

/// how the symbols used by the representatives print
fn legend() -> String {
    ["a", "b", "c", "zz", "k", "pad", ""].iter().map(|n| format!("{} = symbol `{}`", V::sym(n).show(), n)).collect::<Vec<_>>().join(", ")
}

fn detail(e: &OpElem, l: &V, r: Option<&V>, imp: &str, got: &str) -> Value {
    let lt = l.type_of();
    let rt = r.map(|r| effective_right(&e.op, r));
    let how = if e.path.is_source() {
        let f = source_form(&e.op).unwrap_or_default();
        format!("program `{}` on input $ = (left, right)", if e.path == Path::SourceNext { format!("# ({})", f) } else { f })
    } else {
        format!("{:?}, layout {}", e.path, e.layout.name())
    };
    let shown = match r {
        Some(r) => format!("{}: {} {:?} {}  [host {}, {}]", imp, l.show(), e.op.instr, r.show(), mode_name(e.mode), how),
        None => format!("{}: {:?} {}  [host {}, {}]", imp, e.op.instr, l.show(), mode_name(e.mode), how),
    };
    let expected = if defined_v(&e.op, l, rt.unwrap_or(T::Unit)) {
        "no UnsupportedOpTypes error escapes the instruction".to_string()
    } else {
        match e.mode {
            DeferMode::Accept => "Ok; exactly one defer_op call with this instruction and the operands in source order; the host's value (424242) is the single result; the next instruction runs".to_string(),
            DeferMode::Decline => "Ok; exactly one defer_op call with this instruction and the operands in source order; a single unit result; the next instruction runs".to_string(),
            DeferMode::Absent => "Ok; a single unit result; the next instruction runs".to_string(),
        }
    };
    json!({
        "op": e.op.name(), "l": l.show(), "r": r.map(|r| r.show()), "impl": imp, "mode": mode_name(e.mode),
        "path": format!("{:?}", e.path), "layout": e.layout.name(),
        "types": format!("({}{})", tname(lt), rt.map(|t| format!(", {}", tname(t))).unwrap_or_default()),
        "shown": shown, "expected": expected, "got": got, "legend": legend(),
    })
}

/// Turn the failing type combinations of one (operation, kind) into few canonical shapes
/// ("(every judged type combination)", "(List,*)", "(CharList,Symbol)", ...).
fn shapes(op: &OpK, universe: &BTreeSet<(String, String)>, failing: &BTreeMap<(String, String), (Value, u64)>) -> Vec<(String, Value, u64)> {
    let first = |keys: &Vec<&(String, String)>| -> (Value, u64) {
        let d = failing[keys[0]].0.clone();
        let n: u64 = keys.iter().map(|k| failing[*k].1).sum();
        (d, n)
    };
    let fmt = |l: &str, r: &str| if op.unary() { format!("({})", l) } else { format!("({},{})", l, r) };
    let mut out = vec![];
    let all: Vec<&(String, String)> = failing.keys().collect();
    if universe.len() > 1 && all.len() == universe.len() {
        let (d, n) = first(&all);
        out.push(("(every judged type combination)".to_string(), d, n));
        return out;
    }
    if universe.len() >= 10 && all.len() * 10 >= universe.len() * 9 {
        let (d, n) = first(&all);
        out.push(("(nearly every judged type combination)".to_string(), d, n));
        return out;
    }
    let mut rest: BTreeSet<(String, String)> = failing.keys().cloned().collect();
    if !op.unary() {
        // whole rows / columns
        let lefts: BTreeSet<String> = universe.iter().map(|p| p.0.clone()).collect();
        for l in &lefts {
            let row: Vec<&(String, String)> = universe.iter().filter(|p| &p.0 == l).collect();
            if row.len() > 1 && row.iter().all(|p| rest.contains(*p)) {
                let (d, n) = first(&row);
                out.push((fmt(l, "*"), d, n));
                for p in row {
                    rest.remove(p);
                }
            }
        }
        let rights: BTreeSet<String> = universe.iter().map(|p| p.1.clone()).collect();
        for r in &rights {
            let col: Vec<&(String, String)> = universe.iter().filter(|p| &p.1 == r).collect();
            let col_failing = col.iter().all(|p| failing.contains_key(*p));
            if col.len() > 1 && col_failing && col.iter().any(|p| rest.contains(*p)) {
                let (d, n) = first(&col);
                out.push((fmt("*", r), d, n));
                for p in col {
                    rest.remove(p);
                }
            }
        }
    }
    for p in &rest {
        let (d, n) = failing[p].clone();
        out.push((fmt(&p.0, &p.1), d, n));
    }
    if out.len() > 8 {
        let d = out[0].1.clone();
        let n: u64 = failing.values().map(|v| v.1).sum();
        let w = format!("(many type combinations, first {})", out[0].0);
        return vec![(w, d, n)];
    }
    out
}

struct Finding {
    kind: String,
    shape: String,
    imp: &'static str,
    detail: Value,
    n: u64,
}

fn run_op(tier: Tier, e: &OpElem, sample: bool, cx: &mut Ctx) -> Vec<Finding> {
    let lefts = reps(tier);
    let rights_v = rights(tier, &e.op);
    let rights: Vec<Option<&V>> = if e.op.unary() { vec![None] } else { rights_v.iter().map(Some).collect() };
    let mut fails: FailMap = BTreeMap::new();
    let mut undefined_universe: BTreeSet<(String, String)> = BTreeSet::new();
    let mut full_universe: BTreeSet<(String, String)> = BTreeSet::new();
    let (mut n_undef, mut n_def, mut n_defer, mut n_skip) = (0u64, 0u64, 0u64, 0u64);
    let mut skip_reasons: BTreeSet<String> = BTreeSet::new();
    for l in &lefts {
        for r in &rights {
            let lt = l.type_of();
            let rt = r.map(|r| effective_right(&e.op, r));
            let key = (tname(lt), rt.map(tname).unwrap_or_else(|| "-".into()));
            let is_defined = defined_v(&e.op, l, rt.unwrap_or(T::Unit));
            full_universe.insert(key.clone());
            if !is_defined {
                undefined_universe.insert(key.clone());
            }
            let (fs, ns) = cell::<SData>(&e.op, l, *r, e.mode, e.path, e.layout);
            let (fb, nb) = cell::<BData>(&e.op, l, *r, e.mode, e.path, e.layout);
            n_defer += (ns + nb) as u64;
            for (which, v) in [(0u8, &fs), (1u8, &fb)] {
                if matches!(v, Verdict::Skipped(_)) {
                    continue;
                }
                cx.eval();
                if is_defined {
                    n_def += 1;
                } else {
                    n_undef += 1;
                    cx.nontrivial((e.op.name(), l.show(), r.map(|r| r.show()), mode_name(e.mode), e.path as u8, e.layout as u8, which));
                }
            }
            let mut add = |kind: &str, imp: &'static str, label: &str, got: &str| {
                let ent = fails.entry((kind.to_string(), imp)).or_default().entry(key.clone()).or_insert_with(|| (detail(e, l, *r, label, got), 0));
                ent.1 += 1;
            };
            for v in [&fs, &fb] {
                if let Verdict::Skipped(why) = v {
                    n_skip += 1;
                    skip_reasons.insert(err_kind(why));
                }
            }
            match (&fs, &fb) {
                (Verdict::Fail(ks, gs), Verdict::Fail(kb, _)) if ks == kb => add(ks, "", "simple+basic", gs),
                // the other implementation could not hold the operand: no evidence that the failure is specific
                (Verdict::Fail(k, g), Verdict::Skipped(_)) => add(k, "", "simple", g),
                (Verdict::Skipped(_), Verdict::Fail(k, g)) => add(k, "", "basic", g),
                _ => {
                    if let Verdict::Fail(k, g) = &fs {
                        add(k, "/simple", "simple", g);
                    }
                    if let Verdict::Fail(k, g) = &fb {
                        add(k, "/basic", "basic", g);
                    }
                }
            }
        }
    }
    cx.count("cells_skipped_operand_unrepresentable", n_skip);
    for why in skip_reasons {
        cx.count(&format!("skip_reason[{}]", why), 1);
    }
    cx.count("undefined_cells", n_undef);
    cx.count("defined_cells", n_def);
    cx.count("defer_calls_observed", n_defer);
    if sample && e.mode != DeferMode::Absent && e.path == Path::Execute && e.layout == Layout::Std {
        cx.sample_at(3, || {
            // one judged cell written out
            let pick = lefts.iter().flat_map(|l| rights.iter().map(move |r| (l, *r))).filter(|(l, r)| !defined(&e.op, l.type_of(), r.map(|r| effective_right(&e.op, r)).unwrap_or(T::Unit))).nth(7);
            let case = match pick {
                Some((l, r)) => match guard(|| observe::<BData>(&e.op, l, r, e.mode, e.path, e.layout)) {
                    Ok(Ok(o)) => format!(
                        "e.g. basic: {} {:?} {} -> {:?}; defer_op calls {:?}; result {}; following TypeOf -> {}",
                        l.show(),
                        e.op.instr,
                        r.map(|r| r.show()).unwrap_or_default(),
                        o.res,
                        o.defers,
                        o.top.map(|v| v.show()).unwrap_or_default(),
                        o.next.map(|n| n.map(|v| v.show()).unwrap_or_else(|m| m)).unwrap_or_default()
                    ),
                    other => format!("e.g. {:?}", other.map(|_| ())),
                },
                None => "no undefined combination for this instruction".to_string(),
            };
            json!(format!(
                "{:?}, host {}: {} left x {} right representatives x 2 implementations, {} undefined type combinations judged; {}",
                e.op.instr,
                mode_name(e.mode),
                lefts.len(),
                rights.len(),
                undefined_universe.len(),
                case
            ))
        });
    }
    let mut out = vec![];
    for ((kind, imp), failing) in &fails {
        let universe = if kind == "err-unsupported-op-types" { &full_universe } else { &undefined_universe };
        for (shape, detail, n) in shapes(&e.op, universe, failing) {
            out.push(Finding { kind: kind.clone(), shape, imp, detail, n });
        }
    }
    out
}

/// One element = one group of instructions that share their code, whole operand matrix each. A failure that
/// every instruction of the group shows alike is reported once under the group's name.
fn run_elem(tier: Tier, e: &Elem, cx: &mut Ctx) {
    let gs = groups();
    let g = &gs[e.group];
    let mut found: BTreeMap<(String, String, &'static str), Vec<(String, Value, u64)>> = BTreeMap::new();
    for (k, op) in g.ops.iter().enumerate() {
        let oe = OpElem { op: *op, mode: e.mode, path: e.path, layout: e.layout };
        for f in run_op(tier, &oe, k == 0, cx) {
            found.entry((f.kind, f.shape, f.imp)).or_default().push((op.name(), f.detail, f.n));
        }
    }
    for ((kind, shape, imp), v) in found {
        let mut emit = |name: &str, mut d: Value, n: u64| {
            let witness = format!("{}{}{}", name, shape, imp);
            d["witness"] = json!(witness);
            d["kind"] = json!(kind);
            d["cells_failing_alike_in_this_element"] = json!(n);
            cx.violation(&kind, &witness, d);
        };
        if g.ops.len() > 1 && v.len() == g.ops.len() {
            let n = v.iter().map(|x| x.2).sum();
            emit(g.name, v[0].1.clone(), n);
        } else {
            for (name, d, n) in v {
                emit(&name, d, n);
            }
        }
    }
}

impl Property for C08 {
    fn id(&self) -> &'static str {
        "C08"
    }
    fn level(&self) -> &'static str {
        "exploration"
    }
    fn size(&self, tier: Tier) -> u64 {
        elems(tier).len() as u64
    }
    fn describe(&self, tier: Tier, idx: u64) -> String {
        match elems(tier).get(idx as usize) {
            Some(e) => {
                let g = &groups()[e.group];
                let names: Vec<String> = g.ops.iter().map(|o| o.name()).collect();
                format!("{} host={} {:?} layout={} (whole operand matrix)", names.join("|"), mode_name(e.mode), e.path, e.layout.name())
            }
            None => "out of range".into(),
        }
    }
    fn budget_ms(&self) -> u64 {
        // an element is a whole operand matrix (up to ~120 k cells, a few seconds of CPU on a busy machine)
        120_000
    }
    fn run(&self, tier: Tier, idx: u64, cx: &mut Ctx) {
        if let Some(e) = elems(tier).get(idx as usize) {
            run_elem(tier, e, cx);
        }
    }
    fn replay(&self, d: &Value, cx: &mut Ctx) {
        let op = match d["op"].as_str().and_then(OpK::from_name) {
            Some(o) => o,
            None => return,
        };
        let l = match d["l"].as_str().and_then(find_rep) {
            Some(v) => v,
            None => return,
        };
        let r = d["r"].as_str().and_then(find_rep);
        if r.is_none() != op.unary() {
            return;
        }
        let mode = mode_parse(d["mode"].as_str().unwrap_or(""));
        let path = match d["path"].as_str() {
            Some("Direct") => Path::Direct,
            Some("Source") => Path::Source,
            Some("SourceNext") => Path::SourceNext,
            _ => Path::Execute,
        };
        let layout = Layout::parse(d["layout"].as_str().unwrap_or(""));
        let e = OpElem { op, mode, path, layout };
        let imp = d["impl"].as_str().unwrap_or("simple+basic");
        let stored_witness = d["witness"].as_str().unwrap_or("").to_string();
        let mut found: Vec<(String, String, &'static str)> = vec![];
        if imp != "basic" {
            cx.eval();
            if let (Verdict::Fail(k, g), _) = cell::<SData>(&op, &l, r.as_ref(), mode, path, layout) {
                found.push((k, g, "simple"));
            }
        }
        if imp != "simple" {
            cx.eval();
            if let (Verdict::Fail(k, g), _) = cell::<BData>(&op, &l, r.as_ref(), mode, path, layout) {
                found.push((k, g, "basic"));
            }
        }
        for (k, g, which) in found {
            let mut dd = detail(&e, &l, r.as_ref(), which, &g);
            dd["witness"] = json!(stored_witness);
            dd["kind"] = json!(k);
            let w = if stored_witness.is_empty() { format!("{}{}", op.name(), dd["types"].as_str().unwrap_or("")) } else { stored_witness.clone() };
            cx.violation(&k, &w, dd);
        }
    }
    fn meta(&self, tier: Tier) -> Meta {
        let n = reps(tier).len();
        Meta {
            rule: format!(
                "every instruction that consumes one or two operands and carries no jump data ({} instructions: 12 binary arithmetic/bitwise, 3 unary, Access, 3 internal accessors, Apply, EmptyApply, ApplyType, 4 range constructors, Concat, MakePair, PartialApply, and the never-deferring Equal/NotEqual/TypeEqual/4 comparisons/Xor/Not/Tis/TypeOf/Resolve) x every ordered pair (single for unary) of {} representative values covering all 19 value types (empty, singleton, typical, nested; ApplyType additionally with a Type value for each of the 19 types and Custom on the right) x {{Simple, Basic}} x host {{absent, declining, accepting}}{}. A case is non-trivial when the oracle table says the language defines no result for the operand types (only those cells are judged beyond the escaping-error rule); distinct by (instruction, operands, implementation, host, path, layout).",
                OPS.len(),
                n,
                if tier == Tier::Thorough {
                    " x {execute_current_instruction with 3 operand-stack layouts, direct ops:: call, compiled program `($.0) <op> ($.1)` run to its end on the input (left, right), the same program wrapped as `# (...)`} (the two program forms for the 26 instructions that have an unambiguous operator spelling)"
                } else {
                    " x {execute_current_instruction, compiled program `($.0) <op> ($.1)` run to its end on the input (left, right)} (the program form for the 26 instructions that have an unambiguous operator spelling)"
                }
            ),
            assumptions: vec![
                "which operand type combinations have a defined result is taken from the listed match arms of the runtime (table `defined` in c08.rs, transcribed by hand); everything else - including every non-(Number, Number) pair of the four range constructors, and access of text / bytes / a range by symbol, which the implementation itself labels UnsupportedOpTypes - counts as 'the language defines no result'".into(),
                "an Err carrying ErrorType::UnsupportedOpTypes that escapes an instruction is reported wherever it occurs (also in cells the table lists as defined): the code is the implementation's own statement that the operand types have no defined result, and the property says execution does not fail then".into(),
                "defined cells are otherwise not judged (errors, panics and results there belong to C01/C07/C09/C11/C12/C16)".into(),
                "'both operands in source order' is checked by type tag and by value as read back through the address the host received; for ApplyType the right tag may be either Type or the type it names; for unary instructions (and EmptyApply) nothing is demanded of the placeholder that stands in for the missing right operand".into(),
                "'exactly one result is left': the operand stack holds exactly the untouched marker operands plus one value; the value stack and call frames are not inspected".into(),
                "'execution continues': the instruction returns Ok, the cursor moves to the following instruction, and that instruction (TypeOf) runs and sees the result".into(),
                "host absent = Simple data without any handler installed (library default), Basic data with a companion that declines without recording; only the result is judged there".into(),
                "And / Or / MakeList / Reapply / jumps / value-stack instructions are not part of the matrix (they take jump or count data and define a result for every operand); `~>` is not used in the program form because it names its operands in the opposite order".into(),
                "an operand one implementation cannot represent (Simple has no symbol list with a number part) is skipped for that implementation and counted under cells_skipped_operand_unrepresentable; the other implementation still runs the cell".into(),
                "signatures: kind = first failed clause of the statement; witness = instruction (or the group BinaryArithmetic* / UnaryArithmetic* / Make*Range when every instruction sharing that routine fails alike) + the failing operand type combinations compressed to every / nearly every (>= 90 %) / whole rows and columns / single pairs".into(),
            ],
            trusted_base: vec![
                "engine/src/props/c08.rs `defined` (the oracle table) and `judge`".into(),
                "engine/src/subj.rs recording host (host_defer) and engine/src/val.rs get/put bridge".into(),
            ],
            explanation: "bounded-exhaustive enumeration of the instruction x operand-type matrix on the real runtime with a recording host".into(),
        }
    }
}
