//! C14 - literals denote exactly what they spell.
//!
//! Bounded-exhaustive: every enumerated value (integer x radix, float, string, byte vector, symbol name) is
//! *spelled* by a total, implementation-independent spelling function in every literal form the language text
//! names, compiled as a one-literal program on both data implementations and read back through the trait
//! getters (`get_number`, `get_char_list_iter`/`_len`/`_item`, `get_byte_list_iter`/`_len`/`_item`) and the
//! symbol-name tables (`SimpleGarnishData::get_symbols`, `BasicGarnishData::get_symbol_string`).
//!
//! Two claims are judged:
//!   * denotation - every *demanded* spelling is accepted and evaluates to the value it spells; every *optional*
//!     spelling (a form the statement is silent about) may be rejected, but if it evaluates it must be right;
//!   * existence - every enumerated value has at least one spelling that evaluates back to it on both
//!     implementations.
//!
//! Failures are reduced to a minimal content (delta-debugging by removing characters / bytes while the same
//! failure kind persists) so that one defect produces a handful of signatures.

use crate::fw::{guard, panic_kind, Ctx, Meta, Property, Tier};
use crate::subj::{compile, run_to_end, start, BData, Call, Fail, Host, SData, Subject};
use crate::val::{get, V};
use garnish_lang_simple_data::SimpleNumber;
use garnish_lang_traits::GarnishDataType;
use serde_json::{json, Value};
use std::sync::OnceLock;

pub struct C14;

// ---------------------------------------------------------------------------------------------
// what a spelling is expected to denote

#[derive(Clone, Debug, PartialEq)]
enum Want {
    Int(i32),
    Float(f64),
    /// integer spelling beyond the i32 range: the nearest float, or rejection (statement silent)
    Big(f64),
    /// any of these character sequences (more than one only where the language text is ambiguous)
    Str(Vec<Vec<char>>),
    Bytes(Vec<Vec<u8>>),
    /// quote-form byte list whose content has non-ASCII characters: any known encoding per character
    BytesEnc(Vec<char>),
    /// symbol literal; acceptable names
    Sym(Vec<String>),
    /// identifier; acceptable names (observed through the symbol handed to the host's resolve)
    Ident(Vec<String>),
}

#[derive(Clone, Debug)]
struct Spelling {
    cat: &'static str,
    form: String,
    src: String,
    /// true: the statement / language text names this form, rejection is a violation
    demand: bool,
    want: Want,
}

fn chars_json(c: &[char]) -> Value {
    json!(c.iter().map(|x| *x as u32).collect::<Vec<u32>>())
}

fn chars_from(v: &Value) -> Vec<char> {
    v.as_array().map(|a| a.iter().filter_map(|x| x.as_u64().and_then(|u| char::from_u32(u as u32))).collect()).unwrap_or_default()
}

fn bytes_from(v: &Value) -> Vec<u8> {
    v.as_array().map(|a| a.iter().filter_map(|x| x.as_u64().map(|u| u as u8)).collect()).unwrap_or_default()
}

impl Want {
    fn to_json(&self) -> Value {
        match self {
            Want::Int(i) => json!({"t": "int", "v": i}),
            Want::Float(f) => json!({"t": "float", "bits": f.to_bits().to_string()}),
            Want::Big(f) => json!({"t": "big", "bits": f.to_bits().to_string()}),
            Want::Str(a) => json!({"t": "str", "alts": a.iter().map(|s| chars_json(s)).collect::<Vec<_>>()}),
            Want::Bytes(a) => json!({"t": "bytes", "alts": a}),
            Want::BytesEnc(c) => json!({"t": "bytes-enc", "chars": chars_json(c)}),
            Want::Sym(n) => json!({"t": "sym", "names": n}),
            Want::Ident(n) => json!({"t": "ident", "names": n}),
        }
    }
    fn from_json(v: &Value) -> Option<Want> {
        let bits = |v: &Value| v["bits"].as_str().and_then(|s| s.parse::<u64>().ok()).map(f64::from_bits);
        let names = |v: &Value| v["names"].as_array().map(|a| a.iter().filter_map(|x| x.as_str().map(|s| s.to_string())).collect::<Vec<_>>());
        Some(match v["t"].as_str()? {
            "int" => Want::Int(v["v"].as_i64()? as i32),
            "float" => Want::Float(bits(v)?),
            "big" => Want::Big(bits(v)?),
            "str" => Want::Str(v["alts"].as_array()?.iter().map(chars_from).collect()),
            "bytes" => Want::Bytes(v["alts"].as_array()?.iter().map(bytes_from).collect()),
            "bytes-enc" => Want::BytesEnc(chars_from(&v["chars"])),
            "sym" => Want::Sym(names(v)?),
            "ident" => Want::Ident(names(v)?),
            _ => return None,
        })
    }
    fn show(&self) -> String {
        match self {
            Want::Int(i) => format!("integer {}", i),
            Want::Float(f) => format!("float {:?}", f),
            Want::Big(f) => format!("float {:?} (or rejection)", f),
            Want::Str(a) => a.iter().map(|s| format!("{:?}", s.iter().collect::<String>())).collect::<Vec<_>>().join(" or "),
            Want::Bytes(a) => a.iter().map(|s| format!("bytes{:?}", s)).collect::<Vec<_>>().join(" or "),
            Want::BytesEnc(c) => format!("the bytes of some encoding of {:?}, nothing else", c.iter().collect::<String>()),
            Want::Sym(n) => format!("a symbol whose recorded name is {}", n.iter().map(|x| format!("{:?}", x)).collect::<Vec<_>>().join(" or ")),
            Want::Ident(n) => format!("an identifier whose recorded name is {}", n.iter().map(|x| format!("{:?}", x)).collect::<Vec<_>>().join(" or ")),
        }
    }
}

impl Spelling {
    fn to_json(&self) -> Value {
        json!({"cat": self.cat, "form": self.form, "src": self.src, "demand": self.demand, "want": self.want.to_json()})
    }
    fn from_json(v: &Value) -> Option<Spelling> {
        let cat = match v["cat"].as_str()? {
            "number" => "number",
            "charlist" => "charlist",
            "bytelist" => "bytelist",
            "symbol" => "symbol",
            "identifier" => "identifier",
            "negated" => "negated",
            _ => return None,
        };
        Some(Spelling { cat, form: v["form"].as_str()?.to_string(), src: v["src"].as_str()?.to_string(), demand: v["demand"].as_bool()?, want: Want::from_json(&v["want"])? })
    }
}

// ---------------------------------------------------------------------------------------------
// observation: run a one-literal program and read the value back

trait Names {
    fn name_of(&self, sym: u64) -> Result<Option<String>, String>;
}

impl Names for SData {
    fn name_of(&self, sym: u64) -> Result<Option<String>, String> {
        Ok(self.get_symbols().get(&sym).cloned())
    }
}

impl Names for BData {
    fn name_of(&self, sym: u64) -> Result<Option<String>, String> {
        self.get_symbol_string(sym).map_err(|e| crate::val::short_err(&e))
    }
}

#[derive(Clone, Debug)]
enum NameObs {
    NotApplicable,
    NoSymbol,
    Found(String),
    Missing,
    Err(String),
    Panic(String),
}

#[derive(Clone, Debug)]
enum Obs {
    Fail(Fail),
    Val {
        v: V,
        /// get_*_len of a char / byte list
        len: Option<Result<usize, String>>,
        /// first index at which get_*_item disagrees with the iterator (shown), if any
        item_mismatch: Option<String>,
        name: NameObs,
    },
}

fn observe<D: Subject + Names>(sp: &Spelling) -> Obs {
    let want_ident = matches!(sp.want, Want::Ident(_));
    let r = guard(|| -> Result<Obs, Fail> {
        let host = Host { record_resolve: true, ..Host::default() };
        let mut d = D::fresh(host);
        let (_, bd) = compile(&sp.src, &mut d)?;
        start(&mut d, *bd.jump_index(), &V::Unit)?;
        run_to_end(&mut d, 256)?;
        let addr = d.get_current_value().ok_or(Fail::NoValue)?;
        let v = get(&d, addr);
        let mut len = None;
        let mut item_mismatch = None;
        match &v {
            V::Str(s) => {
                len = Some(d.get_char_list_len(addr).map_err(|e| crate::val::short_err(&e)));
                for (i, c) in s.iter().enumerate() {
                    match d.get_char_list_item(addr, SimpleNumber::Integer(i as i32)) {
                        Ok(Some(x)) if x == *c => {}
                        other => {
                            item_mismatch = Some(format!("item {}: iterator gave {:?}, get_char_list_item gave {:?}", i, c, other.map_err(|e| crate::val::short_err(&e))));
                            break;
                        }
                    }
                }
            }
            V::Bytes(s) => {
                len = Some(d.get_byte_list_len(addr).map_err(|e| crate::val::short_err(&e)));
                for (i, c) in s.iter().enumerate() {
                    match d.get_byte_list_item(addr, SimpleNumber::Integer(i as i32)) {
                        Ok(Some(x)) if x == *c => {}
                        other => {
                            item_mismatch = Some(format!("item {}: iterator gave {:?}, get_byte_list_item gave {:?}", i, c, other.map_err(|e| crate::val::short_err(&e))));
                            break;
                        }
                    }
                }
            }
            _ => {}
        }
        let sym = if want_ident {
            d.host().log.iter().find_map(|c| match c {
                Call::Resolve(s) => Some(*s),
                _ => None,
            })
        } else {
            match &v {
                V::Sym(s) => Some(*s),
                _ => None,
            }
        };
        let name = match (&sp.want, sym) {
            (Want::Sym(_), Some(s)) | (Want::Ident(_), Some(s)) => match guard(|| d.name_of(s)) {
                Err(p) => NameObs::Panic(p),
                Ok(Err(e)) => NameObs::Err(e),
                Ok(Ok(None)) => NameObs::Missing,
                Ok(Ok(Some(n))) => NameObs::Found(n),
            },
            (Want::Sym(_), None) | (Want::Ident(_), None) => NameObs::NoSymbol,
            _ => NameObs::NotApplicable,
        };
        Ok(Obs::Val { v, len, item_mismatch, name })
    });
    match r {
        Err(p) => Obs::Fail(Fail::Panic("observe".into(), p)),
        Ok(Err(f)) => Obs::Fail(f),
        Ok(Ok(o)) => o,
    }
}

// ---------------------------------------------------------------------------------------------
// judgement

#[derive(Clone, Debug, PartialEq)]
enum Verdict {
    /// accepted and evaluated to the denoted value
    Good,
    /// rejected / not observable, and the statement does not demand otherwise
    Tolerated(&'static str),
    /// `value_ok`: the value read through the iterator is the denoted one (only a length / item getter disagrees)
    Bad { kind: String, got: String, value_ok: bool },
}

impl Verdict {
    /// the program evaluated back to the denoted value (what the existence claim asks for)
    fn value_ok(&self) -> bool {
        matches!(self, Verdict::Good | Verdict::Bad { value_ok: true, .. })
    }
}

/// first line of a panic / error message (messages of DataError carry a backtrace), numbers normalised,
/// with the `@ file:line` tail kept
fn short_msg(m: &str) -> String {
    let tail = m.rfind(" @ ").map(|p| &m[p..]).unwrap_or("");
    let head_end = m.rfind(" @ ").unwrap_or(m.len());
    let first: String = m[..head_end].lines().next().unwrap_or("").chars().take(64).collect();
    let norm = panic_kind(&first);
    format!("{}{}", norm.trim_end(), tail)
}

fn fail_kind(f: &Fail) -> String {
    match f {
        Fail::Panic(stage, m) => format!("panic-{}[{}]", stage, short_msg(m)),
        Fail::Run(m) => format!("run-err[{}]", short_msg(&m.chars().take(60).collect::<String>())),
        other => other.kind(),
    }
}

fn type_name(v: &V) -> String {
    format!("{:?}", v.type_of()).to_lowercase()
}

fn utf16(c: char) -> Vec<u16> {
    let mut b = [0u16; 2];
    c.encode_utf16(&mut b).to_vec()
}

/// the byte sequences a reader of the (silent) language text could take a non-ASCII character to mean
fn encodings(c: char) -> Vec<Vec<u8>> {
    if (c as u32) < 128 {
        return vec![vec![c as u8]];
    }
    let mut out: Vec<Vec<u8>> = vec![];
    let mut b = [0u8; 4];
    out.push(c.encode_utf8(&mut b).as_bytes().to_vec());
    out.push(vec![c as u32 as u8]); // truncation to the low byte (Latin-1 for U+0080..U+00FF)
    out.push(vec![b'?']);
    out.push(utf16(c).iter().flat_map(|u| u.to_le_bytes()).collect());
    out.push(utf16(c).iter().flat_map(|u| u.to_be_bytes()).collect());
    out.push((c as u32).to_le_bytes().to_vec());
    out.push((c as u32).to_be_bytes().to_vec());
    out.sort();
    out.dedup();
    out
}

fn enc_match(chars: &[char], bytes: &[u8]) -> bool {
    match chars.split_first() {
        None => bytes.is_empty(),
        Some((c, rest)) => encodings(*c).iter().any(|e| bytes.starts_with(e) && enc_match(rest, &bytes[e.len()..])),
    }
}

fn seq_kind<T: PartialEq + Copy>(alts: &[Vec<T>], got: &[T], quote: T) -> String {
    let rank = |want: &[T]| -> usize {
        if got.len() > want.len() && got.starts_with(want) && got[want.len()..].iter().all(|x| *x == quote) {
            0
        } else if got.len() < want.len() && want.starts_with(got) {
            1
        } else if got.len() == want.len() {
            2
        } else {
            3
        }
    };
    let best = alts.iter().map(|a| rank(a)).min().unwrap_or(3);
    ["wrong-value[closing-quote-in-content]", "wrong-value[truncated]", "wrong-value[same-length]", "wrong-value"][best].to_string()
}

fn judge(sp: &Spelling, o: &Obs) -> Verdict {
    let bad = |kind: String, got: String| Verdict::Bad { kind, got, value_ok: false };
    let bad_getter = |kind: String, got: String| Verdict::Bad { kind, got, value_ok: true };
    match o {
        Obs::Fail(f) => {
            let is_panic = matches!(f, Fail::Panic(..));
            if matches!(sp.want, Want::Big(_)) && !is_panic {
                return Verdict::Tolerated("out-of-range integer rejected");
            }
            if !sp.demand {
                return Verdict::Tolerated(if is_panic { "optional form panicked (totality is C03's subject)" } else { "optional form rejected" });
            }
            let kind = if is_panic { fail_kind(f) } else { format!("rejected[{}]", fail_kind(f)) };
            let shown: String = format!("{:?}", f).lines().next().unwrap_or("").chars().take(200).collect();
            bad(kind, shown)
        }
        Obs::Val { v, len, item_mismatch, name } => {
            let got = v.show();
            match &sp.want {
                Want::Int(n) => match v {
                    V::Int(x) if x == n => Verdict::Good,
                    V::Int(_) => bad("wrong-value".into(), got),
                    V::Float(f) if *f == *n as f64 => bad("wrong-type[float-for-integer]".into(), got),
                    V::Float(_) => bad("wrong-value".into(), got),
                    _ => bad(format!("wrong-type[{}]", type_name(v)), got),
                },
                Want::Float(f) => match v {
                    V::Float(x) if x.to_bits() == f.to_bits() => Verdict::Good,
                    V::Float(_) => bad("wrong-value".into(), got),
                    V::Int(i) if *i as f64 == *f => bad("wrong-type[integer-for-float]".into(), got),
                    V::Int(_) => bad("wrong-value".into(), got),
                    _ => bad(format!("wrong-type[{}]", type_name(v)), got),
                },
                Want::Big(f) => match v {
                    V::Float(x) if x == f => Verdict::Good,
                    V::Float(_) | V::Int(_) => bad("wrong-value".into(), got),
                    _ => bad(format!("wrong-type[{}]", type_name(v)), got),
                },
                Want::Str(alts) => match v {
                    V::Str(s) => {
                        if !alts.iter().any(|a| a == s) {
                            return bad(seq_kind(alts, s, '"'), got);
                        }
                        match len {
                            Some(Ok(l)) if *l == s.len() => {}
                            Some(other) => return bad_getter("len-disagrees-with-iter".into(), format!("{} with get_char_list_len = {:?}", got, other)),
                            None => {}
                        }
                        if let Some(m) = item_mismatch {
                            return bad_getter("item-disagrees-with-iter".into(), m.clone());
                        }
                        Verdict::Good
                    }
                    _ => bad(format!("wrong-type[{}]", type_name(v)), got),
                },
                Want::Bytes(alts) => match v {
                    V::Bytes(s) => {
                        if !alts.iter().any(|a| a == s) {
                            return bad(seq_kind(alts, s, b'\''), got);
                        }
                        match len {
                            Some(Ok(l)) if *l == s.len() => {}
                            Some(other) => return bad_getter("len-disagrees-with-iter".into(), format!("{} with get_byte_list_len = {:?}", got, other)),
                            None => {}
                        }
                        if let Some(m) = item_mismatch {
                            return bad_getter("item-disagrees-with-iter".into(), m.clone());
                        }
                        Verdict::Good
                    }
                    _ => bad(format!("wrong-type[{}]", type_name(v)), got),
                },
                Want::BytesEnc(chars) => match v {
                    V::Bytes(s) => {
                        if enc_match(chars, s) {
                            Verdict::Good
                        } else {
                            bad("wrong-value[byte-outside-content]".into(), got)
                        }
                    }
                    _ => bad(format!("wrong-type[{}]", type_name(v)), got),
                },
                Want::Sym(names) | Want::Ident(names) => {
                    if let Want::Sym(_) = sp.want {
                        if !matches!(v, V::Sym(_)) {
                            return bad(format!("wrong-type[{}]", type_name(v)), got);
                        }
                    }
                    match name {
                        NameObs::Found(n) if names.iter().any(|x| x == n) => Verdict::Good,
                        NameObs::Found(n) => bad("name-changed".into(), format!("recorded name {:?}", n)),
                        NameObs::Missing => bad("name-lost".into(), "no name recorded for the symbol".into()),
                        NameObs::Err(e) => bad("name-lookup-err".into(), e.clone()),
                        NameObs::Panic(p) => bad(format!("name-lookup-panic[{}]", short_msg(p)), short_msg(p)),
                        NameObs::NoSymbol => Verdict::Tolerated("identifier was not handed to resolve (C17's subject)"),
                        NameObs::NotApplicable => Verdict::Tolerated("n/a"),
                    }
                }
            }
        }
    }
}

#[derive(Clone, Copy, PartialEq, Debug)]
enum Which {
    Both,
    Simple,
    Basic,
}

impl Which {
    fn name(self) -> &'static str {
        match self {
            Which::Both => "both",
            Which::Simple => "simple",
            Which::Basic => "basic",
        }
    }
    fn parse(s: &str) -> Which {
        match s {
            "simple" => Which::Simple,
            "basic" => Which::Basic,
            _ => Which::Both,
        }
    }
}

fn verdicts(sp: &Spelling) -> (Verdict, Verdict) {
    (judge(sp, &observe::<SData>(sp)), judge(sp, &observe::<BData>(sp)))
}

fn bad_kind(v: &Verdict) -> Option<&str> {
    match v {
        Verdict::Bad { kind, .. } => Some(kind),
        _ => None,
    }
}

/// failure family: the kind without its bracketed refinement (`rejected[lex-err]` -> `rejected`)
fn family(kind: &str) -> &str {
    kind.split('[').next().unwrap_or(kind)
}

/// the kind with which this spelling fails on the selected implementation(s) (the same on both for `Both`)
fn fail_kind_on(sp: &Spelling, which: Which) -> Option<String> {
    match which {
        Which::Simple => bad_kind(&judge(sp, &observe::<SData>(sp))).map(|s| s.to_string()),
        Which::Basic => bad_kind(&judge(sp, &observe::<BData>(sp))).map(|s| s.to_string()),
        Which::Both => {
            let (a, b) = verdicts(sp);
            match (bad_kind(&a), bad_kind(&b)) {
                (Some(x), Some(y)) if x == y => Some(x.to_string()),
                _ => None,
            }
        }
    }
}

/// does this spelling fail in the same family as `kind` on the selected implementation(s)?
fn fails_same(sp: &Spelling, which: Which, kind: &str) -> bool {
    fail_kind_on(sp, which).map(|k| family(&k) == family(kind)).unwrap_or(false)
}

fn shrink<T: Clone>(start: &[T], still: &dyn Fn(&[T]) -> bool) -> Vec<T> {
    let mut cur = start.to_vec();
    loop {
        let mut changed = false;
        for i in 0..cur.len() {
            let mut c = cur.clone();
            c.remove(i);
            if still(&c) {
                cur = c;
                changed = true;
                break;
            }
        }
        if !changed {
            return cur;
        }
    }
}

// ---------------------------------------------------------------------------------------------
// spelling functions (the trusted, implementation-independent part)

fn digit_char(d: u32, upper: bool) -> char {
    let c = std::char::from_digit(d, 36).unwrap();
    if upper { c.to_ascii_uppercase() } else { c }
}

fn digits_of(mut n: u32, radix: u32, upper: bool) -> Vec<char> {
    if n == 0 {
        return vec!['0'];
    }
    let mut out = vec![];
    while n > 0 {
        out.push(digit_char(n % radix, upper));
        n /= radix;
    }
    out.reverse();
    out
}

/// insert `_` into the gaps selected by `mask` (bit i = gap after digit i)
fn with_seps(digits: &[char], mask: u64) -> String {
    let mut s = String::new();
    for (i, c) in digits.iter().enumerate() {
        s.push(*c);
        if i + 1 < digits.len() && i < 64 && (mask >> i) & 1 == 1 {
            s.push('_');
        }
    }
    s
}

/// separator masks to try for a digit string of this length (0 excluded)
fn sep_masks(len: usize, all_up_to: usize) -> Vec<u64> {
    if len < 2 {
        return vec![];
    }
    let gaps = len - 1;
    if len <= all_up_to {
        (1..(1u64 << gaps)).collect()
    } else {
        let g = gaps.min(63);
        let every = if g >= 63 { u64::MAX >> 1 } else { (1u64 << g) - 1 };
        let mut thirds = 0u64;
        // every third digit from the right (the conventional thousands grouping)
        for i in 0..g {
            if (len - 1 - i) % 3 == 0 {
                thirds |= 1 << i;
            }
        }
        let mut v = vec![every, 1, 1u64 << (g - 1), thirds];
        v.retain(|m| *m != 0);
        v.sort();
        v.dedup();
        v
    }
}

fn float_text(f: f64) -> String {
    // Display never uses an exponent and prints the shortest digit string that round-trips
    let s = format!("{}", f);
    if s.contains('.') { s } else { format!("{}.0", s) }
}

fn spell_num(form: &str, src: String, demand: bool, want: Want) -> Spelling {
    Spelling { cat: "number", form: form.to_string(), src, demand, want }
}

#[derive(Clone, Copy, PartialEq, Debug)]
enum StrForm {
    /// "..." with every special character escaped (`\"` for the quote)
    Q1Esc,
    /// "..." with the quote written as \u{22}
    Q1Uni,
    /// "..." with the quote and every non-ASCII character written as \u{hex}
    Q1UniAll,
    /// "..." with newline / tab written raw (the language text says they are skipped; the statement says kept)
    Q1Raw,
    /// n >= 3 quotes, newline / tab / quote raw
    QnRaw(usize),
    /// n >= 3 quotes, newline / tab escaped
    QnEsc(usize),
}

impl StrForm {
    fn name(self) -> String {
        match self {
            StrForm::Q1Esc => "q1-esc".into(),
            StrForm::Q1Uni => "q1-uni".into(),
            StrForm::Q1UniAll => "q1-uniall".into(),
            StrForm::Q1Raw => "q1-raw".into(),
            StrForm::QnRaw(n) => format!("q{}-raw", n),
            StrForm::QnEsc(n) => format!("q{}-esc", n),
        }
    }
    fn quotes(self) -> usize {
        match self {
            StrForm::QnRaw(n) | StrForm::QnEsc(n) => n,
            _ => 1,
        }
    }
    fn qclass(self) -> String {
        match self.quotes() {
            1 => "q1".into(),
            3 => "q3".into(),
            _ => "q4+".into(),
        }
    }
}

fn max_run<T: PartialEq>(s: &[T], q: &T) -> usize {
    let mut best = 0;
    let mut cur = 0;
    for c in s {
        if c == q {
            cur += 1;
            best = best.max(cur);
        } else {
            cur = 0;
        }
    }
    best
}

/// Build the spelling of `content` in `form`; None when the form cannot hold the content.
fn spell_str(form: StrForm, content: &[char]) -> Option<Spelling> {
    let mut body = String::new();
    let mut alts = vec![content.to_vec()];
    let mut demand = true;
    match form {
        StrForm::Q1Esc | StrForm::Q1Uni | StrForm::Q1UniAll | StrForm::Q1Raw => {
            if form == StrForm::Q1Raw && content.contains(&'"') {
                return None; // one feature per form: quotes are exercised by the other forms
            }
            for c in content {
                match *c {
                    '\n' if form != StrForm::Q1Raw => body.push_str("\\n"),
                    '\t' if form != StrForm::Q1Raw => body.push_str("\\t"),
                    '\r' => body.push_str("\\r"),
                    '\0' => body.push_str("\\0"),
                    '\\' => body.push_str("\\\\"),
                    '"' if form == StrForm::Q1Uni || form == StrForm::Q1UniAll => body.push_str("\\u{22}"),
                    '"' => body.push_str("\\\""),
                    c if form == StrForm::Q1UniAll && !c.is_ascii() => body.push_str(&format!("\\u{{{:X}}}", c as u32)),
                    c => body.push(c),
                }
            }
            if form == StrForm::Q1Raw {
                let stripped: Vec<char> = content.iter().cloned().filter(|c| *c != '\n' && *c != '\t').collect();
                if stripped != content {
                    alts.push(stripped);
                }
            }
            if form == StrForm::Q1Uni || form == StrForm::Q1UniAll {
                // the language text lists \u{..}; the statement does not name it - used for the existence claim
                demand = false;
            }
            Some(Spelling { cat: "charlist", form: form.name(), src: format!("\"{}\"", body), demand, want: Want::Str(alts) })
        }
        StrForm::QnRaw(n) | StrForm::QnEsc(n) => {
            if n < 3 || content.is_empty() || content[0] == '"' || content[content.len() - 1] == '"' || max_run(content, &'"') >= n {
                return None;
            }
            let esc = matches!(form, StrForm::QnEsc(_));
            for c in content {
                match *c {
                    '\n' if esc => body.push_str("\\n"),
                    '\t' if esc => body.push_str("\\t"),
                    '\r' => body.push_str("\\r"),
                    '\0' => body.push_str("\\0"),
                    '\\' => body.push_str("\\\\"),
                    c => body.push(c),
                }
            }
            let q = "\"".repeat(n);
            Some(Spelling { cat: "charlist", form: form.name(), src: format!("{}{}{}", q, body, q), demand, want: Want::Str(alts) })
        }
    }
}

fn has_ws(content: &[char]) -> bool {
    content.iter().any(|c| *c == '\n' || *c == '\t')
}

/// forms enumerated for a string (forms that would duplicate another one are left out)
fn str_forms(tier: Tier, content: &[char]) -> Vec<StrForm> {
    let mut v = vec![StrForm::Q1Esc];
    if content.contains(&'"') {
        v.push(StrForm::Q1Uni);
    }
    if content.iter().any(|c| !c.is_ascii()) {
        v.push(StrForm::Q1UniAll);
    }
    if has_ws(content) && !content.contains(&'"') {
        v.push(StrForm::Q1Raw);
    }
    let ns: &[usize] = tier.pick(&[3, 4], &[3, 4, 5, 7]);
    for n in ns {
        v.push(StrForm::QnRaw(*n));
        if has_ws(content) {
            v.push(StrForm::QnEsc(*n));
        }
    }
    v
}

fn class_str(content: &[char]) -> String {
    if content.is_empty() {
        return "empty".into();
    }
    let mut f = vec![];
    if content.iter().any(|c| !c.is_ascii()) {
        f.push("multibyte");
    }
    if content.contains(&'"') {
        f.push("quote");
    }
    if content.contains(&'\\') {
        f.push("backslash");
    }
    if has_ws(content) {
        f.push("newline-or-tab");
    }
    if content.iter().any(|c| *c == '\r' || *c == '\0') {
        f.push("cr-or-nul");
    }
    if f.is_empty() {
        f.push("plain");
    }
    f.join("+")
}

#[derive(Clone, Copy, PartialEq, Debug)]
enum NumStyle {
    Dec,
    Bin,
    Oct,
    Hex,
    DecSep,
}

#[derive(Clone, Copy, PartialEq, Debug)]
enum BForm {
    Q1Esc,
    Q1Raw,
    Num(usize, NumStyle),
}

impl BForm {
    fn name(self) -> String {
        match self {
            BForm::Q1Esc => "q1-esc".into(),
            BForm::Q1Raw => "q1-raw".into(),
            BForm::Num(n, s) => format!("num{}-{}", n, format!("{:?}", s).to_lowercase()),
        }
    }
    fn fclass(self) -> String {
        match self {
            BForm::Q1Esc | BForm::Q1Raw => "q1".into(),
            BForm::Num(_, NumStyle::Dec) => "numeric".into(),
            BForm::Num(_, s) => format!("numeric-{}", format!("{:?}", s).to_lowercase()),
        }
    }
}

fn spell_bytes(form: BForm, content: &[u8]) -> Option<Spelling> {
    match form {
        BForm::Q1Esc | BForm::Q1Raw => {
            if content.iter().any(|b| *b >= 128) || (form == BForm::Q1Raw && content.contains(&b'\'')) {
                return None;
            }
            let mut body = String::new();
            for b in content {
                match *b {
                    b'\n' if form != BForm::Q1Raw => body.push_str("\\n"),
                    b'\t' if form != BForm::Q1Raw => body.push_str("\\t"),
                    b'\r' => body.push_str("\\r"),
                    0 => body.push_str("\\0"),
                    b'\\' => body.push_str("\\\\"),
                    b'\'' => body.push_str("\\'"),
                    b => body.push(b as char),
                }
            }
            let mut alts = vec![content.to_vec()];
            if form == BForm::Q1Raw {
                let stripped: Vec<u8> = content.iter().cloned().filter(|c| *c != b'\n' && *c != b'\t').collect();
                if stripped != content {
                    alts.push(stripped);
                }
            }
            Some(Spelling { cat: "bytelist", form: form.name(), src: format!("'{}'", body), demand: true, want: Want::Bytes(alts) })
        }
        BForm::Num(n, style) => {
            if n < 3 || content.is_empty() {
                return None;
            }
            let items: Vec<String> = content
                .iter()
                .map(|b| match style {
                    NumStyle::Dec => format!("{}", b),
                    NumStyle::Bin => format!("02_{:b}", b),
                    NumStyle::Oct => format!("08_{:o}", b),
                    NumStyle::Hex => format!("016_{:X}", b),
                    NumStyle::DecSep => {
                        let d: Vec<char> = format!("{}", b).chars().collect();
                        if d.len() >= 2 { with_seps(&d, 1) } else { d.into_iter().collect() }
                    }
                })
                .collect();
            let q = "'".repeat(n);
            // hexadecimal items need letters inside a byte-list number: the language text is silent -> optional
            let demand = style != NumStyle::Hex;
            Some(Spelling { cat: "bytelist", form: form.name(), src: format!("{}{}{}", q, items.join(" "), q), demand, want: Want::Bytes(vec![content.to_vec()]) })
        }
    }
}

fn bytes_forms(tier: Tier, content: &[u8]) -> Vec<BForm> {
    let mut v = vec![];
    if content.iter().all(|b| *b < 128) {
        v.push(BForm::Q1Esc);
        if content.iter().any(|b| *b == b'\n' || *b == b'\t') && !content.contains(&b'\'') {
            v.push(BForm::Q1Raw);
        }
    }
    if !content.is_empty() {
        v.push(BForm::Num(3, NumStyle::Dec));
        v.push(BForm::Num(3, NumStyle::Bin));
        v.push(BForm::Num(3, NumStyle::Hex));
        if tier == Tier::Thorough {
            v.push(BForm::Num(3, NumStyle::Oct));
            v.push(BForm::Num(4, NumStyle::Dec));
            v.push(BForm::Num(6, NumStyle::Dec));
            if content.iter().any(|b| *b >= 10) {
                v.push(BForm::Num(3, NumStyle::DecSep));
            }
        }
    }
    v
}

fn class_bytes(content: &[u8]) -> String {
    if content.is_empty() {
        return "empty".into();
    }
    let mut f = vec![];
    if content.iter().any(|b| *b >= 128) {
        f.push("high");
    }
    if content.contains(&b'\'') {
        f.push("quote");
    }
    if content.contains(&b'\\') {
        f.push("backslash");
    }
    if content.iter().any(|b| *b == b'\n' || *b == b'\t') {
        f.push("newline-or-tab");
    }
    if content.iter().any(|b| (*b < 32 && *b != b'\n' && *b != b'\t') || *b == 127) {
        f.push("control");
    }
    if f.is_empty() {
        f.push("plain");
    }
    f.join("+")
}

fn spell_bytes_nonascii(content: &[char]) -> Spelling {
    let body: String = content.iter().collect();
    Spelling { cat: "bytelist", form: "q1-nonascii".into(), src: format!("'{}'", body), demand: false, want: Want::BytesEnc(content.to_vec()) }
}

fn is_ident_char(c: char) -> bool {
    c.is_alphanumeric() || c == '_' || c == ':'
}

fn name_alts(text: &str) -> Vec<String> {
    // the name as written, or with any number of leading / trailing ':' dropped (the implementation hashes the
    // trimmed text; which of the two is "the name" is not fixed by the statement)
    let mut v = vec![text.to_string()];
    let mut s = text;
    while let Some(r) = s.strip_prefix(':') {
        v.push(r.to_string());
        s = r;
    }
    let heads = v.clone();
    for h in heads {
        let mut t = h.as_str();
        while let Some(r) = t.strip_suffix(':') {
            v.push(r.to_string());
            t = r;
        }
    }
    v.sort();
    v.dedup();
    v.retain(|x| !x.is_empty());
    v
}

/// names every reading of the language accepts: a letter or '_' first, then letters, digits, '_', with at
/// least one letter or digit. Names with a leading digit, an inner / trailing ':' or only underscores are
/// enumerated as optional forms (may be rejected; must keep their name when accepted).
fn plain_name(name: &[char]) -> bool {
    !name.is_empty() && (name[0].is_alphabetic() || name[0] == '_') && !name.contains(&':') && name.iter().any(|c| c.is_alphanumeric())
}

/// `:name` - well-formed when name is non-empty, does not start with ':' and has identifier characters only
fn spell_symbol(name: &[char]) -> Option<Spelling> {
    if name.is_empty() || name[0] == ':' || !name.iter().all(|c| is_ident_char(*c)) {
        return None;
    }
    let text: String = name.iter().collect();
    Some(Spelling { cat: "symbol", form: "symbol".into(), src: format!(":{}", text), demand: plain_name(name), want: Want::Sym(name_alts(&text)) })
}

/// identifier - well-formed when it starts with a letter or '_' (and is not '_' alone)
fn spell_ident(name: &[char]) -> Option<Spelling> {
    if name.is_empty() || !(name[0].is_alphabetic() || name[0] == '_') || !name.iter().all(|c| is_ident_char(*c)) {
        return None;
    }
    if name.len() == 1 && name[0] == '_' {
        return None;
    }
    let text: String = name.iter().collect();
    Some(Spelling { cat: "identifier", form: "identifier".into(), src: text.clone(), demand: plain_name(name), want: Want::Ident(name_alts(&text)) })
}

fn class_name(name: &[char]) -> String {
    let mut f = vec![];
    if name.iter().any(|c| !c.is_ascii()) {
        f.push("multibyte");
    }
    if name.contains(&':') {
        f.push("colon");
    }
    if name.contains(&'_') {
        f.push("underscore");
    }
    if name.iter().any(|c| c.is_ascii_digit()) {
        f.push("digit");
    }
    if f.is_empty() {
        f.push("plain");
    }
    f.join("+")
}

// ---------------------------------------------------------------------------------------------
// reporting

struct Report<'a> {
    cx: &'a mut Ctx,
}

fn detail(sp: &Spelling, which: Which, witness: &str, got: &str, original: Option<&str>) -> Value {
    json!({
        "mode": "spelling",
        "impl": which.name(),
        "witness": witness,
        "spelling": sp.to_json(),
        "shown": format!("program {:?} ({} form {})", sp.src, sp.cat, sp.form),
        "expected": sp.want.show(),
        "got": got,
        "first_seen_as": original,
    })
}

/// outcome of one spelling on both implementations, already counted; returns the failures to report
struct CaseOut {
    /// evaluated back to the denoted value on both implementations
    good_both: bool,
    /// failed on some implementation without a violation being reported (optional form)
    silent: bool,
    /// (which, kind, got)
    fails: Vec<(Which, String, String)>,
}

fn run_case(cx: &mut Ctx, sp: &Spelling) -> CaseOut {
    let (a, b) = verdicts(sp);
    cx.eval();
    cx.eval();
    for (name, v) in [("simple", &a), ("basic", &b)] {
        match v {
            Verdict::Good => cx.nontrivial((sp.src.as_str(), name)),
            Verdict::Tolerated(_) => cx.count("tolerated_optional_rejections", 1),
            Verdict::Bad { .. } => {}
        }
    }
    let mut fails = vec![];
    match (&a, &b) {
        (Verdict::Bad { kind: ka, got: ga, .. }, Verdict::Bad { kind: kb, .. }) if ka == kb => fails.push((Which::Both, ka.clone(), ga.clone())),
        _ => {
            if let Verdict::Bad { kind, got, .. } = &a {
                fails.push((Which::Simple, kind.clone(), got.clone()));
            }
            if let Verdict::Bad { kind, got, .. } = &b {
                fails.push((Which::Basic, kind.clone(), got.clone()));
            }
        }
    }
    let silent = matches!(a, Verdict::Tolerated(_)) || matches!(b, Verdict::Tolerated(_));
    CaseOut { good_both: a.value_ok() && b.value_ok(), silent, fails }
}

impl<'a> Report<'a> {
    fn str_case(&mut self, form: StrForm, content: &[char]) -> Option<(bool, bool)> {
        let sp = spell_str(form, content)?;
        let out = run_case(self.cx, &sp);
        for (which, kind, _) in &out.fails {
            let min = shrink(content, &|c: &[char]| spell_str(form, c).map(|s| fails_same(&s, *which, kind)).unwrap_or(false));
            let msp = spell_str(form, &min).unwrap_or_else(|| sp.clone());
            let witness = format!("charlist/{}/{}/{}", form.qclass(), class_str(&min), which.name());
            let got = got_of(&msp, *which);
            let mkind = fail_kind_on(&msp, *which).unwrap_or_else(|| kind.clone());
            self.cx.violation(&mkind, &witness, detail(&msp, *which, &witness, &got, Some(&sp.src)));
        }
        Some((out.good_both, out.silent))
    }

    fn bytes_case(&mut self, form: BForm, content: &[u8]) -> Option<(bool, bool)> {
        let sp = spell_bytes(form, content)?;
        let out = run_case(self.cx, &sp);
        for (which, kind, _) in &out.fails {
            let min = shrink(content, &|c: &[u8]| spell_bytes(form, c).map(|s| fails_same(&s, *which, kind)).unwrap_or(false));
            let msp = spell_bytes(form, &min).unwrap_or_else(|| sp.clone());
            let witness = format!("bytelist/{}/{}/{}", form.fclass(), class_bytes(&min), which.name());
            let got = got_of(&msp, *which);
            let mkind = fail_kind_on(&msp, *which).unwrap_or_else(|| kind.clone());
            self.cx.violation(&mkind, &witness, detail(&msp, *which, &witness, &got, Some(&sp.src)));
        }
        Some((out.good_both, out.silent))
    }

    fn bytes_nonascii_case(&mut self, content: &[char]) {
        let sp = spell_bytes_nonascii(content);
        let out = run_case(self.cx, &sp);
        for (which, kind, _) in &out.fails {
            let min = shrink(content, &|c: &[char]| c.iter().any(|x| !x.is_ascii()) && fails_same(&spell_bytes_nonascii(c), *which, kind));
            let msp = spell_bytes_nonascii(&min);
            let witness = format!("bytelist/q1/non-ascii-character/{}", which.name());
            let got = got_of(&msp, *which);
            let mkind = fail_kind_on(&msp, *which).unwrap_or_else(|| kind.clone());
            self.cx.violation(&mkind, &witness, detail(&msp, *which, &witness, &got, Some(&sp.src)));
        }
    }

    fn name_case(&mut self, ident: bool, name: &[char]) {
        let mk = |n: &[char]| if ident { spell_ident(n) } else { spell_symbol(n) };
        let sp = match mk(name) {
            Some(s) => s,
            None => return,
        };
        let out = run_case(self.cx, &sp);
        for (which, kind, _) in &out.fails {
            let min = shrink(name, &|c: &[char]| mk(c).map(|s| fails_same(&s, *which, kind)).unwrap_or(false));
            let msp = mk(&min).unwrap_or_else(|| sp.clone());
            let witness = format!("{}/{}/{}", sp.cat, class_name(&min), which.name());
            let got = got_of(&msp, *which);
            let mkind = fail_kind_on(&msp, *which).unwrap_or_else(|| kind.clone());
            self.cx.violation(&mkind, &witness, detail(&msp, *which, &witness, &got, Some(&sp.src)));
        }
    }

    /// a number spelling; `base` = the same digits without separators / in the plain form (None for a base form)
    fn num_case(&mut self, sp: &Spelling, wclass: &str, base: Option<&Spelling>) -> bool {
        let out = run_case(self.cx, sp);
        for (which, kind, got) in &out.fails {
            if let Some(b) = base {
                // a separator form whose separator-free form fails too adds nothing: that one is reported itself
                let (x, y) = verdicts(b);
                let base_bad = match which {
                    Which::Simple => bad_kind(&x).is_some(),
                    Which::Basic => bad_kind(&y).is_some(),
                    Which::Both => bad_kind(&x).is_some() && bad_kind(&y).is_some(),
                };
                if base_bad {
                    self.cx.count("separator_failures_folded_into_base_form", 1);
                    continue;
                }
            }
            let witness = format!("number/{}/{}", wclass, which.name());
            self.cx.violation(kind, &witness, detail(sp, *which, &witness, got, None));
        }
        out.good_both
    }

    fn no_spelling(&mut self, cat: &str, class: &str, value: Value, shown: String, tried: Vec<String>) {
        let witness = format!("{}/{}", cat, class);
        self.cx.violation(
            "no-spelling",
            &witness,
            json!({"mode": "exists", "cat": cat, "witness": witness, "value": value, "shown": shown,
                   "expected": "at least one spelling that evaluates back to the value on both implementations",
                   "got": format!("none of {:?} does", tried)}),
        );
    }
}

fn got_of(sp: &Spelling, which: Which) -> String {
    let show = |v: Verdict| match v {
        Verdict::Bad { got, .. } => got,
        Verdict::Good => "the denoted value".to_string(),
        Verdict::Tolerated(t) => t.to_string(),
    };
    match which {
        Which::Simple => show(judge(sp, &observe::<SData>(sp))),
        Which::Basic => show(judge(sp, &observe::<BData>(sp))),
        Which::Both => {
            let (a, b) = verdicts(sp);
            let (a, b) = (show(a), show(b));
            if a == b { a } else { format!("simple: {} / basic: {}", a, b) }
        }
    }
}

// ---------------------------------------------------------------------------------------------
// per-value drivers

fn exists_str(tier: Tier, content: &[char]) -> (bool, Vec<String>) {
    let mut tried = vec![];
    for f in str_forms(tier, content) {
        if let Some(sp) = spell_str(f, content) {
            // only spellings whose denotation is unambiguous count for the existence claim
            if let Want::Str(a) = &sp.want {
                if a.len() != 1 {
                    continue;
                }
            }
            let (a, b) = verdicts(&sp);
            if a.value_ok() && b.value_ok() {
                return (true, tried);
            }
            tried.push(sp.src);
        }
    }
    (false, tried)
}

fn do_string(rp: &mut Report, tier: Tier, content: &[char]) {
    let mut any = false;
    let mut silent = false;
    let mut tried = 0;
    for f in str_forms(tier, content) {
        if let Some((good, quiet)) = rp.str_case(f, content) {
            if f == StrForm::Q1Raw {
                continue; // ambiguous denotation: does not count for the existence claim
            }
            tried += 1;
            any |= good;
            silent |= quiet;
        }
    }
    // when every spelling tried was a demanded one, each failure is already reported in its own right
    if !any && (silent || tried == 0) {
        let min = shrink(content, &|c: &[char]| !exists_str(tier, c).0);
        let (_, tried) = exists_str(tier, &min);
        rp.no_spelling("charlist", &class_str(&min), json!({"chars": chars_json(&min)}), format!("{:?}", min.iter().collect::<String>()), tried);
    }
}

fn exists_bytes(tier: Tier, content: &[u8]) -> (bool, Vec<String>) {
    let mut tried = vec![];
    for f in bytes_forms(tier, content) {
        if f == BForm::Q1Raw {
            continue;
        }
        if let Some(sp) = spell_bytes(f, content) {
            let (a, b) = verdicts(&sp);
            if a.value_ok() && b.value_ok() {
                return (true, tried);
            }
            tried.push(sp.src);
        }
    }
    (false, tried)
}

fn do_bytes(rp: &mut Report, tier: Tier, content: &[u8]) {
    let mut any = false;
    let mut silent = false;
    let mut tried = 0;
    for f in bytes_forms(tier, content) {
        if let Some((good, quiet)) = rp.bytes_case(f, content) {
            if f == BForm::Q1Raw {
                continue;
            }
            tried += 1;
            any |= good;
            silent |= quiet;
        }
    }
    if !any && (silent || tried == 0) {
        let min = shrink(content, &|c: &[u8]| !exists_bytes(tier, c).0);
        let (_, tried) = exists_bytes(tier, &min);
        rp.no_spelling("bytelist", &class_bytes(&min), json!({"bytes": min}), format!("bytes{:?}", min), tried);
    }
}

/// all spellings of non-negative `n` in radix `r` (2..=36)
fn do_int_radix(rp: &mut Report, tier: Tier, r: u32, n: u32) {
    let all_up_to = tier.pick(5, 7);
    let lower = digits_of(n, r, false);
    let upper = digits_of(n, r, true);
    let cases: Vec<Vec<char>> = if lower == upper { vec![upper] } else { vec![upper, lower] };
    for (ci, digits) in cases.iter().enumerate() {
        let base = spell_num("radix", format!("0{}_{}", r, with_seps(digits, 0)), true, Want::Int(n as i32));
        rp.num_case(&base, &format!("radix/R={}", r), None);
        if ci == 1 && tier == Tier::Quick {
            continue; // lower-case digits with separators: thorough tier only
        }
        for m in sep_masks(digits.len(), all_up_to) {
            let sp = spell_num("radix-sep", format!("0{}_{}", r, with_seps(digits, m)), true, Want::Int(n as i32));
            rp.num_case(&sp, "radix-sep", Some(&base));
        }
    }
}

fn do_int_decimal(rp: &mut Report, tier: Tier, n: u32) {
    let all_up_to = tier.pick(5, 7);
    let digits = digits_of(n, 10, false);
    let base = spell_num("decimal", with_seps(&digits, 0), true, Want::Int(n as i32));
    // (the existence claim for a non-negative integer is met by its decimal spelling, a demanded form whose
    // failure is reported in its own right)
    rp.num_case(&base, "decimal", None);
    for m in sep_masks(digits.len(), all_up_to) {
        let sp = spell_num("decimal-sep", with_seps(&digits, m), true, Want::Int(n as i32));
        rp.num_case(&sp, "decimal-sep", Some(&base));
    }
}

fn do_big_int(rp: &mut Report, text: &str) {
    let f: f64 = text.parse().unwrap_or(f64::NAN);
    let sp = spell_num("decimal-out-of-range", text.to_string(), false, Want::Big(f));
    rp.num_case(&sp, "decimal-out-of-range", None);
}

fn do_float(rp: &mut Report, tier: Tier, f: f64) {
    let text = float_text(f);
    let base = spell_num("fraction", text.clone(), true, Want::Float(f));
    // (existence for a finite non-negative float = this demanded spelling; its failure is reported as such)
    rp.num_case(&base, "fraction", None);
    // a trailing zero does not change the number spelled
    let tz = spell_num("fraction-trailing-zero", format!("{}0", text), true, Want::Float(f));
    rp.num_case(&tz, "fraction-trailing-zero", Some(&base));
    let (ip, fp) = text.split_once('.').unwrap_or((&text, "0"));
    let ipd: Vec<char> = ip.chars().collect();
    let fpd: Vec<char> = fp.chars().collect();
    if !text.starts_with('0') {
        // separators (a spelling that starts with 0 and has an underscore would read as a radix prefix)
        let mut variants: Vec<String> = vec![];
        if ipd.len() >= 2 {
            variants.push(format!("{}.{}", with_seps(&ipd, 1), fp));
            if ipd.len() <= 64 {
                variants.push(format!("{}.{}", with_seps(&ipd, u64::MAX), fp));
            }
        }
        if fpd.len() >= 2 {
            variants.push(format!("{}.{}", ip, with_seps(&fpd, 1)));
            if ipd.len() >= 2 {
                variants.push(format!("{}.{}", with_seps(&ipd, 1u64 << (ipd.len().min(63) - 2)), with_seps(&fpd, 1u64 << (fpd.len().min(63) - 2))));
            }
        }
        if tier == Tier::Thorough && fpd.len() >= 3 && fpd.len() <= 64 {
            variants.push(format!("{}.{}", ip, with_seps(&fpd, u64::MAX)));
        }
        variants.sort();
        variants.dedup();
        for v in variants {
            let sp = spell_num("fraction-sep", v, true, Want::Float(f));
            rp.num_case(&sp, "fraction-sep", Some(&base));
        }
    } else if ip == "0" {
        // `.5` - the lexer documents it; the statement does not name it: optional
        let sp = spell_num("fraction-leading-dot", format!(".{}", fp), false, Want::Float(f));
        rp.num_case(&sp, "fraction-leading-dot", None);
    }
}

fn neg_spellings_int(n: i64) -> Vec<Spelling> {
    let want = Want::Int(n as i32);
    let mk = |src: String| Spelling { cat: "negated", form: "negated".into(), src, demand: false, want: want.clone() };
    if n == i32::MIN as i64 {
        vec![mk("--2147483647 - 1".into()), mk("0 - 2147483647 - 1".into())]
    } else {
        vec![mk(format!("--{}", -n)), mk(format!("0 - {}", -n))]
    }
}

fn neg_spellings_float(f: f64) -> Vec<Spelling> {
    let want = Want::Float(f);
    let t = float_text(-f);
    let mk = |src: String| Spelling { cat: "negated", form: "negated".into(), src, demand: false, want: want.clone() };
    vec![mk(format!("--{}", t)), mk(format!("0.0 - {}", t))]
}

/// negative numbers have no literal; the existence claim is met by an expression over a literal
fn do_negative(rp: &mut Report, sps: Vec<Spelling>, class: &str, value: Value, shown: String) {
    let mut any = false;
    let mut tried = vec![];
    for sp in &sps {
        let out = run_case(rp.cx, sp);
        any |= out.good_both;
        tried.push(sp.src.clone());
    }
    if !any {
        rp.no_spelling("number", class, value, shown, tried);
    }
}

// ---------------------------------------------------------------------------------------------
// the enumerated domains

struct Layout {
    /// per radix 2..=36: the integers spelled in that radix
    radix_vals: Vec<Vec<u32>>,
    dec_vals: Vec<u32>,
    big: Vec<&'static str>,
    floats: Vec<f64>,
    neg_ints: Vec<i64>,
    neg_floats: Vec<f64>,
    /// (alphabet, max length) blocks of strings; a block skips what an earlier block already holds
    str_blocks: Vec<(Vec<char>, usize)>,
    byte_blocks: Vec<(Vec<u8>, usize)>,
    byte_na_alphabet: Vec<char>,
    byte_na_len: usize,
    name_alphabet: Vec<char>,
    name_len: usize,
    segs: Vec<(&'static str, u64)>,
    /// start offsets of each radix within the int-radix segment
    radix_offsets: Vec<u64>,
}

const MAXI: u32 = i32::MAX as u32;

fn int_values(tier: Tier, r: u32) -> Vec<u32> {
    let mut v: Vec<u64> = vec![0, 1, (r - 1) as u64, r as u64, (r + 1) as u64, MAXI as u64 - 1, MAXI as u64];
    let r64 = r as u64;
    v.extend([r64 * r64 - 1, r64 * r64, r64 * r64 + 1]);
    for k in 1..=30u32 {
        let p = 1u64 << k;
        v.extend([p - 1, p, p + 1]);
    }
    if tier == Tier::Thorough {
        let mut p = r64;
        while p <= MAXI as u64 {
            v.extend([p - 1, p, p + 1]);
            // also the largest digit repeated (R^k - 1 is that) and a mixed-digit value below the power
            v.push(p / 2 + 1);
            p *= r64;
        }
        for n in 0..=(r64 * r64 + r64) {
            v.push(n);
        }
        for k in 1..=9u32 {
            v.push(10u64.pow(k));
            v.push(10u64.pow(k) - 1);
        }
        v.extend([123456789, 987654321, 1234567, 305419896 /*0x12345678*/, 2023406814 /*0x789ABCDE*/]);
    } else {
        v.extend([123456, 305419896, 2023406814]);
    }
    v.retain(|x| *x <= MAXI as u64);
    v.sort();
    v.dedup();
    v.into_iter().map(|x| x as u32).collect()
}

fn dec_values(tier: Tier) -> Vec<u32> {
    let mut v: Vec<u64> = int_values(tier, 10).into_iter().map(|x| x as u64).collect();
    for k in 1..=9u32 {
        v.extend([10u64.pow(k) - 1, 10u64.pow(k), 10u64.pow(k) + 1]);
    }
    v.extend([12, 123, 1234, 12345, 123456, 1234567, 12345678, 123456789, 1000000, 2000000000]);
    if tier == Tier::Thorough {
        v.extend(0..=2000u64);
    } else {
        v.extend(0..=120u64);
    }
    v.retain(|x| *x <= MAXI as u64);
    v.sort();
    v.dedup();
    v.into_iter().map(|x| x as u32).collect()
}

fn float_values(tier: Tier) -> Vec<f64> {
    let mut v: Vec<f64> = vec![
        0.0,
        0.5,
        1.0,
        1.5,
        2.5,
        0.1,
        0.2,
        0.3,
        0.7,
        0.01,
        0.001,
        0.15,
        0.25,
        0.125,
        1.1,
        9.99,
        10.5,
        99.5,
        100.25,
        123.456,
        123456.789,
        1234.5678,
        3.141592653589793,
        2.718281828459045,
        1.0 / 3.0,
        2.0 / 3.0,
        0.1 + 0.2,
        f64::MAX,
        f64::MIN_POSITIVE,
        f64::from_bits(1),
        f64::from_bits(0x000f_ffff_ffff_ffff), // largest subnormal
        f64::EPSILON,
        1.0 + f64::EPSILON,
        1.0 - f64::EPSILON / 2.0,
        9007199254740992.0,
        9007199254740994.0,
        9007199254740991.0,
        2147483647.0,
        2147483648.0,
        2147483647.5,
        4294967296.0,
        4294967295.5,
        1e15 + 0.5,
        65535.0,
        65536.0,
        255.0,
        1e21,
        1e22,
        1e23,
        1e-5,
        1e-7,
        1e300,
        1e-300,
        1e308,
        1e-323,
        5e-324,
        1.7976931348623155e308,
    ];
    let (p2_step, p10_range) = if tier == Tier::Thorough { (1, 323) } else { (2, 22) };
    let mut k = -64i32;
    while k <= 64 {
        v.push(2f64.powi(k));
        k += p2_step;
    }
    for k in -p10_range..=p10_range.min(308) {
        // the float nearest to 10^k, obtained without the subject's parser
        let t = format!("1e{}", k);
        if let Ok(f) = t.parse::<f64>() {
            if f.is_finite() && f > 0.0 {
                v.push(f);
            }
        }
    }
    for k in 1..=9 {
        v.push(k as f64 / 10.0);
        v.push(k as f64 + 0.5);
    }
    for k in [1, 3, 7, 9, 11, 33, 77, 99] {
        v.push(k as f64 / 100.0);
    }
    if tier == Tier::Thorough {
        for k in -1074i64..=1023 {
            // 2^k built from its bit pattern
            v.push(if k >= -1022 { f64::from_bits(((k + 1023) as u64) << 52) } else { f64::from_bits(1u64 << (k + 1074)) });
        }
        for k in 1..1000 {
            v.push(k as f64 / 1000.0);
            v.push(k as f64 + k as f64 / 1000.0);
        }
        // mantissa patterns at several exponents
        for e in [1u64, 500, 1000, 1022, 1023, 1024, 1075, 1500, 2000, 2046] {
            for m in [0u64, 1, 2, 0x000f_ffff_ffff_ffff, 0x000f_ffff_ffff_fffe, 0x0008_0000_0000_0000, 0x0005_5555_5555_5555, 0x000a_aaaa_aaaa_aaaa, 0x0000_0000_ffff_ffff] {
                v.push(f64::from_bits((e << 52) | m));
            }
        }
    }
    v.retain(|f| f.is_finite() && *f >= 0.0);
    // canonical order, no duplicates
    let mut bits: Vec<u64> = v.iter().map(|f| f.to_bits()).collect();
    bits.sort();
    bits.dedup();
    bits.into_iter().map(f64::from_bits).collect()
}

fn pow_sum(a: usize, max_len: usize) -> u64 {
    (0..=max_len).map(|l| (a as u64).pow(l as u32)).sum()
}

/// index -> sequence over the alphabet, ordered by length then lexicographically
fn decode_seq<T: Copy>(alphabet: &[T], mut idx: u64) -> Vec<T> {
    let a = alphabet.len() as u64;
    let mut len = 0u32;
    loop {
        let n = a.pow(len);
        if idx < n {
            break;
        }
        idx -= n;
        len += 1;
    }
    let mut out = vec![alphabet[0]; len as usize];
    for i in (0..len as usize).rev() {
        out[i] = alphabet[(idx % a) as usize];
        idx /= a;
    }
    out
}

fn build_layout(tier: Tier) -> Layout {
    let radix_vals: Vec<Vec<u32>> = (2..=36u32).map(|r| int_values(tier, r)).collect();
    let dec_vals = dec_values(tier);
    let floats = float_values(tier);
    let core: Vec<char> = vec!['a', ' ', '\n', '\t', '\\', '"', 'é', '€', '😀'];
    let ext: Vec<char> = vec!['a', ' ', '\n', '\t', '\\', '"', 'é', '€', '😀', '\r', '\0', '\'', 'n', 'u', '{', '}', '0', 'ß', '中'];
    let small: Vec<char> = vec!['a', '\\', '"', 'é', '😀'];
    let str_blocks = if tier == Tier::Thorough { vec![(core, 5), (ext, 3), (small, 7)] } else { vec![(core, 3), (ext, 2), (small, 4)] };
    let b8: Vec<u8> = vec![0, 10, 39, 92, 97, 127, 128, 255];
    let b_all: Vec<u8> = (0..=255u8).collect();
    let byte_blocks = if tier == Tier::Thorough { vec![(b8, 4), (b_all, 2)] } else { vec![(b8, 2), (b_all, 1), (vec![9, 13, 32, 34, 48, 95], 2)] };
    let neg_ints: Vec<i64> = {
        let mut v: Vec<i64> = vec![-1, -2, -9, -10, -255, -256, -65536, -1000000, -(i32::MAX as i64) + 1, -(i32::MAX as i64), i32::MIN as i64];
        if tier == Tier::Thorough {
            for k in 1..=30 {
                v.push(-(1i64 << k));
                v.push(-(1i64 << k) - 1);
            }
        }
        v.sort();
        v.dedup();
        v
    };
    let neg_floats = vec![-0.5, -1.5, -0.1, -123.456, -2147483648.5, -1e300, -f64::MAX, -f64::MIN_POSITIVE];
    let name_alphabet = vec!['a', '_', ':', 'é', '1'];
    let name_len = tier.pick(3, 5);
    let byte_na_alphabet = vec!['a', 'é', '€', '😀'];
    let byte_na_len = tier.pick(2, 3);
    let mut l = Layout {
        radix_vals,
        dec_vals,
        big: vec!["2147483648", "2147483649", "4294967295", "4294967296", "4294967297", "9999999999", "18446744073709551616"],
        floats,
        neg_ints,
        neg_floats,
        str_blocks,
        byte_blocks,
        byte_na_alphabet,
        byte_na_len,
        name_alphabet,
        name_len,
        segs: vec![],
        radix_offsets: vec![],
    };
    let mut off = 0u64;
    for v in &l.radix_vals {
        l.radix_offsets.push(off);
        off += v.len() as u64;
    }
    l.segs = vec![
        ("int-radix", off),
        ("int-decimal", l.dec_vals.len() as u64),
        ("int-out-of-range", l.big.len() as u64),
        ("float", l.floats.len() as u64),
        ("negative", (l.neg_ints.len() + l.neg_floats.len()) as u64),
        ("string", l.str_blocks.iter().map(|(a, n)| pow_sum(a.len(), *n)).sum()),
        ("bytes", l.byte_blocks.iter().map(|(a, n)| pow_sum(a.len(), *n)).sum()),
        ("bytes-non-ascii", pow_sum(l.byte_na_alphabet.len(), l.byte_na_len)),
        ("symbol", pow_sum(l.name_alphabet.len(), l.name_len)),
        ("identifier", pow_sum(l.name_alphabet.len(), l.name_len)),
        ("literal-pairs", pair_literals().len() as u64),
    ];
    l
}

/// DataError captures a std backtrace whenever RUST_BACKTRACE is set, and every formatted rejection then
/// resolves symbols (~1 s each). Diagnostics only - switched off for this process and its workers before the
/// first subject call (std caches the setting at the first capture).
fn quiet_backtraces() {
    static ONCE: OnceLock<()> = OnceLock::new();
    ONCE.get_or_init(|| {
        // SAFETY: called before any subject code runs; no other thread of this process reads the environment
        unsafe { std::env::set_var("RUST_LIB_BACKTRACE", "0") };
    });
}

fn layout(tier: Tier) -> &'static Layout {
    quiet_backtraces();
    static Q: OnceLock<Layout> = OnceLock::new();
    static T: OnceLock<Layout> = OnceLock::new();
    match tier {
        Tier::Quick => Q.get_or_init(|| build_layout(Tier::Quick)),
        Tier::Thorough => T.get_or_init(|| build_layout(Tier::Thorough)),
    }
}

fn locate(l: &Layout, mut idx: u64) -> (&'static str, u64) {
    for (n, c) in &l.segs {
        if idx < *c {
            return (n, idx);
        }
        idx -= c;
    }
    ("none", 0)
}

/// element of a multi-block sequence space; None when an earlier block already holds the sequence
fn block_seq<T: Copy + PartialEq>(blocks: &[(Vec<T>, usize)], mut i: u64) -> Option<Vec<T>> {
    for (bi, (a, n)) in blocks.iter().enumerate() {
        let sz = pow_sum(a.len(), *n);
        if i < sz {
            let s = decode_seq(a, i);
            for (pa, pn) in &blocks[..bi] {
                if s.len() <= *pn && s.iter().all(|c| pa.contains(c)) {
                    return None;
                }
            }
            return Some(s);
        }
        i -= sz;
    }
    None
}

fn radix_of(l: &Layout, i: u64) -> (u32, u32) {
    let mut ri = 0;
    for (k, off) in l.radix_offsets.iter().enumerate() {
        if i >= *off {
            ri = k;
        }
    }
    (ri as u32 + 2, l.radix_vals[ri][(i - l.radix_offsets[ri]) as usize])
}


// ---------------------------------------------------------------------------------------------
// literal pairs: what a literal denotes must not depend on the literal written before it. Every ordered pair of a
// small set of literals of every class as a two-item list (space and comma form); each item must read back as the
// value its spelling denotes alone.

fn pair_literals() -> Vec<(&'static str, V)> {
    vec![
        ("5", V::Int(5)),
        ("5.0", V::Float(5.0)),
        ("12.5", V::Float(12.5)),
        ("010_12", V::Int(12)),
        ("016_ff", V::Int(255)),
        ("\"ab\"", V::str("ab")),
        ("\"\"\"x\"\"\"", V::str("x")),
        ("\"a\\u{41}\"", V::str("aA")),
        ("\"\"", V::str("")),
        ("'c'", V::Bytes(vec![b'c'])),
        ("'xy'", V::Bytes(vec![b'x', b'y'])),
        ("'''7'''", V::Bytes(vec![7])),
        ("''", V::Bytes(vec![])),
        (":sym", V::sym("sym")),
        ("()", V::Unit),
        ("$?", V::True),
    ]
}

fn pair_program(ai: usize, bi: usize, comma: bool) -> (String, V) {
    let l = pair_literals();
    let src = if comma { format!("{}, {}", l[ai].0, l[bi].0) } else { format!("{} {}", l[ai].0, l[bi].0) };
    (src, V::List(vec![l[ai].1.clone(), l[bi].1.clone()]))
}

fn pair_verdict<D: Subject>(src: &str, want: &V) -> Option<(String, String)> {
    match crate::subj::run_program::<D>(src, &V::Unit, Host::none(), 200) {
        Ok(o) => {
            let same = match (&o.value, want) {
                (V::List(a), V::List(b)) if a.len() == b.len() => a.iter().zip(b.iter()).all(|(x, y)| {
                    x == y
                        && x.type_of() == y.type_of()
                        && !matches!((x, y), (V::Int(_), V::Float(_)) | (V::Float(_), V::Int(_)))
                }),
                _ => false,
            };
            if same { None } else { Some(("literal-in-a-pair-denotes-something-else".into(), o.value.show())) }
        }
        Err(f) => Some((format!("literal-pair-rejected[{}]", f.kind()), format!("{:?}", f))),
    }
}

fn run_pair_row(cx: &mut Ctx, ai: usize) {
    let n = pair_literals().len();
    for bi in 0..n {
        for comma in [false, true] {
            let (src, want) = pair_program(ai, bi, comma);
            for which in 0..2usize {
                cx.eval();
                let r = if which == 0 { pair_verdict::<SData>(&src, &want) } else { pair_verdict::<BData>(&src, &want) };
                match r {
                    None => cx.nontrivial((src.as_str(), which)),
                    Some((kind, got)) => {
                        let cls = |v: &V| format!("{:?}", v.type_of());
                        let l = pair_literals();
                        let imp = ["simple", "basic"][which];
                        cx.violation(&kind, &format!("pair/{}-then-{}/{}", cls(&l[ai].1), cls(&l[bi].1), imp), json!({"mode": "pair", "impl": which, "a": ai, "b": bi, "comma": comma, "src": src, "expected": want.show(), "got": got}));
                    }
                }
            }
        }
    }
}


impl Property for C14 {
    fn id(&self) -> &'static str {
        "C14"
    }
    fn level(&self) -> &'static str {
        "exploration"
    }
    fn size(&self, tier: Tier) -> u64 {
        layout(tier).segs.iter().map(|s| s.1).sum()
    }
    fn describe(&self, tier: Tier, idx: u64) -> String {
        let l = layout(tier);
        let (s, i) = locate(l, idx);
        match s {
            "int-radix" => {
                let (r, n) = radix_of(l, i);
                format!("int-radix R={} n={}", r, n)
            }
            "int-decimal" => format!("int-decimal n={}", l.dec_vals[i as usize]),
            "float" => format!("float {:?}", l.floats[i as usize]),
            "string" => format!("string {:?}", block_seq(&l.str_blocks, i).map(|s| s.into_iter().collect::<String>())),
            "bytes" => format!("bytes {:?}", block_seq(&l.byte_blocks, i)),
            "bytes-non-ascii" => format!("bytes-non-ascii {:?}", decode_seq(&l.byte_na_alphabet, i).into_iter().collect::<String>()),
            "symbol" | "identifier" => format!("{} {:?}", s, decode_seq(&l.name_alphabet, i).into_iter().collect::<String>()),
            _ => format!("{}#{}", s, i),
        }
    }
    fn run(&self, tier: Tier, idx: u64, cx: &mut Ctx) {
        let l = layout(tier);
        let (s, i) = locate(l, idx);
        let cur = cx.cur_idx;
        let mut rp = Report { cx };
        match s {
            "int-radix" => {
                let (r, n) = radix_of(l, i);
                do_int_radix(&mut rp, tier, r, n);
                if cur % 997 == 0 {
                    rp.cx.sample(json!(format!("0{}_{} and its separator placements = {}", r, digits_of(n, r, true).into_iter().collect::<String>(), n)));
                }
            }
            "int-decimal" => do_int_decimal(&mut rp, tier, l.dec_vals[i as usize]),
            "int-out-of-range" => do_big_int(&mut rp, l.big[i as usize]),
            "float" => {
                let f = l.floats[i as usize];
                do_float(&mut rp, tier, f);
                if cur % 41 == 0 {
                    rp.cx.sample(json!(format!("float literal {} = {:?}", float_text(f).chars().take(40).collect::<String>(), f)));
                }
            }
            "negative" => {
                let i = i as usize;
                if i < l.neg_ints.len() {
                    let n = l.neg_ints[i];
                    do_negative(&mut rp, neg_spellings_int(n), "negative-integer", json!({"int": n}), format!("{}", n));
                } else {
                    let f = l.neg_floats[i - l.neg_ints.len()];
                    do_negative(&mut rp, neg_spellings_float(f), "negative-float", json!({"bits": f.to_bits().to_string()}), format!("{:?}", f));
                }
            }
            "string" => {
                if let Some(c) = block_seq(&l.str_blocks, i) {
                    do_string(&mut rp, tier, &c);
                    if cur % 211 == 0 {
                        rp.cx.sample(json!(format!("string {:?} in forms {:?}", c.iter().collect::<String>(), str_forms(tier, &c).iter().filter(|f| spell_str(**f, &c).is_some()).map(|f| f.name()).collect::<Vec<_>>())));
                    }
                }
            }
            "bytes" => {
                if let Some(c) = block_seq(&l.byte_blocks, i) {
                    do_bytes(&mut rp, tier, &c);
                }
            }
            "bytes-non-ascii" => {
                let c = decode_seq(&l.byte_na_alphabet, i);
                if c.iter().any(|x| !x.is_ascii()) {
                    rp.bytes_nonascii_case(&c);
                }
            }
            "symbol" => rp.name_case(false, &decode_seq(&l.name_alphabet, i)),
            "identifier" => rp.name_case(true, &decode_seq(&l.name_alphabet, i)),
            "literal-pairs" => run_pair_row(rp.cx, i as usize),
            _ => {}
        }
    }
    fn replay(&self, d: &Value, cx: &mut Ctx) {
        quiet_backtraces();
        match d["mode"].as_str().unwrap_or("") {
            "pair" => {
                let (ai, bi) = (d["a"].as_u64().unwrap_or(0) as usize, d["b"].as_u64().unwrap_or(0) as usize);
                let n = pair_literals().len();
                if ai < n && bi < n {
                    let (src, want) = pair_program(ai, bi, d["comma"].as_bool().unwrap_or(false));
                    let r = if d["impl"].as_u64() == Some(0) { pair_verdict::<SData>(&src, &want) } else { pair_verdict::<BData>(&src, &want) };
                    if let Some((kind, got)) = r {
                        cx.violation(&kind, &format!("pair/replayed/{}", src), json!({"src": src, "got": got}));
                    }
                }
            }
            "spelling" => {
                let sp = match Spelling::from_json(&d["spelling"]) {
                    Some(s) => s,
                    None => return,
                };
                let which = Which::parse(d["impl"].as_str().unwrap_or("both"));
                let witness = d["witness"].as_str().unwrap_or("").to_string();
                let (a, b) = verdicts(&sp);
                cx.eval();
                cx.eval();
                let pick = match which {
                    Which::Simple => vec![a],
                    Which::Basic => vec![b],
                    Which::Both => vec![a, b],
                };
                // still failing on every implementation the record names?
                if pick.iter().all(|v| matches!(v, Verdict::Bad { .. })) {
                    if let Verdict::Bad { kind, got, .. } = &pick[0] {
                        let mut dd = d.clone();
                        dd["got"] = json!(got);
                        cx.violation(kind, &witness, dd);
                    }
                }
            }
            "exists" => {
                let tier = cx.tier;
                let witness = d["witness"].as_str().unwrap_or("").to_string();
                let v = &d["value"];
                let holds = match d["cat"].as_str().unwrap_or("") {
                    "charlist" => exists_str(tier, &chars_from(&v["chars"])).0,
                    "bytelist" => exists_bytes(tier, &bytes_from(&v["bytes"])).0,
                    "number" => {
                        let mut sps: Vec<Spelling> = vec![];
                        if let Some(n) = v["int"].as_i64() {
                            if n < 0 {
                                sps = neg_spellings_int(n);
                            } else {
                                sps.push(spell_num("decimal", format!("{}", n), true, Want::Int(n as i32)));
                                sps.push(spell_num("radix", format!("016_{:X}", n), true, Want::Int(n as i32)));
                            }
                        } else if let Some(f) = v["bits"].as_str().and_then(|s| s.parse::<u64>().ok()).map(f64::from_bits) {
                            if f < 0.0 {
                                sps = neg_spellings_float(f);
                            } else {
                                sps.push(spell_num("fraction", float_text(f), true, Want::Float(f)));
                            }
                        }
                        sps.iter().any(|sp| {
                            let (a, b) = verdicts(sp);
                            a.value_ok() && b.value_ok()
                        })
                    }
                    _ => true,
                };
                if !holds {
                    cx.violation("no-spelling", &witness, d.clone());
                }
            }
            _ => {}
        }
    }
    fn meta(&self, tier: Tier) -> Meta {
        let l = layout(tier);
        let blocks = |b: &Vec<(Vec<char>, usize)>| b.iter().map(|(a, n)| format!("all strings of length <= {} over {:?}", n, a.iter().collect::<String>())).collect::<Vec<_>>().join("; ");
        Meta {
            rule: format!(
                "every ordered pair of 16 literals of all classes as a two-item list (what a literal denotes does not depend on the literal before it); one-literal programs on both data implementations. Integers: {} values per radix (0, 1, R-1, R, R+1, R^2-1..R^2+1, 2^k-1..2^k+1 for k=1..30, MAX-1, MAX, digit-pattern values{}) in every radix 2..36 as 0R_digits in upper and lower case, with every subset of single-underscore separator positions for <= {} digits and 4 fixed placements beyond; {} decimal integers likewise; {} out-of-range decimal integers; {} finite non-negative floats (boundaries, powers of two and ten, decimal fractions) in shortest positional form, with a trailing zero, with separators, and `.d` form; {} negative numbers via `--lit` / `0 - lit`. Char lists: {} - each in \"...\" with escapes, with \\u{{..}}, with raw newline/tab, and in 3, 4{} quote forms where the content permits. Byte lists: {} in '...' escaped form (ASCII) and in '''n n''' numeric form (decimal, 02_ binary, 016_ hex{}); quote-form byte lists with non-ASCII characters over {:?} up to length {}. Symbols `:name` and identifiers over {:?} up to length {}. A case is non-trivial when the program was accepted and evaluated to the denoted value (distinct by source text and implementation).",
                l.radix_vals[8].len(),
                if tier == Tier::Thorough { ", R^k-1..R^k+1 for every k, every n <= R^2+R" } else { "" },
                tier.pick(5, 7),
                l.dec_vals.len(),
                l.big.len(),
                l.floats.len(),
                l.neg_ints.len() + l.neg_floats.len(),
                blocks(&l.str_blocks),
                if tier == Tier::Thorough { ", 5 and 7" } else { "" },
                l.byte_blocks.iter().map(|(a, n)| format!("all byte vectors of length <= {} over {} byte values", n, a.len())).collect::<Vec<_>>().join("; "),
                if tier == Tier::Thorough { ", 08_ octal, 4 and 6 quotes, separators" } else { "" },
                l.byte_na_alphabet.iter().collect::<String>(),
                l.byte_na_len,
                l.name_alphabet.iter().collect::<String>(),
                l.name_len
            ),
            assumptions: vec![
                "demanded forms (rejection is a violation): decimal integers <= i32::MAX, 0R_digits for R in 2..36, single underscores between digits, decimal fractions d.d; \"...\" with the escapes \\n \\t \\r \\0 \\\\ \\\" of docs/src/escape_sequences.md; 3+ quote char lists; \"\" and '' for the empty lists; '...' with the same escapes and \\'; '''n n''' with decimal and 0R_ items whose digits are 0-9".into(),
                "optional forms (may be rejected, but must be right when accepted): \\u{hex} escapes, `.5`, hexadecimal byte items (letters), quote-form byte lists with non-ASCII characters, integers beyond i32::MAX (the nearest float or rejection)".into(),
                "a raw newline / tab inside a single-quote literal: both 'kept' (statement) and 'skipped' (docs/src/escape_sequences.md) are accepted; such spellings do not count for the existence claim".into(),
                "escape sequences are processed in every quote form (the statement says 'after escape processing' without restriction)".into(),
                "the documented two-quote numeric form ''n n'' is not exercised: the lexer reserves two quotes for the empty byte list, the language text disagrees with itself; three and more quotes are used".into(),
                "a spelling that starts with 0 and contains an underscore is a radix form; decimal spellings with separators are therefore only enumerated for numbers whose text does not start with 0".into(),
                "quote-form byte lists with non-ASCII characters: each character may become its UTF-8 bytes, its low byte, '?', or its UTF-16/32 LE/BE bytes, or the literal may be rejected; anything else (e.g. a quote of the delimiter) is a byte outside the content".into(),
                "symbol / identifier names: demanded are names that start with a letter or '_' and continue with letters, digits, '_' (at least one letter or digit); names with a leading digit, with ':' inside, or of underscores only are optional forms; the name as written or with leading / trailing ':' removed is accepted; identifiers are observed through the symbol handed to the host's resolve callback".into(),
                "negative numbers have no literal form; the existence claim for them is checked through `--literal` and `0 - literal`, only as an existence claim".into(),
                "a literal `d` denotes an integer, `d.d` a float; out-of-bounds: strings longer than the stated lengths, characters outside the alphabets, the 'random longer' clauses of the quantifier are replaced by the reduced-alphabet longer blocks".into(),
            ],
            trusted_base: vec![
                "engine/src/props/c14.rs spelling functions (digits_of, with_seps, spell_str, spell_bytes, float_text)".into(),
                "rustc f64 Display (shortest round-trip digits) for float spellings".into(),
                "engine/src/val.rs get (reads through the trait getters only)".into(),
            ],
            explanation: "bounded-exhaustive enumeration of values x literal forms; each spelling is compiled and run as a one-literal program on SimpleGarnishData and BasicGarnishData and the value read back is compared with the value the spelling function started from; failures are delta-debugged to a minimal content".into(),
        }
    }
    fn budget_ms(&self) -> u64 {
        4000
    }
}

#[allow(dead_code)]
fn _types(_: GarnishDataType) {}
