//! C16 - lists keep their order and find every key.
//!
//! Bounded-exhaustive: every list of length 0..N over the seven item kinds {number, text, bare symbol, unit, pair keyed
//! by a symbol, pair keyed by a number, nested list}, every ordered choice of distinct key symbols from an
//! adversarial pool for the symbol-keyed slots, a set of pre-existing values in the data object (shifts every
//! address), both data implementations; every concatenation of two (three) such short lists; and a deterministic
//! family of larger lists with colliding / extreme / sorted / reverse-sorted keys.
//!
//! Observed through `get_list_len`, `get_list_item`, `get_list_item_iter`, `get_list_item_with_symbol`,
//! `get_concatenation_iter`, and through the runtime operations `make_list`, `access`, `apply`,
//! `access_length_internal`. The oracle is the trivial reference (a Vec of items and a linear key scan).

use crate::fw::{guard, panic_kind, Ctx, Meta, Property, Tier};
use crate::subj::{BData, Host, SData, Subject};
use crate::val::{get, put, put_list, V};
use garnish_lang_runtime::ops;
use garnish_lang_simple_data::SimpleNumber;
use garnish_lang_traits::{Extents, RuntimeError, TypeConstants};
use serde_json::{json, Value};
use std::collections::BTreeSet;
use std::sync::atomic::{AtomicBool, AtomicUsize, Ordering};
use std::sync::{mpsc, Arc, Mutex, OnceLock};
use std::time::Duration;

pub struct C16;

// ---------------------------------------------------------------------------------------------
// the enumerated space

#[derive(Clone, Copy, PartialEq, Eq, Debug, Hash)]
enum K {
    Num,
    Text,
    Sym,
    KPair,
    NPair,
    Nested,
    /// the unit value as an item (its address is 0 on SimpleGarnishData: a slot value, not an empty slot)
    Unit,
}

const KINDS: [K; 7] = [K::Num, K::Text, K::Sym, K::KPair, K::NPair, K::Nested, K::Unit];
const UNKEYED_CYCLE: [K; 5] = [K::Num, K::Text, K::Sym, K::NPair, K::Nested];

impl K {
    fn name(self) -> &'static str {
        match self {
            K::Num => "number",
            K::Text => "text",
            K::Sym => "symbol",
            K::KPair => "pair-keyed-by-symbol",
            K::NPair => "pair-keyed-by-number",
            K::Nested => "nested-list",
            K::Unit => "unit",
        }
    }
    fn short(self) -> &'static str {
        match self {
            K::Num => "n",
            K::Text => "t",
            K::Sym => "s",
            K::KPair => "K",
            K::NPair => "p",
            K::Nested => "l",
            K::Unit => "u",
        }
    }
    fn from_name(s: &str) -> Option<K> {
        KINDS.iter().cloned().find(|k| k.name() == s)
    }
}

#[derive(Clone, Copy, PartialEq, Eq, Debug, Hash)]
enum Form {
    /// one list
    List,
    /// A <> B
    Cat2,
    /// (A <> B) <> C
    Cat3L,
    /// A <> (B <> C)
    Cat3R,
}

impl Form {
    fn name(self) -> &'static str {
        match self {
            Form::List => "list",
            Form::Cat2 => "cat2",
            Form::Cat3L => "cat3l",
            Form::Cat3R => "cat3r",
        }
    }
    fn class(self) -> &'static str {
        match self {
            Form::List => "list",
            _ => "concat",
        }
    }
    fn from_name(s: &str) -> Option<Form> {
        [Form::List, Form::Cat2, Form::Cat3L, Form::Cat3R].into_iter().find(|f| f.name() == s)
    }
}

/// One concrete case: a data implementation, a number of pre-existing values, the item kinds of every part
/// and the key symbols of the symbol-keyed slots (in flattened order).
#[derive(Clone, Debug, Hash)]
struct Case {
    imp: usize, // 0 = simple, 1 = basic
    pad: usize,
    form: Form,
    parts: Vec<Vec<K>>,
    keys: Vec<u64>,
}

/// symbol used as key inside every nested list item; never used as a direct key
const NESTED_SYM: u64 = 0x6e65_7374;

const POOL_Q: [u64; 9] = [0, 1, 2, 3, 4, 5, 1 << 32, u64::MAX - 1, u64::MAX];
const POOL_T: [u64; 11] = [0, 1, 2, 3, 4, 5, 7, 1 << 32, 1 << 63, u64::MAX - 1, u64::MAX];
/// symbols looked up in every case (besides the case's own keys and their neighbours)
const BASE_PROBES: [u64; 12] = [0, 1, 2, 3, 4, 5, 7, 1 << 32, 1 << 63, u64::MAX - 1, u64::MAX, NESTED_SYM];

fn item_value(k: K, p: usize, key: Option<u64>) -> V {
    let p = p as i32;
    match k {
        K::Num => V::Int(10 + p),
        K::Text => V::str(&format!("t{}", p)),
        // a bare symbol whose value coincides with pool keys: must never answer a lookup
        K::Sym => V::Sym((p % 4) as u64),
        K::KPair => V::pair(V::Sym(key.unwrap_or(0)), V::Int(1000 + p)),
        // a pair whose (number) key is numerically equal to pool symbols: must never answer a lookup
        K::NPair => V::pair(V::Int(p), V::Int(2000 + p)),
        K::Nested => V::List(vec![V::Int(3000 + p), V::pair(V::Sym(NESTED_SYM), V::Int(4000 + p))]),
        K::Unit => V::Unit,
    }
}

struct Model {
    /// items of every part
    parts: Vec<Vec<V>>,
    /// all items in flattened order
    items: Vec<V>,
    /// (key, flattened position) of every symbol-keyed pair
    direct: Vec<(u64, usize)>,
    nested_at: Vec<usize>,
    all_symbol_keyed: bool,
}

fn model(c: &Case) -> Model {
    let mut parts = vec![];
    let mut items = vec![];
    let mut direct = vec![];
    let mut nested_at = vec![];
    let mut ki = 0;
    let mut p = 0;
    let mut all = true;
    for part in &c.parts {
        let mut pv = vec![];
        for k in part {
            let key = if *k == K::KPair {
                let s = c.keys.get(ki).cloned().unwrap_or(0);
                ki += 1;
                direct.push((s, p));
                Some(s)
            } else {
                all = false;
                None
            };
            if *k == K::Nested {
                nested_at.push(p);
            }
            let v = item_value(*k, p, key);
            pv.push(v.clone());
            items.push(v);
            p += 1;
        }
        parts.push(pv);
    }
    Model { parts, items, direct, nested_at, all_symbol_keyed: all }
}

#[derive(Clone, Debug, PartialEq)]
enum Want {
    Value(V, usize),
    Absent,
    /// statement silent on whether a key inside a nested list item is "contained": accept absent or that value
    AbsentOrNested,
}

impl Model {
    fn want(&self, s: u64) -> Want {
        if let Some((_, p)) = self.direct.iter().find(|(k, _)| *k == s) {
            return Want::Value(V::Int(1000 + *p as i32), *p);
        }
        if s == NESTED_SYM && !self.nested_at.is_empty() {
            return Want::AbsentOrNested;
        }
        Want::Absent
    }
    fn nested_value_ok(&self, v: &V) -> bool {
        self.nested_at.iter().any(|p| *v == V::Int(4000 + *p as i32))
    }
    fn mix(&self) -> &'static str {
        if self.items.is_empty() {
            "empty"
        } else if self.all_symbol_keyed {
            "all-symbol-keyed"
        } else {
            "mixed"
        }
    }
    fn probes(&self) -> Vec<u64> {
        let mut s: BTreeSet<u64> = BASE_PROBES.iter().cloned().collect();
        for (k, _) in &self.direct {
            s.insert(*k);
            s.insert(k.wrapping_add(1));
            s.insert(k.wrapping_sub(1));
        }
        s.into_iter().collect()
    }
}

fn imp_name(i: usize) -> &'static str {
    if i == 0 { "simple" } else { "basic" }
}

fn show_sym(s: u64) -> String {
    if s == NESTED_SYM {
        "sym(NESTED)".into()
    } else if s > (1 << 62) {
        format!("sym(0x{:x})", s)
    } else {
        format!("sym({})", s)
    }
}

fn show_case(c: &Case) -> String {
    let mut ki = 0;
    let mut parts = vec![];
    for part in &c.parts {
        let mut it = vec![];
        for k in part {
            if *k == K::KPair {
                it.push(format!("{}=v", show_sym(c.keys.get(ki).cloned().unwrap_or(0))));
                ki += 1;
            } else {
                it.push(k.name().to_string());
            }
        }
        parts.push(format!("[{}]", it.join(", ")));
    }
    format!("{} {} {} after {} pre-existing values", imp_name(c.imp), c.form.name(), parts.join(" <> "), c.pad)
}

fn case_json(c: &Case) -> Value {
    json!({
        "impl": imp_name(c.imp),
        "pad": c.pad,
        "form": c.form.name(),
        "parts": c.parts.iter().map(|p| p.iter().map(|k| k.name()).collect::<Vec<_>>()).collect::<Vec<_>>(),
        "keys": c.keys,
    })
}

fn case_from_json(v: &Value) -> Option<Case> {
    let imp = match v["impl"].as_str()? {
        "simple" => 0,
        "basic" => 1,
        _ => return None,
    };
    let pad = v["pad"].as_u64()? as usize;
    let form = Form::from_name(v["form"].as_str()?)?;
    let mut parts = vec![];
    for p in v["parts"].as_array()? {
        let mut pv = vec![];
        for k in p.as_array()? {
            pv.push(K::from_name(k.as_str()?)?);
        }
        parts.push(pv);
    }
    let mut keys = vec![];
    for k in v["keys"].as_array()? {
        keys.push(k.as_u64()?);
    }
    let need: usize = parts.iter().map(|p| p.iter().filter(|k| **k == K::KPair).count()).sum();
    let want_parts = match form {
        Form::List => 1,
        Form::Cat2 => 2,
        _ => 3,
    };
    if keys.len() != need || parts.len() != want_parts {
        return None;
    }
    Some(Case { imp, pad, form, parts, keys })
}

// ---------------------------------------------------------------------------------------------
// reporting

const TYPE_NAMES: [&str; 17] = [
    "Concatenation", "SymbolList", "Expression", "CharList", "ByteList", "External", "Partial", "Symbol", "Number", "Custom", "Slice", "Range", "Pair",
    "List", "Char", "Byte", "Unit",
];

/// Normalise an error message into a stable class: drop the parenthesised detail, type names and numbers.
fn norm_err(msg: &str) -> String {
    let mut s = msg.to_string();
    if let Some(i) = s.find(" (") {
        s.truncate(i);
    }
    for t in TYPE_NAMES {
        s = s.replace(t, "<type>");
    }
    let s = panic_kind(&s);
    s.chars().take(72).collect()
}

enum Bad {
    Panic(String),
    Err(String),
}

impl Bad {
    fn kind(&self) -> String {
        match self {
            Bad::Panic(p) => format!("panic[{}]", panic_kind(p)),
            Bad::Err(e) => format!("err[{}]", norm_err(e)),
        }
    }
    fn shown(&self) -> String {
        match self {
            Bad::Panic(p) => format!("panic: {}", p),
            Bad::Err(e) => format!("Err({})", e),
        }
    }
}

fn rt_msg<E: std::error::Error + 'static>(e: &RuntimeError<E>) -> String {
    if !e.get_message().is_empty() {
        e.get_message().clone()
    } else if let Some(s) = std::error::Error::source(e) {
        format!("{}", s)
    } else {
        format!("{:?}", e.get_type())
    }
}

struct Rep<'a> {
    cx: &'a mut Ctx,
    case: &'a Case,
    shown_case: String,
}

impl<'a> Rep<'a> {
    fn violation(&mut self, kind: &str, op: &str, situation: &str, arg: &str, expected: &str, got: &str) {
        let imp = imp_name(self.case.imp);
        let witness = format!("{}/{}/{}[{}]", imp, self.case.form.class(), op, situation);
        let sig = format!("{} :: {}", kind, witness);
        let detail = json!({
            "case": case_json(self.case),
            "sig": sig,
            "shown": format!("{}: {}({})", self.shown_case, op, arg),
            "expected": expected,
            "got": got,
        });
        self.cx.violation(kind, &witness, detail);
    }
}

// ---------------------------------------------------------------------------------------------
// driving the subject

fn full() -> Extents<SimpleNumber> {
    Extents::new(SimpleNumber::zero(), <SimpleNumber as TypeConstants>::max_value())
}

fn clean_registers<D: Subject>(d: &mut D) {
    let _ = guard(|| {
        let mut n = 0;
        while d.get_register_len() > 0 && n < 10_000 {
            if d.pop_register().is_err() {
                break;
            }
            n += 1;
        }
    });
}

#[derive(Clone, Copy, PartialEq)]
enum IOp {
    Access,
    Apply,
    Len,
}

impl IOp {
    fn name(self) -> &'static str {
        match self {
            IOp::Access => "access",
            IOp::Apply => "apply",
            IOp::Len => "access_length_internal",
        }
    }
}

/// run one runtime operation on (left[, right]); the result is read back as a value
fn instr<D: Subject>(d: &mut D, op: IOp, left: usize, right: Option<&V>) -> Result<V, Bad> {
    let r = guard(|| -> Result<V, String> {
        let ra = match right {
            Some(v) => Some(put(d, v).map_err(|e| format!("{}", e))?),
            None => None,
        };
        d.push_register(left).map_err(|e| format!("{}", e))?;
        if let Some(ra) = ra {
            d.push_register(ra).map_err(|e| format!("{}", e))?;
        }
        let res = match op {
            IOp::Access => ops::access(d),
            IOp::Apply => ops::apply(d),
            IOp::Len => ops::access_length_internal(d),
        };
        res.map_err(|e| rt_msg(&e))?;
        match d.pop_register() {
            Ok(Some(a)) => Ok(get(d, a)),
            Ok(None) => Err("operation left no result".to_string()),
            Err(e) => Err(format!("{}", e)),
        }
    });
    clean_registers(d);
    match r {
        Err(p) => Err(Bad::Panic(p)),
        Ok(Err(e)) => Err(Bad::Err(e)),
        Ok(Ok(v)) => Ok(v),
    }
}

struct Built {
    /// item addresses of every part
    item_addrs: Vec<Vec<usize>>,
    /// the list or concatenation under test
    target: usize,
}

fn build<D: Subject>(d: &mut D, c: &Case, m: &Model) -> Result<Built, Bad> {
    let r = guard(|| -> Result<Built, String> {
        for i in 0..c.pad {
            put(d, &V::Int(9000 + i as i32)).map_err(|e| format!("{}", e))?;
        }
        let mut item_addrs = vec![];
        for part in &m.parts {
            let mut a = vec![];
            for v in part {
                a.push(put(d, v).map_err(|e| format!("{}", e))?);
            }
            item_addrs.push(a);
        }
        let mut lists = vec![];
        for a in &item_addrs {
            lists.push(put_list(d, a).map_err(|e| format!("{}", e))?);
        }
        let e = |e| format!("{}", e);
        let target = match c.form {
            Form::List => lists[0],
            Form::Cat2 => d.add_concatenation(lists[0], lists[1]).map_err(e)?,
            Form::Cat3L => {
                let ab = d.add_concatenation(lists[0], lists[1]).map_err(e)?;
                d.add_concatenation(ab, lists[2]).map_err(e)?
            }
            Form::Cat3R => {
                let bc = d.add_concatenation(lists[1], lists[2]).map_err(e)?;
                d.add_concatenation(lists[0], bc).map_err(e)?
            }
        };
        Ok(Built { item_addrs, target })
    });
    match r {
        Err(p) => Err(Bad::Panic(p)),
        Ok(Err(e)) => Err(Bad::Err(e)),
        Ok(Ok(b)) => Ok(b),
    }
}

fn show_items(vs: &[V]) -> String {
    format!("[{}]", vs.iter().map(|v| v.show()).collect::<Vec<_>>().join(", "))
}

fn out_of_range(n: usize) -> [i32; 3] {
    [n as i32, n as i32 + 1, i32::MAX]
}

const NEGATIVE: [i32; 2] = [-1, i32::MIN];

/// data-level checks of one list. Returns false when a panic made the object unusable.
fn check_list_data<D: Subject>(rep: &mut Rep, d: &D, list: usize, items: &[V], m: &Model) -> bool {
    let n = items.len();
    // length
    match guard(|| d.get_list_len(list)) {
        Err(p) => {
            let b = Bad::Panic(p);
            rep.violation(&b.kind(), "get_list_len", "-", "", &format!("{}", n), &b.shown());
            return false;
        }
        Ok(Err(e)) => {
            let b = Bad::Err(format!("{}", e));
            rep.violation(&b.kind(), "get_list_len", "-", "", &format!("{}", n), &b.shown());
        }
        Ok(Ok(l)) => {
            if l != n {
                    rep.violation("wrong-length", "get_list_len", "-", "", &format!("{}", n), &format!("{}", l));
            }
        }
    }
    // in-range indexes
    for k in 0..n {
        rep.cx.count("index_reads", 1);
        let r = guard(|| d.get_list_item(list, SimpleNumber::Integer(k as i32)).map(|o| o.map(|a| get(d, a))));
        let want = items[k].show();
        let arg = format!("{}", k);
        match r {
            Err(p) => {
                let b = Bad::Panic(p);
                rep.violation(&b.kind(), "get_list_item", "in-range", &arg, &want, &b.shown());
                return false;
            }
            Ok(Err(e)) => {
                let b = Bad::Err(format!("{}", e));
                rep.violation(&b.kind(), "get_list_item", "in-range", &arg, &want, &b.shown());
            }
            Ok(Ok(None)) => {
                rep.violation("missing-item", "get_list_item", "in-range", &arg, &want, "Ok(None)");
            }
            Ok(Ok(Some(v))) => {
                if v != items[k] {
                        rep.violation("wrong-item", "get_list_item", "in-range", &arg, &want, &v.show());
                }
            }
        }
    }
    // indexes past the end: no item, not an error
    for k in out_of_range(n) {
        rep.cx.count("index_reads", 1);
        let r = guard(|| d.get_list_item(list, SimpleNumber::Integer(k)).map(|o| o.map(|a| get(d, a))));
        let arg = format!("{} (len {})", k, n);
        match r {
            Err(p) => {
                let b = Bad::Panic(p);
                rep.violation(&b.kind(), "get_list_item", "index>=len", &arg, "Ok(None)", &b.shown());
                return false;
            }
            Ok(Err(e)) => {
                let b = Bad::Err(format!("{}", e));
                rep.violation(&b.kind(), "get_list_item", "index>=len", &arg, "Ok(None)", &b.shown());
            }
            Ok(Ok(None)) => {}
            Ok(Ok(Some(v))) => {
                rep.violation("item-outside-range", "get_list_item", "index>=len", &arg, "Ok(None)", &format!("Ok(Some({}))", v.show()));
            }
        }
    }
    // negative indexes are outside 0..n-1 too: no item, not an error
    for k in NEGATIVE {
        rep.cx.count("index_reads", 1);
        let r = guard(|| d.get_list_item(list, SimpleNumber::Integer(k)).map(|o| o.map(|a| get(d, a))));
        let arg = format!("{} (len {})", k, n);
        match r {
            Err(p) => {
                let b = Bad::Panic(p);
                rep.violation(&b.kind(), "get_list_item", "index<0", &arg, "Ok(None)", &b.shown());
                return false;
            }
            Ok(Err(e)) => {
                let b = Bad::Err(format!("{}", e));
                rep.violation(&b.kind(), "get_list_item", "index<0", &arg, "Ok(None)", &b.shown());
            }
            Ok(Ok(None)) => {}
            Ok(Ok(Some(v))) => {
                rep.violation("item-outside-range", "get_list_item", "index<0", &arg, "Ok(None)", &format!("Ok(Some({}))", v.show()));
            }
        }
    }
    // iteration order
    {
        let r = guard(|| d.get_list_item_iter(list, full()).map(|it| it.map(|a| get(d, a)).collect::<Vec<V>>()));
        let want = show_items(items);
        match r {
            Err(p) => {
                let b = Bad::Panic(p);
                rep.violation(&b.kind(), "get_list_item_iter", "-", "full extents", &want, &b.shown());
                return false;
            }
            Ok(Err(e)) => {
                let b = Bad::Err(format!("{}", e));
                rep.violation(&b.kind(), "get_list_item_iter", "-", "full extents", &want, &b.shown());
            }
            Ok(Ok(vs)) => {
                if vs.as_slice() != items {
                    let kind = if vs.len() != n { "iteration-wrong-count" } else { "iteration-wrong-order" };
                    rep.violation(kind, "get_list_item_iter", "-", "full extents", &want, &show_items(&vs));
                }
            }
        }
    }
    // lookups
    {
        for s in m.probes() {
            rep.cx.count("lookups", 1);
            let want = m.want(s);
            let r = guard(|| d.get_list_item_with_symbol(list, s).map(|o| o.map(|a| get(d, a))));
            let r = match r {
                Err(p) => Err(Bad::Panic(p)),
                Ok(Err(e)) => Err(Bad::Err(format!("{}", e))),
                Ok(Ok(o)) => Ok(o),
            };
            let panicked = matches!(r, Err(Bad::Panic(_)));
            judge_lookup(rep, "get_list_item_with_symbol", m, s, &want, r.map(|o| o.unwrap_or(V::Unit)), true);
            if panicked {
                return false;
            }
        }
    }
    true
}

/// Judge one lookup outcome; `absent` is represented as V::Unit (no item kind is unit). Returns true when a
/// violation was reported.
fn judge_lookup(rep: &mut Rep, op: &str, m: &Model, s: u64, want: &Want, got: Result<V, Bad>, data_level: bool) -> bool {
    let absent = if data_level { "Ok(None)" } else { "()" };
    let presence = match want {
        Want::Value(..) => "key-present",
        _ => "key-absent",
    };
    let situation = format!("{},{}", presence, m.mix());
    let arg = show_sym(s);
    let want_s = match want {
        Want::Value(v, p) => format!("{} (value of the pair at position {})", v.show(), p),
        Want::Absent => absent.to_string(),
        Want::AbsentOrNested => format!("{} (or the value inside the nested list)", absent),
    };
    match got {
        Err(b) => {
            rep.violation(&b.kind(), op, &situation, &arg, &want_s, &b.shown());
            true
        }
        Ok(v) => {
            let ok = match want {
                Want::Value(w, _) => v == *w,
                Want::Absent => v == V::Unit,
                Want::AbsentOrNested => v == V::Unit || m.nested_value_ok(&v),
            };
            if ok {
                return false;
            }
            let kind = match want {
                Want::Value(..) => {
                    if v == V::Unit {
                        "lookup-missed-present-key"
                    } else {
                        "lookup-wrong-value"
                    }
                }
                _ => "lookup-found-absent-key",
            };
            let got_s = if v == V::Unit { absent.to_string() } else { v.show() };
            rep.violation(kind, op, &situation, &arg, &want_s, &got_s);
            true
        }
    }
}

/// instruction-level checks on `target` (a list or a concatenation holding exactly `m.items`)
fn check_instr<D: Subject>(rep: &mut Rep, d: &mut D, target: usize, m: &Model, with_apply: bool) -> bool {
    let n = m.items.len();
    // length
    {
        rep.cx.count("instr_ops", 1);
        match instr(d, IOp::Len, target, None) {
            Err(b) => {
                rep.violation(&b.kind(), IOp::Len.name(), "-", "", &format!("{}", n), &b.shown());
                if matches!(b, Bad::Panic(_)) {
                    return false;
                }
            }
            Ok(v) => {
                if v != V::Int(n as i32) {
                    rep.violation("wrong-length", IOp::Len.name(), "-", "", &format!("{}", n), &v.show());
                }
            }
        }
    }
    let iops: &[IOp] = if with_apply { &[IOp::Access, IOp::Apply] } else { &[IOp::Access] };
    for op in iops {
        let opi = format!("{}-index", op.name());
        let ops_ = format!("{}-symbol", op.name());
        // indexes
        let mut idx: Vec<(i32, &str)> = (0..n as i32).map(|k| (k, "in-range")).collect();
        idx.extend(out_of_range(n).iter().map(|k| (*k, "index>=len")));
        idx.extend(NEGATIVE.iter().map(|k| (*k, "negative-index")));
        for (k, sit) in idx {
            rep.cx.count("instr_ops", 1);
            let want = if k >= 0 && (k as usize) < n { m.items[k as usize].clone() } else { V::Unit };
            let arg = format!("{} (len {})", k, n);
            match instr(d, *op, target, Some(&V::Int(k))) {
                Err(b) => {
                    rep.violation(&b.kind(), &opi, sit, &arg, &want.show(), &b.shown());
                    if matches!(b, Bad::Panic(_)) {
                        return false;
                    }
                }
                Ok(v) => {
                    if v != want {
                        let kind = if want == V::Unit {
                            "item-outside-range"
                        } else if v == V::Unit {
                            "missing-item"
                        } else {
                            "wrong-item"
                        };
                        rep.violation(kind, &opi, sit, &arg, &want.show(), &v.show());
                    }
                }
            }
        }
        // symbols
        for s in m.probes() {
            rep.cx.count("instr_ops", 1);
            let want = m.want(s);
            let got = instr(d, *op, target, Some(&V::Sym(s)));
            let panicked = matches!(got, Err(Bad::Panic(_)));
            judge_lookup(rep, &ops_, m, s, &want, got, false);
            if panicked {
                return false;
            }
        }
    }
    true
}

fn run_case_on<D: Subject>(cx: &mut Ctx, c: &Case) {
    let m = model(c);
    let mut rep = Rep { cx, case: c, shown_case: show_case(c) };
    let mut d = D::fresh(Host::none());
    let b = match build(&mut d, c, &m) {
        Ok(b) => b,
        Err(bad) => {
            rep.violation(&bad.kind(), "build", m.mix(), "start_list/add_to_list/end_list", "a list", &bad.shown());
            return;
        }
    };
    match c.form {
        Form::List => {
            if !check_list_data(&mut rep, &d, b.target, &m.items, &m) {
                return;
            }
            // the same items through the runtime's list construction
            let made = guard(|| -> Result<usize, String> {
                for a in &b.item_addrs[0] {
                    d.push_register(*a).map_err(|e| format!("{}", e))?;
                }
                ops::make_list(&mut d, m.items.len()).map_err(|e| rt_msg(&e))?;
                match d.pop_register() {
                    Ok(Some(a)) => Ok(a),
                    Ok(None) => Err("make_list left no result".to_string()),
                    Err(e) => Err(format!("{}", e)),
                }
            });
            clean_registers(&mut d);
            let made = match made {
                Err(p) => Err(Bad::Panic(p)),
                Ok(Err(e)) => Err(Bad::Err(e)),
                Ok(Ok(a)) => Ok(a),
            };
            let target = match made {
                Err(bad) => {
                    rep.violation(&bad.kind(), "make_list", m.mix(), "", &show_items(&m.items), &bad.shown());
                    if matches!(bad, Bad::Panic(_)) {
                        return;
                    }
                    b.target
                }
                Ok(a) => {
                    let v = match guard(|| get(&d, a)) {
                        Ok(v) => v,
                        Err(p) => V::Opaque(p),
                    };
                    if v != V::List(m.items.clone()) {
                        rep.violation("wrong-list", "make_list", m.mix(), "", &show_items(&m.items), &v.show());
                        b.target
                    } else {
                        a
                    }
                }
            };
            check_instr(&mut rep, &mut d, target, &m, true);
        }
        _ => {
            // flattened iteration order
            let r = guard(|| d.get_concatenation_iter(b.target, full()).map(|it| it.map(|a| get(&d, a)).collect::<Vec<V>>()));
            let want = show_items(&m.items);
            match r {
                Err(p) => {
                    let bad = Bad::Panic(p);
                    rep.violation(&bad.kind(), "get_concatenation_iter", "-", "full extents", &want, &bad.shown());
                    return;
                }
                Ok(Err(e)) => {
                    let bad = Bad::Err(format!("{}", e));
                    rep.violation(&bad.kind(), "get_concatenation_iter", "-", "full extents", &want, &bad.shown());
                }
                Ok(Ok(vs)) => {
                    if vs != m.items {
                        let kind = if vs.len() != m.items.len() { "iteration-wrong-count" } else { "iteration-wrong-order" };
                        rep.violation(kind, "get_concatenation_iter", "-", "full extents", &want, &show_items(&vs));
                    }
                }
            }
            // a window [start, end) of the iteration is that part of the flattened sequence (BasicGarnishData; the
            // SimpleGarnishData iterators do not take a window at the data level)
            if D::NAME == "basic" {
                let n = m.items.len();
                'win: for start in 0..=n {
                    for end in start..=n {
                        let ext = Extents::new(SimpleNumber::Integer(start as i32), SimpleNumber::Integer(end as i32));
                        let r = guard(|| d.get_concatenation_iter(b.target, ext).map(|it| it.map(|a| get(&d, a)).collect::<Vec<V>>()));
                        let want_items = m.items[start..end].to_vec();
                        let arg = format!("window {}..{}", start, end);
                        match r {
                            Err(p) => {
                                let bad = Bad::Panic(p);
                                rep.violation(&bad.kind(), "get_concatenation_iter", "-", &arg, &show_items(&want_items), &bad.shown());
                                return;
                            }
                            Ok(Err(e)) => {
                                let bad = Bad::Err(format!("{}", e));
                                rep.violation(&bad.kind(), "get_concatenation_iter", "-", &arg, &show_items(&want_items), &bad.shown());
                                break 'win;
                            }
                            Ok(Ok(vs)) => {
                                if vs != want_items {
                                    rep.violation("window-is-not-that-part-of-the-sequence", "get_concatenation_iter", "-", &arg, &show_items(&want_items), &show_items(&vs));
                                    break 'win;
                                }
                            }
                        }
                    }
                }
            }
            // (the parts themselves are plain lists and are covered by the list segments)
            check_instr(&mut rep, &mut d, b.target, &m, false);
        }
    }
}

fn run_case(cx: &mut Ctx, c: &Case) {
    if c.imp == 0 {
        run_case_on::<SData>(cx, c)
    } else {
        run_case_on::<BData>(cx, c)
    }
}

// ---------------------------------------------------------------------------------------------
// supervised execution: the cases of one element run on a helper thread whose CPU time is watched, so that a
// read or lookup that never returns (endless probe loop) is reported as a violation after a fraction of a
// second instead of stalling every element until the process watchdog fires.

/// set once a case did not return: the helper thread is still spinning, later elements of this worker
/// process are skipped (the verdict of the run is already "violation")
static HUNG: AtomicBool = AtomicBool::new(false);

/// CPU time a single element may burn before it is declared not to return (an element needs a few ms)
const HANG_CPU_MS: u64 = 600;

enum Msg {
    Done(Ctx),
    Crashed(String),
}

struct Job {
    cases: Arc<Vec<Case>>,
    tier: Tier,
    idx: u64,
    progress: Arc<AtomicUsize>,
}

/// the one helper thread of this process
struct Helper {
    jobs: mpsc::Sender<Job>,
    results: mpsc::Receiver<Msg>,
    tid: Option<u64>,
}

fn helper() -> &'static Mutex<Helper> {
    static H: OnceLock<Mutex<Helper>> = OnceLock::new();
    H.get_or_init(|| {
        let (job_tx, job_rx) = mpsc::channel::<Job>();
        let (res_tx, res_rx) = mpsc::channel::<Msg>();
        let (tid_tx, tid_rx) = mpsc::channel::<Option<u64>>();
        let spawned = std::thread::Builder::new().stack_size(8 << 20).spawn(move || {
            let _ = tid_tx.send(own_tid());
            while let Ok(job) = job_rx.recv() {
                let mut tmp = Ctx::new(job.tier);
                tmp.cur_idx = job.idx;
                tmp.sample_cap = 0;
                let r = guard(|| {
                    for (i, c) in job.cases.iter().enumerate() {
                        job.progress.store(i, Ordering::SeqCst);
                        run_case(&mut tmp, c);
                    }
                });
                let _ = match r {
                    Ok(()) => res_tx.send(Msg::Done(tmp)),
                    Err(p) => res_tx.send(Msg::Crashed(p)),
                };
            }
        });
        if let Err(e) = spawned {
            panic!("cannot spawn the case thread: {}", e);
        }
        let tid = tid_rx.recv().ok().flatten();
        Mutex::new(Helper { jobs: job_tx, results: res_rx, tid })
    })
}

fn own_tid() -> Option<u64> {
    let l = std::fs::read_link("/proc/thread-self").ok()?;
    l.file_name()?.to_str()?.parse().ok()
}

/// user + system CPU time of one thread of this process in ms (clock ticks of 10 ms), None if unreadable
fn thread_cpu_ms(tid: u64) -> Option<u64> {
    let s = std::fs::read_to_string(format!("/proc/self/task/{}/stat", tid)).ok()?;
    let rest = &s[s.rfind(')')? + 1..];
    let f: Vec<&str> = rest.split_whitespace().collect();
    let ut: u64 = f.get(11)?.parse().ok()?;
    let st: u64 = f.get(12)?.parse().ok()?;
    Some((ut + st) * 10)
}

fn merge(cx: &mut Ctx, tmp: Ctx) {
    for (k, v) in &tmp.counters {
        cx.count(k, *v);
    }
    for (sig, v) in tmp.violations {
        match cx.violations.get_mut(&sig) {
            Some(old) => {
                old.count += v.count;
                if v.idx < old.idx {
                    old.idx = v.idx;
                    old.detail = v.detail;
                }
            }
            None => {
                cx.violations.insert(sig, v);
            }
        }
    }
}

fn run_cases(cx: &mut Ctx, cases: Vec<Case>) {
    if HUNG.load(Ordering::SeqCst) {
        cx.count("elements_skipped_after_a_case_did_not_return", 1);
        return;
    }
    for c in &cases {
        cx.eval();
        if c.parts.iter().any(|p| p.contains(&K::KPair)) {
            cx.nontrivial(c);
        }
    }
    let cases = Arc::new(cases);
    let progress = Arc::new(AtomicUsize::new(0));
    let h = match helper().lock() {
        Ok(h) => h,
        Err(_) => panic!("case thread handle poisoned"),
    };
    if h.jobs.send(Job { cases: cases.clone(), tier: cx.tier, idx: cx.cur_idx, progress: progress.clone() }).is_err() {
        panic!("case thread is gone");
    }
    // CPU time of the helper when the first 20 ms tick passed without a result
    let mut base: Option<u64> = None;
    loop {
        match h.results.recv_timeout(Duration::from_millis(20)) {
            Ok(Msg::Done(tmp)) => {
                merge(cx, tmp);
                return;
            }
            Ok(Msg::Crashed(p)) => panic!("harness panic outside the guarded subject calls: {}", p),
            Err(mpsc::RecvTimeoutError::Disconnected) => panic!("case thread ended without a result"),
            Err(mpsc::RecvTimeoutError::Timeout) => {
                // only CPU time counts: a descheduled or throttled thread on a loaded machine is not a hang.
                // Without a readable /proc the process watchdog of the framework remains the only judge.
                let now = match h.tid.and_then(thread_cpu_ms) {
                    Some(n) => n,
                    None => continue,
                };
                let b = *base.get_or_insert(now);
                if now.saturating_sub(b) > HANG_CPU_MS {
                    HUNG.store(true, Ordering::SeqCst);
                    let c = &cases[progress.load(Ordering::SeqCst).min(cases.len() - 1)];
                    let kind = "hang[a read or lookup does not return]";
                    let witness = format!("{}/{}/case", imp_name(c.imp), c.form.class());
                    let detail = json!({
                        "case": case_json(c),
                        "sig": format!("{} :: {}", kind, witness),
                        "shown": format!("{}: reads, lookups, access, apply", show_case(c)),
                        "expected": "every call returns an item or 'absent'",
                        "got": format!("still running after {} ms of CPU time (a case needs well under 1 ms)", now - b),
                    });
                    cx.violation(kind, &witness, detail);
                    return;
                }
            }
        }
    }
}

// ---------------------------------------------------------------------------------------------
// index space

enum Keys {
    /// every ordered choice of k distinct symbols of the tier's pool, in chunks
    Perms { k: usize, perms: u64 },
    /// one fixed key vector
    Fixed(Vec<u64>),
}

struct Entry {
    seg: &'static str,
    label: String,
    form: Form,
    parts: Vec<Vec<K>>,
    keys: Keys,
    elements: u64,
}

struct Layout {
    pool: Vec<u64>,
    pads: Vec<usize>,
    pads_large: Vec<usize>,
    entries: Vec<Entry>,
    starts: Vec<u64>,
    total: u64,
}

const CHUNK: u64 = 48;

fn n_perms(m: usize, k: usize) -> u64 {
    let mut r = 1u64;
    for j in 0..k {
        r *= (m - j) as u64;
    }
    r
}

fn unrank(pool: &[u64], k: usize, mut i: u64) -> Vec<u64> {
    let mut avail: Vec<u64> = pool.to_vec();
    let mut total = n_perms(pool.len(), k);
    let mut out = vec![];
    for j in 0..k {
        total /= (pool.len() - j) as u64;
        let d = (i / total) as usize;
        i %= total;
        out.push(avail.remove(d));
    }
    out
}

fn shapes(kinds: &[K], len: usize) -> Vec<Vec<K>> {
    let mut out = vec![];
    let total = kinds.len().pow(len as u32);
    for mut code in 0..total {
        let mut v = vec![];
        for _ in 0..len {
            v.push(kinds[code % kinds.len()]);
            code /= kinds.len();
        }
        v.reverse();
        out.push(v);
    }
    out
}

fn keyed(parts: &[Vec<K>]) -> usize {
    parts.iter().map(|p| p.iter().filter(|k| **k == K::KPair).count()).sum()
}

fn shape_label(parts: &[Vec<K>]) -> String {
    parts.iter().map(|p| format!("[{}]", p.iter().map(|k| k.short()).collect::<String>())).collect::<Vec<_>>().join("<>")
}

fn large_masks(l: usize) -> Vec<(&'static str, Vec<K>)> {
    let unk = |p: usize| UNKEYED_CYCLE[p % UNKEYED_CYCLE.len()];
    let mk = |f: &dyn Fn(usize) -> K| (0..l).map(|p| f(p)).collect::<Vec<K>>();
    vec![
        ("all-keyed", mk(&|_| K::KPair)),
        ("first-unkeyed", mk(&|p| if p == 0 { K::Num } else { K::KPair })),
        ("last-unkeyed", mk(&|p| if p == l - 1 { K::Text } else { K::KPair })),
        ("even-keyed", mk(&|p| if p % 2 == 0 { K::KPair } else { unk(p) })),
        ("odd-keyed", mk(&|p| if p % 2 == 1 { K::KPair } else { unk(p) })),
        ("only-first-keyed", mk(&|p| if p == 0 { K::KPair } else { unk(p) })),
        ("only-last-keyed", mk(&|p| if p == l - 1 { K::KPair } else { unk(p) })),
        ("number-keyed-pair-in-the-middle", mk(&|p| if p == l / 2 { K::NPair } else { K::KPair })),
    ]
}

fn large_families(l: usize, k: usize) -> Vec<(&'static str, Vec<u64>)> {
    let l64 = l as u64;
    let k64 = k as u64;
    let mut v: Vec<(&'static str, Vec<u64>)> = vec![
        ("multiples-of-len", (0..k64).map(|i| i * l64).collect()),
        ("multiples-of-len-descending", (0..k64).map(|i| (k64 - 1 - i) * l64).collect()),
        ("len-minus-1-mod-len", (0..k64).map(|i| i * l64 + (l64 - 1)).collect()),
        ("ascending", (1..=k64).collect()),
        ("descending", (1..=k64).rev().collect()),
        ("extremes-interleaved", (0..k64).map(|i| if i % 2 == 0 { i / 2 } else { u64::MAX - i / 2 }).collect()),
        ("top-of-range-colliding", (0..k64).map(|i| u64::MAX - i * l64).collect()),
    ];
    if k <= 64 {
        v.push(("powers-of-two", (0..k64).map(|i| 1u64 << i).collect()));
    }
    v
}

fn build_layout(tier: Tier) -> Layout {
    let pool: Vec<u64> = tier.pick(POOL_Q.to_vec(), POOL_T.to_vec());
    let pads: Vec<usize> = tier.pick(vec![0, 1, 7], vec![0, 1, 2, 3, 7]);
    let pads_cat: Vec<usize> = vec![0, 1, 7];
    let pads_large: Vec<usize> = tier.pick(vec![0, 1, 7], vec![0, 1, 2, 3, 5, 7, 11, 13]);
    let max_len = tier.pick(4, 5);
    let mut entries: Vec<Entry> = vec![];
    let mut push_perm = |seg: &'static str, form: Form, parts: Vec<Vec<K>>, npads: usize, pool_len: usize| {
        let k = keyed(&parts);
        let perms = n_perms(pool_len, k);
        let chunks = perms.div_ceil(CHUNK);
        let elements = chunks * npads as u64 * 2;
        entries.push(Entry { seg, label: shape_label(&parts), form, parts, keys: Keys::Perms { k, perms }, elements });
    };
    // 1. every list up to max_len over the seven kinds
    for len in 0..=max_len {
        for s in shapes(&KINDS, len) {
            push_perm("lists", Form::List, vec![s], pads.len(), pool.len());
        }
    }
    // 2. concatenations of two lists
    let short: Vec<Vec<Vec<K>>> = (0..=4).map(|l| shapes(&KINDS, l)).collect();
    for la in 0..=4usize {
        for lb in 0..=4usize {
            let inside = match tier {
                Tier::Quick => la <= 2 && lb <= 2,
                Tier::Thorough => la + lb <= 4,
            };
            if !inside {
                continue;
            }
            for a in &short[la] {
                for b in &short[lb] {
                    push_perm("concat2", Form::Cat2, vec![a.clone(), b.clone()], pads_cat.len(), pool.len());
                }
            }
        }
    }
    // 3. concatenations of three lists of length <= 1, both nestings
    for form in [Form::Cat3L, Form::Cat3R] {
        for la in 0..=1usize {
            for lb in 0..=1usize {
                for lc in 0..=1usize {
                    for a in &short[la] {
                        for b in &short[lb] {
                            for c in &short[lc] {
                                push_perm("concat3", form, vec![a.clone(), b.clone(), c.clone()], pads_cat.len(), pool.len());
                            }
                        }
                    }
                }
            }
        }
    }
    // 4. thorough: lists of length 6 and 7 over {number, pair keyed by symbol}
    if tier == Tier::Thorough {
        for len in 6..=7 {
            for s in shapes(&[K::Num, K::KPair], len) {
                push_perm("lists-two-kinds", Form::List, vec![s], 2, POOL_Q.len());
            }
        }
    }
    // 5. larger lists with adversarial key families
    let lens: Vec<usize> = tier.pick(vec![5, 6, 8, 13], (5..=17).chain([31, 32, 33, 64]).collect());
    for l in lens {
        for (mname, mask) in large_masks(l) {
            let k = mask.iter().filter(|x| **x == K::KPair).count();
            for (fname, fam) in large_families(l, k) {
                entries.push(Entry {
                    seg: "large",
                    label: format!("len={} {} keys={}", l, mname, fname),
                    form: Form::List,
                    parts: vec![mask.clone()],
                    keys: Keys::Fixed(fam),
                    elements: 1,
                });
            }
        }
    }
    let mut starts = vec![];
    let mut total = 0u64;
    for e in &entries {
        starts.push(total);
        total += e.elements;
    }
    Layout { pool, pads, pads_large, entries, starts, total }
}

fn layout(tier: Tier) -> &'static Layout {
    static Q: OnceLock<Layout> = OnceLock::new();
    static T: OnceLock<Layout> = OnceLock::new();
    match tier {
        Tier::Quick => Q.get_or_init(|| build_layout(Tier::Quick)),
        Tier::Thorough => T.get_or_init(|| build_layout(Tier::Thorough)),
    }
}

impl Layout {
    fn locate(&self, idx: u64) -> Option<(&Entry, u64)> {
        if idx >= self.total {
            return None;
        }
        let i = self.starts.partition_point(|s| *s <= idx) - 1;
        Some((&self.entries[i], idx - self.starts[i]))
    }
    fn pads_of(&self, e: &Entry) -> Vec<usize> {
        match e.seg {
            "lists" => self.pads.clone(),
            "large" => self.pads_large.clone(),
            "lists-two-kinds" => vec![0, 1],
            _ => vec![0, 1, 7],
        }
    }
    fn pool_of(&self, e: &Entry) -> Vec<u64> {
        match e.seg {
            "lists-two-kinds" => POOL_Q.to_vec(),
            _ => self.pool.clone(),
        }
    }
}


// ---------------------------------------------------------------------------------------------
// symbol-list chains (BasicGarnishData, the implementation whose symbol lists hold numbers): applying `key . index`
// or `key . key` to a list looks each part up in the value the previous part found

fn chain_cases() -> Vec<(Vec<crate::val::SymPart>, V)> {
    use crate::val::SymPart::{Num, Sym};
    let s = |n: &str| garnish_lang_simple_data::symbol_value(n);
    let inner2 = V::List(vec![V::Int(400), V::pair(V::Sym(s("k3")), V::Int(500))]);
    vec![
        (vec![Sym(s("k1")), Num(0)], V::Int(100)),
        (vec![Sym(s("k1")), Num(1)], V::Int(200)),
        (vec![Sym(s("k1")), Num(2)], V::Int(300)),
        (vec![Sym(s("k1")), Num(5)], V::Unit),
        (vec![Sym(s("k2")), Num(0)], V::Int(400)),
        (vec![Sym(s("k2")), Sym(s("k3"))], V::Int(500)),
        (vec![Sym(s("k2")), Num(1)], V::pair(V::Sym(s("k3")), V::Int(500))),
        (vec![Sym(s("k1")), Sym(s("k3"))], V::Unit),
        (vec![Sym(s("k3")), Num(0)], V::Unit),
        (vec![Sym(s("k2")), Sym(s("k3")), Num(0)], V::Unit),
        (vec![Sym(s("k2")), Num(1), Num(0)], V::pair(V::Sym(s("k3")), V::Int(500))),
        (vec![Sym(s("k4")), Num(1)], V::Unit),
    ]
    .into_iter()
    .map(|(p, v)| {
        let _ = &inner2;
        (p, v)
    })
    .collect()
}

fn chain_list() -> V {
    let s = |n: &str| garnish_lang_simple_data::symbol_value(n);
    V::List(vec![
        V::pair(V::Sym(s("k1")), V::List(vec![V::Int(100), V::Int(200), V::Int(300)])),
        V::Int(7),
        V::Int(8),
        V::pair(V::Sym(s("k2")), V::List(vec![V::Int(400), V::pair(V::Sym(s("k3")), V::Int(500))])),
        V::pair(V::Sym(s("k4")), V::Int(9)),
    ])
}

fn chain_case(ci: usize, pad: usize) -> Option<(String, String, String)> {
    let cases = chain_cases();
    let (parts, want) = &cases[ci];
    let r = guard(|| -> Result<Option<(String, String)>, String> {
        let mut d = BData::fresh(Host::none());
        for k in 0..pad {
            put(&mut d, &V::Int(9000 + k as i32)).map_err(|e| format!("{}", e))?;
        }
        let l = put(&mut d, &chain_list()).map_err(|e| format!("{}", e))?;
        let sl = put(&mut d, &V::SymList(parts.clone())).map_err(|e| format!("{}", e))?;
        use garnish_lang_traits::GarnishData;
        d.push_register(l).map_err(|e| format!("{}", e))?;
        d.push_register(sl).map_err(|e| format!("{}", e))?;
        match ops::apply(&mut d) {
            Err(e) => Ok(Some(("chain-apply-failed".into(), format!("{:?}", e.get_message())))),
            Ok(_) => {
                let n = d.get_register_len();
                let top = if n == 0 { None } else { d.get_register(n - 1) };
                match top {
                    None => Ok(Some(("chain-left-no-result".into(), String::new()))),
                    Some(a) => {
                        let got = get(&d, a);
                        if got == *want { Ok(None) } else { Ok(Some(("chain-found-the-wrong-value".into(), got.show()))) }
                    }
                }
            }
        }
    });
    let shown = format!("(:k1 = (100 200 300), 7, 8, :k2 = (400, :k3 = 500), :k4 = 9) <~ {}", V::SymList(parts.clone()).show());
    match r {
        Ok(Ok(None)) => None,
        Ok(Ok(Some((kind, got)))) => Some((kind, shown, format!("got {} expected {}", got, want.show()))),
        Ok(Err(e)) => Some(("chain-setup-failed".into(), shown, e)),
        Err(p) => Some((format!("panic[{}]", panic_kind(&p)), shown, p)),
    }
}

fn run_chain(cx: &mut Ctx, ci: usize) {
    for pad in [0usize, 3] {
        cx.eval();
        match chain_case(ci, pad) {
            None => cx.nontrivial(("chain", ci, pad)),
            Some((kind, shown, det)) => cx.violation(&kind, &format!("basic/chain/{}", ci), json!({"mode": "chain", "case": ci, "pad": pad, "shown": shown, "detail": det})),
        }
    }
}


impl Property for C16 {
    fn id(&self) -> &'static str {
        "C16"
    }
    fn level(&self) -> &'static str {
        "exploration"
    }
    fn size(&self, tier: Tier) -> u64 {
        layout(tier).total + chain_cases().len() as u64
    }
    fn budget_ms(&self) -> u64 {
        // an element is a few ms of work; the margin only absorbs scheduler stalls on a loaded machine
        5000
    }
    fn describe(&self, tier: Tier, idx: u64) -> String {
        match layout(tier).locate(idx) {
            None => format!("none#{}", idx),
            Some((e, local)) => format!("{} {} {} #{}", e.seg, e.form.name(), e.label, local),
        }
    }
    fn run(&self, tier: Tier, idx: u64, cx: &mut Ctx) {
        let lay = layout(tier);
        if idx >= lay.total {
            run_chain(cx, (idx - lay.total) as usize);
            return;
        }
        let (e, local) = match lay.locate(idx) {
            Some(x) => x,
            None => return,
        };
        let pads = lay.pads_of(e);
        match &e.keys {
            Keys::Perms { k, perms } => {
                let imp = (local % 2) as usize;
                let rest = local / 2;
                let pad = pads[(rest % pads.len() as u64) as usize];
                let chunk = rest / pads.len() as u64;
                let pool = lay.pool_of(e);
                let from = chunk * CHUNK;
                let to = (from + CHUNK).min(*perms);
                let mut cases = vec![];
                for i in from..to {
                    let keys = unrank(&pool, *k, i);
                    cases.push(Case { imp, pad, form: e.form, parts: e.parts.clone(), keys });
                }
                if let Some(c) = cases.first() {
                    cx.sample_at(997, || json!(show_case(c)));
                }
                run_cases(cx, cases);
            }
            Keys::Fixed(keys) => {
                let mut cases = vec![];
                for pad in pads {
                    for imp in 0..2 {
                        cases.push(Case { imp, pad, form: e.form, parts: e.parts.clone(), keys: keys.clone() });
                    }
                }
                cx.sample_at(61, || json!(format!("large list: {}", e.label)));
                run_cases(cx, cases);
            }
        }
    }
    fn replay(&self, detail: &Value, cx: &mut Ctx) {
        if detail["mode"].as_str() == Some("chain") {
            let ci = detail["case"].as_u64().unwrap_or(0) as usize;
            if ci < chain_cases().len() {
                if let Some((kind, shown, det)) = chain_case(ci, detail["pad"].as_u64().unwrap_or(0) as usize) {
                    cx.violation(&kind, &format!("basic/chain/{}", ci), json!({"mode": "chain", "shown": shown, "detail": det}));
                }
            }
            return;
        }
        let c = match case_from_json(&detail["case"]) {
            Some(c) => c,
            None => return,
        };
        let sig = detail["sig"].as_str().unwrap_or("").to_string();
        let mut tmp = Ctx::new(cx.tier);
        tmp.cur_idx = cx.cur_idx;
        run_cases(&mut tmp, vec![c]);
        for (s, v) in tmp.violations {
            if s == sig {
                cx.violation(&v.kind, &v.witness, v.detail);
            }
        }
    }
    fn meta(&self, tier: Tier) -> Meta {
        let (n, pool, pads) = tier.pick((4, "{0,1,2,3,4,5,2^32,MAX-1,MAX}", "{0,1,7}"), (5, "{0,1,2,3,4,5,7,2^32,2^63,MAX-1,MAX}", "{0,1,2,3,7}"));
        let cat = tier.pick("two lists of length <= 2 each", "two lists of total length <= 4 (every split)");
        let extra = tier.pick(
            "larger lists of length 5, 6, 8, 13",
            "every list of length 6 and 7 over {number, pair keyed by symbol} x every ordered choice of keys from the 9-symbol pool x {0,1} pre-existing values; larger lists of length 5..17, 31, 32, 33, 64",
        );
        Meta {
            rule: format!(
                "every list of length 0..{n} over the item kinds {{number, text, bare symbol, unit, pair keyed by symbol, pair keyed by number, nested list}} x every ordered choice of distinct key symbols from {pool} for the symbol-keyed slots x {pads} pre-existing values in the data object x {{simple, basic}}; every concatenation of {cat} and of three lists of length <= 1 in both nestings, same key choices x {{0,1,7}} pre-existing values; {extra} with 8 keyed/unkeyed masks x 8 key families (multiples of the length ascending and descending, len-1 modulo len, ascending, descending, extremes interleaved, top of the u64 range colliding modulo len, powers of two). Per case: get_list_len, get_list_item at every index 0..n-1 and at n, n+1, 2^31-1, -1 and -2^31, get_list_item_iter with full extents, get_list_item_with_symbol for every key, every key +-1, the pool and a symbol that only occurs inside nested lists; the same list built with the runtime's make_list and read through access / apply (indexes also -1 and i32::MIN) and access_length_internal; concatenations through get_concatenation_iter (full extents; on BasicGarnishData also every window start..end), access and access_length_internal. Plus 12 symbol-list chains (`key . index`, `key . key`, ...) applied to a list with nested lists on BasicGarnishData: each part is looked up in the value the previous part found. One evaluation = one case (one concrete list or concatenation in one data object). A case is non-trivial when it holds at least one pair keyed by a symbol; distinct by (implementation, pre-existing values, form, item kinds, keys)."
            ),
            assumptions: vec![
                "items are compared by value read back through the trait getters, not by address".into(),
                "'reports no item' is Ok(None) at the data level and the unit value at the instruction level; no item kind used is unit".into(),
                "negative indexes are judged only at the instruction level (access / apply must give unit); what get_list_item itself returns for a negative number is counted, not judged, because the runtime never passes one down".into(),
                "a symbol that only occurs as a key inside a nested list item: 'absent' and the nested value are both accepted (the statement does not say whether nesting counts as containing)".into(),
                "the cases of an element run on a helper thread; when that thread has burnt more than 600 ms of CPU time (a case needs well under 1 ms) the case is reported as 'does not return' and the remaining elements of that worker process are skipped (counter elements_skipped_after_a_case_did_not_return); wall-clock stalls are never judged".into(),
                "keys are distinct within a case (also across the parts of a concatenation); nothing is demanded for duplicate keys".into(),
                "get_list_item_iter is only called with extents covering everything (0 .. Number::max_value); sub-extents are not judged".into(),
                "apply is only judged on plain lists; symbol / index access into concatenations is judged through access".into(),
                "the data level (trait getters) and the instruction level (access / apply) are judged independently: a defect of a getter that the runtime does not guard against shows up under both".into(),
            ],
            trusted_base: vec![
                "engine/src/props/c16.rs model()/Model::want (Vec of items, linear scan for the key)".into(),
                "engine/src/val.rs get/put (trait getters and the add-interface)".into(),
            ],
            explanation: "bounded-exhaustive enumeration of list shapes, key orders and address shifts against a Vec/linear-scan reference".into(),
        }
    }
}
