//! C06 - evaluation is stack-balanced on every path.
//! Static part: explicit-state search of the abstract machine (pc, operand depth, side-effect depth) over the real
//! instruction stream of every built corpus program, from every expression entry, over all control-flow paths.
//! Dynamic part (conformance): every program is executed on both data implementations and after every real
//! step the observed operand / value / frame depths must equal the abstract model's prediction.

use crate::ast::{print, E};
use crate::fw::{guard, Ctx, Meta, Property, Tier};
use crate::props::c01::{locate, spaces};
use crate::props::pipeline::{self, Item};
use crate::shrink::shrink;
use crate::subj::{compile, start, step, BData, Host, SData, Subject};
use crate::val::V;
use garnish_lang_traits::{GarnishData, GarnishDataType, Instruction};
use serde_json::{json, Value};
use std::collections::HashMap;

pub struct C06;

#[derive(Clone, Copy, Debug, PartialEq)]
pub enum Eff {
    Push,            // +1
    Unary,           // needs 1, 0
    Binary,          // needs 2, -1
    List,            // needs n, 1-n
    Apply,           // needs 2, -1 (after the callee returned)
    EmptyApply,      // needs 1, 0
    Pop,             // needs 1, -1
    StartSide,       // values +1
    EndSide,         // needs 1, -1, values -1
    CondJump,        // needs 1, -1, two successors
    LogicJump,       // needs 1; jump edge -1, fall-through 0
    Jump,            // one successor
    End,             // needs exactly 1
    Nop,
}

/// the abstract model: stack effect of every instruction (DESIGN.md appendix B)
pub fn effect(i: Instruction) -> Eff {
    use Instruction::*;
    match i {
        Put | PutValue | Resolve => Eff::Push,
        Opposite | AbsoluteValue | BitwiseNot | Not | Tis | TypeOf | AccessLeftInternal | AccessRightInternal | AccessLengthInternal => Eff::Unary,
        Add | Subtract | Multiply | Divide | IntegerDivide | Power | Remainder | BitwiseAnd | BitwiseOr | BitwiseXor | BitwiseShiftLeft | BitwiseShiftRight | Xor
        | TypeEqual | ApplyType | Equal | NotEqual | LessThan | LessThanOrEqual | GreaterThan | GreaterThanOrEqual | MakePair | Access | Concat | PartialApply
        | MakeRange | MakeStartExclusiveRange | MakeEndExclusiveRange | MakeExclusiveRange => Eff::Binary,
        MakeList => Eff::List,
        Apply => Eff::Apply,
        EmptyApply => Eff::EmptyApply,
        UpdateValue | PushValue | Reapply => Eff::Pop,
        StartSideEffect => Eff::StartSide,
        EndSideEffect => Eff::EndSide,
        JumpIfTrue | JumpIfFalse => Eff::CondJump,
        And | Or => Eff::LogicJump,
        JumpTo => Eff::Jump,
        EndExpression => Eff::End,
        Invalid => Eff::Nop,
    }
}

pub struct StaticOk {
    pub states: u64,
    pub transitions: u64,
}

/// Explore all abstract states reachable from every expression entry. Err((kind, detail)) on an invariant violation.
pub fn analyse<D: Subject>(d: &D, entry_jump: usize) -> Result<StaticOk, (String, String)> {
    let n = d.get_instruction_len();
    let mut entries = vec![entry_jump];
    for a in 0..d.get_data_len() {
        if let Ok(GarnishDataType::Expression) = d.get_data_type(a) {
            if let Ok(j) = d.get_expression(a) {
                if !entries.contains(&j) {
                    entries.push(j);
                }
            }
        }
    }
    let mut seen: HashMap<usize, (i64, i64)> = HashMap::new();
    let mut work: Vec<(usize, i64, i64)> = vec![];
    for j in &entries {
        match d.get_from_jump_table(*j) {
            Some(pc) => work.push((pc, 0, 0)),
            None => return Err(("entry-without-jump-point".into(), format!("jump index {}", j))),
        }
    }
    let mut states = 0u64;
    let mut transitions = 0u64;
    while let Some((pc, depth, se)) = work.pop() {
        if let Some((d0, s0)) = seen.get(&pc) {
            if *d0 != depth || *s0 != se {
                return Err(("pc-reached-with-two-depths".into(), format!("pc {} depths {} and {}", pc, d0, depth)));
            }
            continue;
        }
        seen.insert(pc, (depth, se));
        states += 1;
        if pc >= n {
            return Err(("falls-off-end".into(), format!("pc {} of {}", pc, n)));
        }
        let (ins, arg) = d.get_instruction(pc).unwrap();
        let target = |arg: Option<usize>| -> Result<usize, (String, String)> {
            arg.and_then(|j| d.get_from_jump_table(j)).ok_or(("jump-without-target".to_string(), format!("{:?} at {}", ins, pc)))
        };
        let need = |k: i64| -> Result<(), (String, String)> {
            if depth < k { Err((format!("underflow[{:?}]", ins), format!("pc {} depth {} needs {}", pc, depth, k))) } else { Ok(()) }
        };
        let mut succ: Vec<(usize, i64, i64)> = vec![];
        match effect(ins) {
            Eff::Push => succ.push((pc + 1, depth + 1, se)),
            Eff::Unary => {
                need(1)?;
                succ.push((pc + 1, depth, se))
            }
            Eff::Binary => {
                need(2)?;
                succ.push((pc + 1, depth - 1, se))
            }
            Eff::List => {
                let k = arg.unwrap_or(0) as i64;
                need(k)?;
                succ.push((pc + 1, depth - k + 1, se))
            }
            Eff::Apply => {
                need(2)?;
                succ.push((pc + 1, depth - 1, se))
            }
            Eff::EmptyApply => {
                need(1)?;
                succ.push((pc + 1, depth, se))
            }
            Eff::Pop => {
                need(1)?;
                if ins == Instruction::Reapply {
                    succ.push((target(arg)?, depth - 1, se))
                } else {
                    succ.push((pc + 1, depth - 1, se))
                }
            }
            Eff::StartSide => succ.push((pc + 1, depth, se + 1)),
            Eff::EndSide => {
                need(1)?;
                if se < 1 {
                    return Err(("side-effect-underflow".into(), format!("pc {}", pc)));
                }
                succ.push((pc + 1, depth - 1, se - 1))
            }
            Eff::CondJump => {
                need(1)?;
                succ.push((pc + 1, depth - 1, se));
                succ.push((target(arg)?, depth - 1, se));
            }
            Eff::LogicJump => {
                need(1)?;
                succ.push((pc + 1, depth, se));
                succ.push((target(arg)?, depth - 1, se));
            }
            Eff::Jump => succ.push((target(arg)?, depth, se)),
            Eff::End => {
                if depth != 1 {
                    return Err((format!("end-at-depth-{}", if depth == 0 { "0".to_string() } else if depth > 1 { "2plus".to_string() } else { "neg".to_string() }), format!("pc {} depth {}", pc, depth)));
                }
                if se != 0 {
                    return Err(("end-inside-side-effect".into(), format!("pc {}", pc)));
                }
            }
            Eff::Nop => succ.push((pc + 1, depth, se)),
        }
        transitions += succ.len() as u64;
        work.extend(succ);
    }
    Ok(StaticOk { states, transitions })
}

fn frames_of_simple(d: &SData) -> usize {
    d.get_register_len() - d.operand_depth()
}

pub trait FrameCount {
    fn frame_count(&self) -> usize;
}
impl FrameCount for SData {
    fn frame_count(&self) -> usize {
        frames_of_simple(self)
    }
}
impl FrameCount for BData {
    fn frame_count(&self) -> usize {
        let mut c = self.clone();
        let mut n = 0;
        while let Ok(Some(_)) = c.pop_frame() {
            n += 1;
            if n > 10000 {
                break;
            }
        }
        n
    }
}

/// Execute and compare every step with the model. Ok(steps) or Err((kind, detail)). None = not judged (compile/run error).
pub fn conform<D: Subject + FrameCount>(src: &str, input: &V, cap: usize) -> Option<Result<usize, (String, String)>> {
    let mut d = D::fresh(Host::none());
    let (_, bd) = compile(src, &mut d).ok()?;
    let base_ops = d.operand_depth();
    start(&mut d, *bd.jump_index(), input).ok()?;
    let base_vals = d.value_depth();
    let mut frames: Vec<i64> = vec![];
    let mut depth: i64 = 0;
    let mut se: i64 = 0;
    let mut steps = 0usize;
    loop {
        let pc = d.get_instruction_cursor();
        let (ins, arg) = match d.get_instruction(pc) {
            Some(x) => x,
            None => return Some(Err(("cursor-outside-program".into(), format!("pc {}", pc)))),
        };
        // operand types needed to predict a call
        let rl = d.get_register_len();
        let callee_is_expr = |off: usize| -> bool {
            if rl < off {
                return false;
            }
            match d.get_register(rl - off).and_then(|a| d.get_data_type(a).ok()) {
                Some(GarnishDataType::Expression) => true,
                Some(GarnishDataType::Partial) => {
                    // a partial of an expression also calls
                    d.get_register(rl - off).and_then(|a| d.get_partial(a).ok()).and_then(|(e, _)| d.get_data_type(e).ok()) == Some(GarnishDataType::Expression)
                }
                _ => false,
            }
        };
        let call2 = callee_is_expr(2);
        let call1 = callee_is_expr(1);
        let running = match step(&mut d) {
            Ok(r) => r,
            Err(_) => return None,
        };
        steps += 1;
        let mut ended_run = false;
        match effect(ins) {
            Eff::Push => depth += 1,
            Eff::Unary | Eff::Nop | Eff::Jump => {}
            Eff::Binary => depth -= 1,
            Eff::List => depth += 1 - arg.unwrap_or(0) as i64,
            Eff::Apply => {
                if call2 {
                    frames.push(depth - 2);
                    depth = 0;
                } else {
                    depth -= 1;
                }
            }
            Eff::EmptyApply => {
                if call1 {
                    frames.push(depth - 1);
                    depth = 0;
                }
            }
            Eff::Pop => depth -= 1,
            Eff::StartSide => se += 1,
            Eff::EndSide => {
                depth -= 1;
                se -= 1;
            }
            Eff::CondJump => depth -= 1,
            Eff::LogicJump => {
                // fall-through keeps the depth (boolean pushed), jump edge pops
                let next = d.get_instruction_cursor();
                if running && next != pc + 1 {
                    depth -= 1;
                }
            }
            Eff::End => match frames.pop() {
                Some(caller) => {
                    if depth != 1 {
                        return Some(Err(("callee-returns-with-depth".into(), format!("depth {} at pc {}", depth, pc))));
                    }
                    depth = caller + 1;
                }
                None => {
                    depth -= 1;
                    ended_run = true;
                }
            },
        }
        let want_ops = base_ops as i64 + frames.iter().sum::<i64>() + depth;
        let got_ops = d.operand_depth() as i64;
        if want_ops != got_ops {
            return Some(Err((format!("operand-depth-mismatch[{:?}]", ins), format!("after {:?} at pc {}: model {} observed {}", ins, pc, want_ops, got_ops))));
        }
        let want_vals = base_vals as i64 + frames.len() as i64 + se;
        let got_vals = d.value_depth() as i64;
        if want_vals != got_vals {
            return Some(Err((format!("value-depth-mismatch[{:?}]", ins), format!("after {:?} at pc {}: model {} observed {}", ins, pc, want_vals, got_vals))));
        }
        if d.frame_count() != frames.len() {
            return Some(Err((format!("frame-depth-mismatch[{:?}]", ins), format!("after {:?} at pc {}: model {} observed {}", ins, pc, frames.len(), d.frame_count()))));
        }
        if !running {
            if !ended_run && !frames.is_empty() {
                return Some(Err(("run-ended-inside-call".into(), format!("pc {}", pc))));
            }
            if depth != 0 || se != 0 {
                return Some(Err(("run-ended-unbalanced".into(), format!("depth {} side-effects {}", depth, se))));
            }
            return Some(Ok(steps));
        }
        if steps >= cap {
            return None;
        }
    }
}

fn static_of(e: &E) -> Option<Result<StaticOk, (String, String)>> {
    let src = print(e)?;
    let mut d = SData::fresh(Host::none());
    let (_, bd) = compile(&src, &mut d).ok()?;
    let j = *bd.jump_index();
    match guard(|| analyse(&d, j)) {
        Ok(r) => Some(r),
        Err(p) => Some(Err((format!("panic[{}]", p), String::new()))),
    }
}

fn dyn_of<D: Subject + FrameCount>(e: &E, input: &V) -> Option<Result<usize, (String, String)>> {
    let src = print(e)?;
    match guard(|| conform::<D>(&src, input, 3_000)) {
        Ok(r) => r,
        Err(p) => Some(Err((format!("panic[{}]", p), String::new()))),
    }
}

fn dyn_check<D: Subject + FrameCount>(cx: &mut Ctx, e: &E, iname: &str, input: &V) {
    match dyn_of::<D>(e, input) {
        None => cx.count("dynamic_not_judged_compile_or_run_error", 1),
        Some(Ok(steps)) => {
            cx.count("traces_validated", 1);
            cx.count("dynamic_steps", steps as u64);
        }
        Some(Err((kind, _))) => {
            let mut fails = |c: &E| matches!(dyn_of::<D>(c, input), Some(Err((ref k, _))) if *k == kind);
            let w = shrink(e, &mut fails);
            let wsrc = print(&w).unwrap_or_default();
            let det = match dyn_of::<D>(&w, input) {
                Some(Err((_, d))) => d,
                _ => String::new(),
            };
            cx.violation(&format!("dynamic/{}", kind), &format!("{} | {} | $={}", D::NAME, wsrc.replace('\n', "\\n"), iname), json!({"mode": "dynamic", "impl": D::NAME, "src": wsrc, "input": iname, "detail": det}));
        }
    }
}


// ---- accepted inputs of the C03/C04 token corpora (K1, K2, K4): the same two checks on source text ----

fn static_of_text(src: &str) -> Option<Result<StaticOk, (String, String)>> {
    let mut d = SData::fresh(Host::none());
    let (pr, bd) = compile(src, &mut d).ok()?;
    if pr.get_nodes().is_empty() {
        // only annotations / whitespace: there is no program
        return None;
    }
    let j = *bd.jump_index();
    match guard(|| analyse(&d, j)) {
        Ok(r) => Some(r),
        Err(p) => Some(Err((format!("panic[{}]", crate::fw::panic_kind(&p)), String::new()))),
    }
}

fn dyn_of_text<D: Subject + FrameCount>(src: &str) -> Option<Result<usize, (String, String)>> {
    match guard(|| conform::<D>(src, &V::Int(5), 300)) {
        Ok(r) => r,
        Err(p) => Some(Err((format!("panic[{}]", crate::fw::panic_kind(&p)), String::new()))),
    }
}

/// failure of a source text: (coarse kind used for shrinking and as signature kind, fine kind for the report);
/// static first, then dynamic on either implementation. The coarse kind makes every input that fails for one root
/// cause shrink to the same minimal text (`1+( )`, `--( )`, `(( ))~~` all shrink to `( )`).
fn text_fail(src: &str) -> Option<(String, String)> {
    if src.contains(";;") || src.trim().is_empty() {
        return None;
    }
    if let Some(Err((k, d))) = static_of_text(src) {
        return Some(("static/unbalanced".into(), format!("{} ({})", k, d)));
    }
    if let Some(Err((k, d))) = dyn_of_text::<SData>(src) {
        return Some(("dynamic/unbalanced/simple".into(), format!("{} ({})", k, d)));
    }
    if let Some(Err((k, d))) = dyn_of_text::<BData>(src) {
        return Some(("dynamic/unbalanced/basic".into(), format!("{} ({})", k, d)));
    }
    None
}

fn text_kind(src: &str) -> Option<String> {
    text_fail(src).map(|x| x.0)
}

fn check_text(cx: &mut Ctx, src: &str) {
    if src.contains(";;") {
        cx.count("token_inputs_with_bare_terminator_excluded", 1);
        return;
    }
    if src.trim().is_empty() {
        return;
    }
    cx.eval();
    match static_of_text(src) {
        None => {
            cx.count("token_inputs_not_accepted", 1);
            return;
        }
        Some(Ok(st)) => {
            cx.count("states", st.states);
            cx.count("transitions", st.transitions);
            cx.count("token_inputs_statically_balanced", 1);
            cx.nontrivial(src);
        }
        Some(Err(_)) => {}
    }
    if let Some((kind, fine)) = text_fail(src) {
        let w = if src.len() <= 64 { pipeline::shrink_text(src, &text_kind, &kind) } else { src.to_string() };
        let wfine = text_fail(&w).map(|x| x.1).unwrap_or(fine.clone());
        cx.violation(&kind, &format!("text | {}", pipeline::show(&w)), json!({"mode": "text", "src": w, "first_seen": src, "first_seen_detail": fine, "detail": wfine}));
    } else {
        cx.count("traces_validated", 2);
    }
}

/// token-corpus inputs used: everything in the thorough tier, everything before the K4 length-6 tier in the quick tier
fn text_total(tier: Tier) -> u64 {
    tier.pick(pipeline::total_before_len6(tier), pipeline::total_before(tier, "k4-len7"))
}

fn input_by_name(name: &str) -> V {
    for (n, v) in crate::corpus::inputs() {
        if n == name {
            return v;
        }
    }
    V::Unit
}

impl Property for C06 {
    fn id(&self) -> &'static str {
        "C06"
    }
    fn level(&self) -> &'static str {
        "model_checking"
    }
    fn size(&self, tier: Tier) -> u64 {
        let s = spaces(tier);
        s.total() + text_total(tier)
    }
    fn describe(&self, tier: Tier, idx: u64) -> String {
        if idx >= spaces(tier).total() {
            return pipeline::show(&pipeline::item_text(&pipeline::item(tier, false, idx - spaces(tier).total())));
        }
        let (c, i) = locate(tier, idx);
        format!("{}#{}: {}", c.name, i, print(&c.program(i)).unwrap_or_default())
    }
    fn budget_ms(&self) -> u64 {
        // self-applying programs (`{} ~~`) run to the step cap with a growing frame chain
        15_000
    }
    fn run(&self, tier: Tier, idx: u64, cx: &mut Ctx) {
        if idx >= spaces(tier).total() {
            let it = pipeline::item(tier, false, idx - spaces(tier).total());
            if let Item::Text(..) = it {
                check_text(cx, &pipeline::item_text(&it));
            }
            return;
        }
        let (c, i) = locate(tier, idx);
        let e = c.program(i);
        cx.eval();
        match static_of(&e) {
            None => cx.count("not_accepted_or_unprintable", 1),
            Some(Ok(st)) => {
                cx.count("states", st.states);
                cx.count("transitions", st.transitions);
                cx.count("programs_statically_balanced", 1);
                if e.size() > 1 {
                    cx.nontrivial((c.name, i));
                }
            }
            Some(Err((kind, _))) => {
                let mut fails = |c: &E| matches!(static_of(c), Some(Err((ref k, _))) if *k == kind);
                let w = shrink(&e, &mut fails);
                let wsrc = print(&w).unwrap_or_default();
                let det = match static_of(&w) {
                    Some(Err((_, d))) => d,
                    _ => String::new(),
                };
                cx.violation(&format!("static/{}", kind), &wsrc.replace('\n', "\\n"), json!({"mode": "static", "src": wsrc, "detail": det}));
            }
        }
        // the loop bodies of T4 do not look at the program input; bodies that never end (reference fuel) are not run
        if c.name == "T4" && !crate::props::c01::ref_terminates(&e) {
            cx.count("t4_never_ending_bodies_not_run", 1);
            return;
        }
        let inputs: &[&str] = if c.name == "T4" { &["5", "0"] } else if c.name == "T1" || c.name == "T3" { &["5", "(:a = 1, :b = 2)", "(:a = (), 7)"] } else { &["5", "(:a = 1, :b = 2)"] };
        for iname in inputs.iter().cloned() {
            let input = input_by_name(iname);
            dyn_check::<SData>(cx, &e, iname, &input);
            dyn_check::<BData>(cx, &e, iname, &input);
        }
        cx.sample_at(99_991, || json!({"src": print(&e), "corpus": c.name}));
    }
    fn replay(&self, d: &Value, cx: &mut Ctx) {
        let src = d["src"].as_str().unwrap_or("").to_string();
        if d["mode"].as_str() == Some("text") {
            if let Some(kind) = text_kind(&src) {
                cx.violation(&kind, &format!("text | {}", pipeline::show(&src)), json!({"mode": "text", "src": src}));
            }
            return;
        }
        if d["mode"].as_str() == Some("static") {
            let mut data = SData::fresh(Host::none());
            if let Ok((_, bd)) = compile(&src, &mut data) {
                let j = *bd.jump_index();
                if let Ok(Err((kind, det))) = guard(|| analyse(&data, j)) {
                    cx.violation(&format!("static/{}", kind), &src.replace('\n', "\\n"), json!({"mode": "static", "src": src, "detail": det}));
                }
            }
        } else {
            let iname = d["input"].as_str().unwrap_or("5").to_string();
            let input = input_by_name(&iname);
            let which = d["impl"].as_str().unwrap_or("simple");
            let r = if which == "simple" { guard(|| conform::<SData>(&src, &input, 3_000)) } else { guard(|| conform::<BData>(&src, &input, 3_000)) };
            if let Ok(Some(Err((kind, det)))) = r {
                cx.violation(&format!("dynamic/{}", kind), &format!("{} | {} | $={}", which, src.replace('\n', "\\n"), iname), json!({"mode": "dynamic", "impl": which, "src": src, "input": iname, "detail": det}));
            }
        }
    }
    fn meta(&self, tier: Tier) -> Meta {
        let s = spaces(tier);
        Meta {
            rule: format!(
                "every program of the C01 corpora ({} + {} + {} + {} reapply-loop + {} call-nesting programs): static = worklist search of all abstract states (pc, operand depth, side-effect depth) reachable from the program entry and from every expression constant over the real instruction stream, invariants depth>=operand need, one depth per pc, EndExpression at depth exactly 1 outside side effects; dynamic = execution on SimpleGarnishData and BasicGarnishData with inputs 5 and (:a = 1, :b = 2) (T1, T3: also (:a = (), 7), a key holding unit), after every real step the observed operand/value/frame depths equal the abstract model's prediction and the run ends balanced; reapply loops iterate 0..4 times (T3) and as often as their guards allow (T4); a run that has not ended after 3 000 steps is not judged. The same two checks run on every input of the C03/C04 token corpora (K1 token-class sequences, K2 character strings, K4 small-scope tiers - up to length 5 in the quick tier, up to length 6 in the thorough tier; {} inputs) that the pipeline accepts and that does not contain `;;` (input 5). Non-trivial = statically balanced program with at least one operator / accepted token input.",
                s.t1.len(), s.t2.len(), s.t3.len(), s.t4.len(), s.t5.len(), text_total(tier)
            ),
            assumptions: vec![
                "the abstract model is the stack-effect table in engine/src/props/c06.rs (DESIGN.md appendix B); it is bound to the code by step-wise conformance: traces_validated_against_impl counts executions in which every real step matched the table".into(),
                "programs that do not compile or stop with a runtime error are counted, not judged (C01/C03/C07 judge them)".into(),
                "programs using `;;` are not generated; token-corpus inputs containing `;;` are excluded as the statement says".into(),
            ],
            trusted_base: vec!["stack-effect table (effect())".into(), "Subject::operand_depth / value_depth observers".into()],
            explanation: "explicit-state exploration of an abstract stack machine over real instruction streams, conformance-checked step by step against both implementations".into(),
        }
    }
}
