//! C02 - precedence, associativity and grouping follow the operator table.
//! Every expression tree with up to three operators over the whole operator alphabet is printed (a) with the
//! minimal parentheses the spec precedence table (engine/src/ast.rs levels) requires and (b) fully parenthesised;
//! `parse` must return for (a) exactly the intended tree, and for (b) the same tree up to the added group nodes.

use crate::ast::*;
use crate::fw::{Ctx, Meta, Property, Tier};
use crate::grammar::Grammar;
use crate::props::c18::canon;
use crate::props::pipeline::show;
use crate::shrink::shrink;
use crate::subj::{lex_g, parse_g};
use serde_json::{json, Value};
use std::sync::OnceLock;

pub struct C02;

const X: usize = 0;
const B: usize = 1;
const A: usize = 2;

pub fn all_bin() -> Vec<BinOp> {
    use BinOp::*;
    vec![
        Add, Sub, Mul, Div, IntDiv, Rem, Pow, BitAnd, BitOr, BitXor, Shl, Shr, Lt, Le, Gt, Ge, Eq, Ne, TypeEq, And, Or, Xor, Pair, Access, Apply, ApplyTo, Range, StartExRange, EndExRange, ExRange, Concat,
        TypeCast, Partial, CondTrue, CondFalse, Else,
    ]
}
pub fn all_pre() -> Vec<PreOp> {
    vec![PreOp::Abs, PreOp::Opp, PreOp::BitNot, PreOp::Not, PreOp::Tis, PreOp::TypeOf, PreOp::LeftInt, PreOp::Reapply]
}
pub fn all_suf() -> Vec<SufOp> {
    vec![SufOp::EmptyApply, SufOp::RightInt, SufOp::LenInt]
}

fn take2(mut v: Vec<E>) -> (E, E) {
    let a = v.remove(0);
    let c = v.remove(0);
    (a, c)
}

/// one operator per precedence level and associativity class
pub fn level_bin() -> Vec<BinOp> {
    use BinOp::*;
    vec![Access, TypeCast, Pow, Mul, Add, Shl, BitAnd, BitXor, BitOr, Range, Pair, Partial, Concat, Lt, Eq, And, Xor, Or, Apply, CondTrue, Else]
}
pub fn level_pre() -> Vec<PreOp> {
    vec![PreOp::LeftInt, PreOp::TypeOf, PreOp::Opp, PreOp::Not, PreOp::Reapply]
}
pub fn level_suf() -> Vec<SufOp> {
    vec![SufOp::EmptyApply, SufOp::LenInt]
}

pub fn grammar(max: usize, atoms: Vec<E>, structural: bool) -> Grammar {
    grammar_with(max, atoms, structural, all_bin(), all_pre(), all_suf())
}

pub fn grammar_with(max: usize, atoms: Vec<E>, structural: bool, bins: Vec<BinOp>, pres: Vec<PreOp>, sufs: Vec<SufOp>) -> Grammar {
    let mut g = Grammar::new(3);
    for a in atoms {
        g.atom(A, a);
    }
    g.alias(X, A);
    for p in pres {
        g.add(X, 1, vec![X], Box::new(move |mut v| E::Pre(p, b(v.remove(0)))));
    }
    g.add(X, 1, vec![X], Box::new(|mut v| E::PrefixApply("f".into(), b(v.remove(0)))));
    for s in sufs {
        g.add(X, 1, vec![X], Box::new(move |mut v| E::Suf(s, b(v.remove(0)))));
    }
    g.add(X, 1, vec![X], Box::new(|mut v| E::SuffixApply("f".into(), b(v.remove(0)))));
    for o in bins {
        g.add(X, 1, vec![X, X], Box::new(move |v| {
            let (l, r) = take2(v);
            E::Bin(o, b(l), b(r))
        }));
    }
    g.add(X, 1, vec![X, X], Box::new(|v| {
        let (l, r) = take2(v);
        E::InfixApply("f".into(), b(l), b(r))
    }));
    // implicit space list and comma list as binary operators (chains flatten in the AST, the tree is left-nested)
    g.add(X, 1, vec![X, X], Box::new(|v| {
        let (l, r) = take2(v);
        match l {
            E::SpaceList(mut items) => {
                items.push(r);
                E::SpaceList(items)
            }
            l => E::SpaceList(vec![l, r]),
        }
    }));
    g.add(X, 1, vec![X, X], Box::new(|v| {
        let (l, r) = take2(v);
        match l {
            E::CommaList(mut items) if items.len() > 1 => {
                items.push(r);
                E::CommaList(items)
            }
            l => E::CommaList(vec![l, r]),
        }
    }));
    if structural {
        g.add(X, 1, vec![X], Box::new(|mut v| E::Group(b(v.remove(0)))));
        g.add(X, 1, vec![B], Box::new(|mut v| E::Nested(0, b(v.remove(0)))));
        g.add(X, 1, vec![A, B], Box::new(|v| {
            let (val, eff) = take2(v);
            E::SideAfter(b(val), b(eff))
        }));
    }
    g.alias(B, X);
    g.add(B, 1, vec![X, X], Box::new(|v| {
        let (l, r) = take2(v);
        E::Bin(BinOp::Semi, b(l), b(r))
    }));
    g.add(B, 1, vec![X, X], Box::new(|v| {
        let (l, r) = take2(v);
        match l {
            E::SeqBlank(mut items) => {
                items.push(r);
                E::SeqBlank(items)
            }
            l => E::SeqBlank(vec![l, r]),
        }
    }));
    g.prepare(max);
    g
}

struct Space {
    ops2: Grammar,
    n2: u64,
    ops3: Grammar,
    n3: u64,
    deep: Grammar,
    nd: u64,
}

fn space(tier: Tier) -> &'static Space {
    static Q: OnceLock<Space> = OnceLock::new();
    static T: OnceLock<Space> = OnceLock::new();
    let mk = |deep_max: usize| {
        // up to 2 operators over two atom kinds, exactly 3 operators over one atom kind, deeper with structure
        let ops2 = grammar(5, vec![E::Int(1), E::Ident("a".into())], false);
        let n2 = ops2.count_upto(B, 5) as u64;
        let ops3 = if deep_max <= 4 { grammar_with(7, vec![E::Int(1)], false, level_bin(), level_pre(), level_suf()) } else { grammar(7, vec![E::Int(1)], false) };
        let n3 = ops3.count(B, 6) as u64 + ops3.count(B, 7) as u64;
        let deep = grammar(deep_max, vec![E::Int(1)], true);
        let nd = deep.count_upto(B, deep_max) as u64;
        Space { ops2, n2, ops3, n3, deep, nd }
    };
    match tier {
        Tier::Quick => Q.get_or_init(|| mk(4)),
        Tier::Thorough => T.get_or_init(|| mk(5)),
    }
}

fn program(tier: Tier, idx: u64) -> (E, &'static str) {
    let s = space(tier);
    if idx < s.n2 {
        (s.ops2.nth(B, idx as u128), "pairs")
    } else if idx < s.n2 + s.n3 {
        let i = idx - s.n2;
        let c6 = s.ops3.count(B, 6) as u64;
        if i < c6 { (s.ops3.unrank(B, 6, i as u128), "triples") } else { (s.ops3.unrank(B, 7, (i - c6) as u128), "triples") }
    } else {
        (s.deep.nth(B, (idx - s.n2 - s.n3) as u128), "structural")
    }
}

// ---- the intended tree in the canonical text form used for parse results ---------------------------

fn leaf(def: &str, text: &str) -> String {
    format!("({}:{} _ _)", def, text)
}

fn bin_def(o: BinOp) -> &'static str {
    use BinOp::*;
    match o {
        Add => "Addition",
        Sub => "Subtraction",
        Mul => "MultiplicationSign",
        Div => "Division",
        IntDiv => "IntegerDivision",
        Rem => "Remainder",
        Pow => "ExponentialSign",
        BitAnd => "BitwiseAnd",
        BitOr => "BitwiseOr",
        BitXor => "BitwiseXor",
        Shl => "BitwiseLeftShift",
        Shr => "BitwiseRightShift",
        Lt => "LessThan",
        Le => "LessThanOrEqual",
        Gt => "GreaterThan",
        Ge => "GreaterThanOrEqual",
        Eq => "Equality",
        Ne => "Inequality",
        TypeEq => "TypeEqual",
        And => "And",
        Or => "Or",
        Xor => "Xor",
        Pair => "Pair",
        Access => "Access",
        Apply => "Apply",
        ApplyTo => "ApplyTo",
        Range => "Range",
        StartExRange => "StartExclusiveRange",
        EndExRange => "EndExclusiveRange",
        ExRange => "ExclusiveRange",
        Concat => "Concatenation",
        TypeCast => "TypeCast",
        Partial => "PartialApply",
        Semi => "ExpressionSeparator",
        CondTrue => "JumpIfTrue",
        CondFalse => "JumpIfFalse",
        Else => "ElseJump",
    }
}

fn pre_def(o: PreOp) -> &'static str {
    match o {
        PreOp::Abs => "AbsoluteValue",
        PreOp::Opp => "Opposite",
        PreOp::BitNot => "BitwiseNot",
        PreOp::Not => "Not",
        PreOp::Tis => "Tis",
        PreOp::TypeOf => "TypeOf",
        PreOp::LeftInt => "AccessLeftInternal",
        PreOp::Reapply => "Reapply",
    }
}

fn suf_def(o: SufOp) -> &'static str {
    match o {
        SufOp::EmptyApply => "EmptyApply",
        SufOp::RightInt => "AccessRightInternal",
        SufOp::LenInt => "AccessLengthInternal",
    }
}

/// canonical text of the tree the table dictates for `e` (same format as c18::canon with groups skipped)
pub fn intended(e: &E) -> Option<String> {
    Some(match e {
        E::Unit => leaf("Unit", "()"),
        E::True => leaf("True", "$?"),
        E::False => leaf("False", "$!"),
        E::Int(i) => leaf("Number", &i.to_string()),
        E::Float(s) => leaf("Number", s),
        E::Str(s) => leaf("CharList", &format!("\"{}\"", s)),
        E::Bytes(s) => leaf("ByteList", &format!("'{}'", s)),
        E::Sym(s) => leaf("Symbol", &format!(":{}", s)),
        E::Val => leaf("Value", "$"),
        E::Ident(s) => leaf("Identifier", s),
        E::Pre(o, x) => format!("({}:{} _ {})", pre_def(*o), o.text(), intended(x)?),
        E::Suf(o, x) => format!("({}:{} {} _)", suf_def(*o), o.text(), intended(x)?),
        E::Prop(x, name) => format!("(Access:. {} {})", intended(x)?, leaf("Property", name)),
        E::Bin(BinOp::Access, l, r) if matches!(**r, E::Ident(_)) => {
            let name = match &**r {
                E::Ident(n) => n.clone(),
                _ => unreachable!(),
            };
            format!("(Access:. {} {})", intended(l)?, leaf("Property", &name))
        }
        E::Bin(BinOp::Semi, l, r) => format!("(ExpressionSeparator:; {} {})", intended(l)?, intended(r)?),
        E::Bin(o, l, r) => format!("({}:{} {} {})", bin_def(*o), o.text(), intended(l)?, intended(r)?),
        E::SpaceList(items) => {
            let mut cur = intended(&items[0])?;
            for it in &items[1..] {
                cur = format!("(List {} {})", cur, intended(it)?);
            }
            cur
        }
        E::CommaList(items) => {
            if items.len() == 1 {
                format!("(CommaList:, {} _)", intended(&items[0])?)
            } else {
                let mut cur = intended(&items[0])?;
                for it in &items[1..] {
                    cur = format!("(CommaList:, {} {})", cur, intended(it)?);
                }
                cur
            }
        }
        E::Group(x) => intended(x)?,
        E::Nested(_, x) => format!("(NestedExpression:{{ _ {})", intended(x)?),
        E::SeqBlank(items) => {
            let mut cur = intended(&items[0])?;
            for it in &items[1..] {
                cur = format!("(Subexpression {} {})", cur, intended(it)?);
            }
            cur
        }
        E::SideAfter(v, eff) => {
            // the block hangs off the atom it follows, as its right child
            let inner = intended(v)?;
            if !inner.ends_with(" _ _)") {
                return None;
            }
            format!("{} _ (SideEffect:[ _ {}))", &inner[..inner.len() - 5], intended(eff)?)
        }
        E::PrefixApply(f, x) => format!("(PrefixApply:{}` _ {})", f, intended(x)?),
        E::SuffixApply(f, x) => format!("(SuffixApply:`{} {} _)", f, intended(x)?),
        E::InfixApply(f, l, r) => format!("(InfixApply:`{}` {} {})", f, intended(l)?, intended(r)?),
        E::Cond(..) | E::SideBefore(..) => return None,
    })
}

thread_local! {
    /// what print_full writes for an opening / closing parenthesis (layout inside a group carries no meaning)
    static PAREN: std::cell::Cell<(&'static str, &'static str)> = std::cell::Cell::new(("(", ")"));
}

/// group layouts: tight, spaces inside, a line break inside, a blank line inside
const PAREN_STYLES: [(&str, &str); 4] = [("(", ")"), ("( ", " )"), ("(\n", "\n)"), ("(\n\n", "\n\n)")];

fn paren(inner: &str) -> String {
    let (o, c) = PAREN.with(|p| p.get());
    format!("{}{}{}", o, inner, c)
}

/// fully parenthesised source: every operand of every operator in ( )
pub fn print_full(e: &E) -> Option<String> {
    let p = |x: &E| -> Option<String> {
        Some(match x {
            E::Unit | E::True | E::False | E::Int(_) | E::Float(_) | E::Str(_) | E::Bytes(_) | E::Sym(_) | E::Val | E::Ident(_) | E::Group(_) | E::Nested(..) => print_full(x)?,
            _ => paren(&print_full(x)?),
        })
    };
    Some(match e {
        E::Pre(o, x) => format!("{} {}", o.text(), p(x)?),
        E::Suf(o, x) => format!("{} {}", p(x)?, o.text()),
        E::Prop(x, name) => {
            let i = p(x)?;
            if i.ends_with(|c: char| c.is_ascii_digit()) { format!("{} . {}", i, name) } else { format!("{}.{}", i, name) }
        }
        E::Bin(BinOp::Semi, ..) | E::SeqBlank(_) => return None, // sequences cannot be parenthesised
        E::Bin(BinOp::Access, l, r) if matches!(**r, E::Ident(_)) => format!("{} . {}", p(l)?, print(r)?),
        E::Bin(o, l, r) => format!("{} {} {}", p(l)?, o.text(), p(r)?),
        E::SpaceList(items) => {
            let mut cur = p(&items[0])?;
            for (k, it) in items[1..].iter().enumerate() {
                cur = if k == 0 { format!("{} {}", cur, p(it)?) } else { format!("{} {}", paren(&cur), p(it)?) };
            }
            cur
        }
        E::CommaList(items) => {
            if items.len() == 1 {
                format!("{},", p(&items[0])?)
            } else {
                let mut cur = p(&items[0])?;
                for (k, it) in items[1..].iter().enumerate() {
                    cur = if k == 0 { format!("{}, {}", cur, p(it)?) } else { format!("{}, {}", paren(&cur), p(it)?) };
                }
                cur
            }
        }
        E::Group(x) => paren(&print_full(x)?),
        E::Nested(_, x) => format!("{{ {} }}", print_full(x).or_else(|| print(x))?),
        E::SideAfter(v, eff) => format!("{} [{}]", print(v)?, print_full(eff).or_else(|| print(eff))?),
        E::PrefixApply(f, x) => format!("{}` {}", f, p(x)?),
        E::SuffixApply(f, x) => format!("{} `{}", p(x)?, f),
        E::InfixApply(f, l, r) => format!("{} `{}` {}", p(l)?, f, p(r)?),
        E::Cond(..) | E::SideBefore(..) => return None,
        atom => print(atom)?,
    })
}

fn tree_of(src: &str) -> Result<String, String> {
    let t = lex_g(src).map_err(|f| f.kind())?;
    let p = parse_g(&t).map_err(|f| f.kind())?;
    Ok(canon(&p, true, false))
}

/// Some(kind) when the implementation's tree for `e` is not the intended one
fn verdict(e: &E) -> Option<(String, String, String)> {
    IDEAL_SUFFIX.with(|f| f.set(true));
    let src = print(e);
    IDEAL_SUFFIX.with(|f| f.set(false));
    let src = src?;
    let want = intended(e)?;
    match tree_of(&src) {
        Err(k) => Some((format!("well-formed-expression-rejected[{}]", k), src, want)),
        Ok(got) => {
            if got != want {
                return Some(("tree-differs-from-table".into(), src, format!("{} (intended {})", got, want)));
            }
            // writing out the parentheses the table implies changes nothing but group nodes
            for (si, style) in PAREN_STYLES.iter().enumerate() {
                PAREN.with(|p| p.set(*style));
                let full = print_full(e);
                PAREN.with(|p| p.set(PAREN_STYLES[0]));
                let full = match full {
                    Some(f) => f,
                    None => break,
                };
                let tag = if si == 0 { String::new() } else { format!("/group-layout-{}", si) };
                match tree_of(&full) {
                    Ok(g2) if g2 == got => {}
                    Ok(g2) => return Some((format!("explicit-parentheses-change-the-tree{}", tag), src, format!("{} => {} (minimal {})", show(&full), g2, got))),
                    Err(k) => return Some((format!("fully-parenthesised-form-rejected[{}]{}", k, tag), src, show(&full))),
                }
            }
            None
        }
    }
}

fn op_signature(e: &E) -> String {
    // operators in source order, for the coverage counters
    fn go(e: &E, out: &mut Vec<String>) {
        match e {
            E::Pre(o, x) => {
                out.push(o.text().into());
                go(x, out)
            }
            E::Suf(o, x) => {
                go(x, out);
                out.push(o.text().into())
            }
            E::Bin(o, l, r) => {
                go(l, out);
                out.push(o.text().into());
                go(r, out)
            }
            E::SpaceList(v) => {
                for (i, x) in v.iter().enumerate() {
                    if i > 0 {
                        out.push("<space>".into());
                    }
                    go(x, out)
                }
            }
            E::CommaList(v) => {
                for (i, x) in v.iter().enumerate() {
                    if i > 0 {
                        out.push(",".into());
                    }
                    go(x, out)
                }
            }
            E::SeqBlank(v) => {
                for (i, x) in v.iter().enumerate() {
                    if i > 0 {
                        out.push("<blank>".into());
                    }
                    go(x, out)
                }
            }
            E::PrefixApply(_, x) => {
                out.push("f`".into());
                go(x, out)
            }
            E::SuffixApply(_, x) => {
                go(x, out);
                out.push("`f".into())
            }
            E::InfixApply(_, l, r) => {
                go(l, out);
                out.push("`f`".into());
                go(r, out)
            }
            E::Prop(x, _) | E::Group(x) | E::Nested(_, x) => go(x, out),
            E::SideAfter(v, x) => {
                go(v, out);
                go(x, out)
            }
            _ => {}
        }
    }
    let mut v = vec![];
    go(e, &mut v);
    v.join(" ")
}

impl Property for C02 {
    fn id(&self) -> &'static str {
        "C02"
    }
    fn level(&self) -> &'static str {
        "exploration"
    }
    fn size(&self, tier: Tier) -> u64 {
        let s = space(tier);
        s.n2 + s.n3 + s.nd
    }
    fn describe(&self, tier: Tier, idx: u64) -> String {
        let (e, _) = program(tier, idx);
        IDEAL_SUFFIX.with(|f| f.set(true));
        let s = print(&e).unwrap_or_default();
        IDEAL_SUFFIX.with(|f| f.set(false));
        s
    }
    fn run(&self, tier: Tier, idx: u64, cx: &mut Ctx) {
        let (e, seg) = program(tier, idx);
        cx.eval();
        if intended(&e).is_none() {
            cx.count("not_expressible", 1);
            return;
        }
        cx.count(&format!("expressions_{}", seg), 1);
        cx.nontrivial(op_signature(&e));
        match verdict(&e) {
            None => cx.count("agree", 1),
            Some((kind, _, _)) => {
                let mut fails = |c: &E| matches!(verdict(c), Some((ref k, _, _)) if *k == kind);
                let w = shrink(&e, &mut fails);
                let (_, wsrc, detail) = verdict(&w).unwrap_or((kind.clone(), String::new(), String::new()));
                cx.violation(&kind, &show(&wsrc), json!({"src": wsrc, "detail": detail, "operators": op_signature(&w), "ast": format!("{:?}", w)}));
            }
        }
        cx.sample_at(50_021, || {
            IDEAL_SUFFIX.with(|f| f.set(true));
            let s = print(&e);
            IDEAL_SUFFIX.with(|f| f.set(false));
            json!({"minimal": s, "fully_parenthesised": print_full(&e), "intended_tree": intended(&e)})
        });
    }
    fn replay(&self, d: &Value, cx: &mut Ctx) {
        // the recorded source must parse to the recorded intended tree
        let src = d["src"].as_str().unwrap_or("");
        let detail = d["detail"].as_str().unwrap_or("");
        let intended_tree = detail.split("(intended ").nth(1).map(|s| s.trim_end_matches(')').to_string() + ")");
        match (tree_of(src), intended_tree) {
            (Err(k), _) => cx.violation(&format!("well-formed-expression-rejected[{}]", k), &show(src), json!({"src": src})),
            (Ok(got), Some(want)) => {
                // the split above removed one ')' too many only when the tree ended the string; compare loosely
                if got != want && format!("{})", got) != want && got != format!("{})", want) {
                    cx.violation("tree-differs-from-table", &show(src), json!({"src": src, "got": got, "intended": want}));
                }
            }
            (Ok(got), None) => {
                // explicit-parentheses kinds: "<full> => <tree> (minimal <tree>)"
                if let Some(full) = detail.split(" => ").next() {
                    if let Ok(g2) = tree_of(full) {
                        if g2 != got {
                            cx.violation("explicit-parentheses-change-the-tree", &show(src), json!({"src": src, "full": full, "got": g2, "minimal": got}));
                        }
                    }
                }
            }
        }
    }
    fn meta(&self, tier: Tier) -> Meta {
        let s = space(tier);
        Meta {
            rule: format!("every expression tree with <= 2 operator nodes over atoms {{1, a}} ({} trees) and with exactly 3 operator nodes over the atom 1 ({} trees; quick tier: one operator per precedence level and associativity class, thorough tier: all operators) - operators: 36 infix forms (arithmetic, bitwise, comparison, equality, logical, pair, access, apply, apply-to, ranges, concatenation, cast, partial apply, ?> !> |>), implicit space list, comma list, `;`, blank line, infix/prefix/suffix apply by identifier, 8 prefix and 3 suffix operators, i.e. every ordered pair and triple in every nesting - plus structural trees with groups, nested expressions and side-effect blocks up to {} nodes ({} trees). Each tree is printed with the minimal parentheses of the spec precedence table and fully parenthesised; `parse` of the minimal text must give exactly the intended tree (canonical definition/token form, group nodes skipped) and the fully parenthesised text the same tree. Non-trivial/distinct = distinct operator sequences in source order.", s.n2, s.n3, tier.pick(4, 5), s.nd),
            assumptions: vec![
                "the operator table is the level/associativity table in engine/src/ast.rs, transcribed from make_priority_map and get_definition (DESIGN.md appendix C); a suffix-operator expression is a complete left operand of whatever follows".into(),
                "sequences (`;`, blank line) cannot be parenthesised and have no fully parenthesised form".into(),
            ],
            trusted_base: vec!["engine/src/ast.rs printer and levels".into(), "intended() tree builder".into()],
            explanation: "bounded-exhaustive enumeration of operator pairs/triples with a table-derived intended tree and a parenthesisation metamorphic relation".into(),
        }
    }
}
