//! C09 - number arithmetic is exact or unit, never wrapped.
//! Bounded-exhaustive: all ordered pairs of a boundary lattice x every operation, float/mixed pairs,
//! and the same operations through the runtime instructions on both data implementations.

use crate::fw::{guard, panic_kind, Ctx, Meta, Property, Tier};
use crate::subj::{BData, Host, SData, Subject};
use crate::val::{get, put, V};
use garnish_lang_runtime::ops;
use garnish_lang_simple_data::SimpleNumber;
use garnish_lang_traits::{GarnishData, GarnishNumber};
use serde_json::{json, Value};

pub struct C09;

#[derive(Clone, Copy, Debug, PartialEq)]
pub enum Op {
    Plus,
    Subtract,
    Multiply,
    Divide,
    IntegerDivide,
    Power,
    Remainder,
    And,
    Or,
    Xor,
    Shl,
    Shr,
    // unary
    Abs,
    Opposite,
    Increment,
    Decrement,
    Not,
}

pub const BINARY: [Op; 12] = [Op::Plus, Op::Subtract, Op::Multiply, Op::Divide, Op::IntegerDivide, Op::Power, Op::Remainder, Op::And, Op::Or, Op::Xor, Op::Shl, Op::Shr];
pub const UNARY: [Op; 5] = [Op::Abs, Op::Opposite, Op::Increment, Op::Decrement, Op::Not];

impl Op {
    pub fn name(self) -> &'static str {
        match self {
            Op::Plus => "plus",
            Op::Subtract => "subtract",
            Op::Multiply => "multiply",
            Op::Divide => "divide",
            Op::IntegerDivide => "integer_divide",
            Op::Power => "power",
            Op::Remainder => "remainder",
            Op::And => "bitwise_and",
            Op::Or => "bitwise_or",
            Op::Xor => "bitwise_xor",
            Op::Shl => "bitwise_shift_left",
            Op::Shr => "bitwise_shift_right",
            Op::Abs => "absolute_value",
            Op::Opposite => "opposite",
            Op::Increment => "increment",
            Op::Decrement => "decrement",
            Op::Not => "bitwise_not",
        }
    }
    pub fn from_name(s: &str) -> Option<Op> {
        BINARY.iter().chain(UNARY.iter()).cloned().find(|o| o.name() == s)
    }
    fn apply2(self, a: SimpleNumber, b: SimpleNumber) -> Option<SimpleNumber> {
        match self {
            Op::Plus => a.plus(b),
            Op::Subtract => a.subtract(b),
            Op::Multiply => a.multiply(b),
            Op::Divide => a.divide(b),
            Op::IntegerDivide => a.integer_divide(b),
            Op::Power => a.power(b),
            Op::Remainder => a.remainder(b),
            Op::And => a.bitwise_and(b),
            Op::Or => a.bitwise_or(b),
            Op::Xor => a.bitwise_xor(b),
            Op::Shl => a.bitwise_shift_left(b),
            Op::Shr => a.bitwise_shift_right(b),
            _ => unreachable!(),
        }
    }
    fn apply1(self, a: SimpleNumber) -> Option<SimpleNumber> {
        match self {
            Op::Abs => a.absolute_value(),
            Op::Opposite => a.opposite(),
            Op::Increment => a.increment(),
            Op::Decrement => a.decrement(),
            Op::Not => a.bitwise_not(),
            _ => unreachable!(),
        }
    }
}

/// What the property allows as outcome.
#[derive(Clone, Debug, PartialEq)]
pub enum Expect {
    Unit,
    Int(i32),
    Float(f64),
    /// either unit or this integer (statement silent): `<<` whose exact product is not representable
    UnitOrInt(i32),
}

fn fit(x: i128) -> Expect {
    if x >= i32::MIN as i128 && x <= i32::MAX as i128 { Expect::Int(x as i32) } else { Expect::Unit }
}

fn fin(f: f64) -> Expect {
    if f.is_finite() { Expect::Float(f) } else { Expect::Unit }
}

pub fn oracle2(op: Op, a: SimpleNumber, b: SimpleNumber) -> Expect {
    use SimpleNumber::*;
    match (a, b) {
        (Integer(x), Integer(y)) => {
            let (x, y) = (x as i128, y as i128);
            match op {
                Op::Plus => fit(x + y),
                Op::Subtract => fit(x - y),
                Op::Multiply => fit(x * y),
                Op::Divide | Op::IntegerDivide => {
                    if y == 0 { Expect::Unit } else { fit(x / y) } // i128 division truncates toward zero
                }
                Op::Remainder => {
                    if y == 0 {
                        Expect::Unit
                    } else if x == i32::MIN as i128 && y == -1 {
                        Expect::Unit // the quotient overflows; the statement counts this as overflow
                    } else {
                        fit(x % y)
                    }
                }
                Op::Power => {
                    if y < 0 {
                        return Expect::Unit;
                    }
                    // repeated multiplication with early exit
                    let mut acc: i128 = 1;
                    let mut n = y;
                    if x == 0 || x == 1 {
                        return fit(if n == 0 { 1 } else { x });
                    }
                    if x == -1 {
                        return fit(if n % 2 == 0 { 1 } else { -1 });
                    }
                    while n > 0 {
                        acc *= x;
                        if acc.abs() > (1i128 << 40) {
                            return Expect::Unit;
                        }
                        n -= 1;
                    }
                    fit(acc)
                }
                Op::And => Expect::Int((x as i32) & (y as i32)),
                Op::Or => Expect::Int((x as i32) | (y as i32)),
                Op::Xor => Expect::Int((x as i32) ^ (y as i32)),
                Op::Shl => {
                    if !(0..=31).contains(&y) {
                        Expect::Unit
                    } else {
                        let exact = x << y;
                        match fit(exact) {
                            Expect::Int(v) => Expect::Int(v),
                            _ => Expect::UnitOrInt((x as i32).wrapping_shl(y as u32)),
                        }
                    }
                }
                Op::Shr => {
                    if !(0..=31).contains(&y) {
                        Expect::Unit
                    } else {
                        // floor(x / 2^y)
                        Expect::Int((x >> y) as i32)
                    }
                }
                _ => unreachable!(),
            }
        }
        _ => {
            let x = match a {
                Integer(v) => v as f64,
                Float(f) => f,
            };
            let y = match b {
                Integer(v) => v as f64,
                Float(f) => f,
            };
            match op {
                Op::Plus => fin(x + y),
                Op::Subtract => fin(x - y),
                Op::Multiply => fin(x * y),
                Op::Divide => {
                    if y == 0.0 { Expect::Unit } else { fin(x / y) }
                }
                Op::IntegerDivide => {
                    if y == 0.0 {
                        Expect::Unit
                    } else {
                        let q = (x / y).trunc();
                        if q.is_finite() && q >= i32::MIN as f64 && q <= i32::MAX as f64 { Expect::Int(q as i32) } else { Expect::Unit }
                    }
                }
                Op::Remainder => {
                    if y == 0.0 { Expect::Unit } else { fin(x % y) }
                }
                Op::Power => {
                    if y < 0.0 { Expect::Unit } else { fin(x.powf(y)) }
                }
                Op::And | Op::Or | Op::Xor | Op::Shl | Op::Shr => Expect::Unit,
                _ => unreachable!(),
            }
        }
    }
}

pub fn oracle1(op: Op, a: SimpleNumber) -> Expect {
    use SimpleNumber::*;
    match a {
        Integer(x) => {
            let x = x as i128;
            match op {
                Op::Abs => fit(x.abs()),
                Op::Opposite => fit(-x),
                Op::Increment => fit(x + 1),
                Op::Decrement => fit(x - 1),
                Op::Not => Expect::Int(!(x as i32)),
                _ => unreachable!(),
            }
        }
        Float(f) => match op {
            Op::Abs => fin(f.abs()),
            Op::Opposite => fin(-f),
            Op::Increment => fin(f + 1.0),
            Op::Decrement => fin(f - 1.0),
            Op::Not => Expect::Unit,
            _ => unreachable!(),
        },
    }
}

fn matches(e: &Expect, got: &Option<SimpleNumber>) -> bool {
    match (e, got) {
        (Expect::Unit, None) => true,
        (Expect::Int(x), Some(SimpleNumber::Integer(y))) => x == y,
        (Expect::Float(x), Some(SimpleNumber::Float(y))) => x.to_bits() == y.to_bits() || x == y,
        (Expect::UnitOrInt(_), None) => true,
        (Expect::UnitOrInt(x), Some(SimpleNumber::Integer(y))) => x == y,
        _ => false,
    }
}

fn matches_v(e: &Expect, got: &V) -> bool {
    match (e, got) {
        (Expect::Unit, V::Unit) => true,
        (Expect::Int(x), V::Int(y)) => x == y,
        (Expect::Float(x), V::Float(y)) => x.to_bits() == y.to_bits() || x == y,
        (Expect::UnitOrInt(_), V::Unit) => true,
        (Expect::UnitOrInt(x), V::Int(y)) => x == y,
        _ => false,
    }
}

fn class(e: &Expect, got: &str) -> String {
    let ex = match e {
        Expect::Unit => "unit",
        Expect::Int(_) => "integer",
        Expect::Float(_) => "float",
        Expect::UnitOrInt(_) => "unit-or-integer",
    };
    format!("expected-{}-got-{}", ex, got)
}

pub fn lattice() -> Vec<i32> {
    let mut v: Vec<i64> = vec![i32::MIN as i64, i32::MIN as i64 + 1, -1, 0, 1, i32::MAX as i64 - 1, i32::MAX as i64];
    for k in 1..=30 {
        let p = 1i64 << k;
        for d in [-1i64, 0, 1] {
            v.push(p + d);
            v.push(-p + d);
        }
    }
    v.sort();
    v.dedup();
    v.into_iter().filter(|x| *x >= i32::MIN as i64 && *x <= i32::MAX as i64).map(|x| x as i32).collect()
}

pub fn sub_lattice() -> Vec<i32> {
    vec![i32::MIN, i32::MIN + 1, -65537, -65536, -32769, -256, -33, -32, -31, -3, -2, -1, 0, 1, 2, 3, 5, 31, 32, 33, 255, 46340, 46341, 65536, i32::MAX - 1, i32::MAX]
}

pub fn floats() -> Vec<f64> {
    vec![
        0.0,
        -0.0,
        f64::from_bits(1), // min subnormal
        1e-300,
        0.5,
        -0.5,
        1.5,
        -1.5,
        3.0,
        -8.0,
        1e15 + 0.5,
        2147483648.0,
        -2147483649.0,
        1e300,
        -1e300,
        f64::MAX,
        f64::MIN,
    ]
}

fn shift_counts() -> Vec<i32> {
    (-33..=65).collect()
}

fn kind_of(n: SimpleNumber) -> &'static str {
    match n {
        SimpleNumber::Integer(_) => "int",
        SimpleNumber::Float(_) => "float",
    }
}

fn wit2(op: Op, a: SimpleNumber, b: SimpleNumber) -> String {
    format!("{}({},{})", op.name(), kind_of(a), kind_of(b))
}

fn wit1(op: Op, a: SimpleNumber) -> String {
    format!("{}({})", op.name(), kind_of(a))
}

fn num_show(n: SimpleNumber) -> String {
    match n {
        SimpleNumber::Integer(i) => format!("{}", i),
        SimpleNumber::Float(f) => format!("{:?}f", f),
    }
}

fn num_json(n: SimpleNumber) -> Value {
    match n {
        SimpleNumber::Integer(i) => json!({"i": i}),
        SimpleNumber::Float(f) => json!({"f_bits": f.to_bits().to_string()}),
    }
}

fn num_from_json(v: &Value) -> Option<SimpleNumber> {
    if let Some(i) = v.get("i").and_then(|x| x.as_i64()) {
        return Some(SimpleNumber::Integer(i as i32));
    }
    v.get("f_bits").and_then(|x| x.as_str()).and_then(|s| s.parse::<u64>().ok()).map(|b| SimpleNumber::Float(f64::from_bits(b)))
}

fn check_direct2(cx: &mut Ctx, op: Op, a: SimpleNumber, b: SimpleNumber) {
    cx.eval();
    let e = oracle2(op, a, b);
    let detail = || json!({"mode": "direct", "op": op.name(), "a": num_json(a), "b": num_json(b), "shown": format!("{}({}, {})", op.name(), num_show(a), num_show(b)), "expected": format!("{:?}", e)});
    match guard(|| op.apply2(a, b)) {
        Err(p) => cx.violation(&format!("panic[{}]", panic_kind(&p)), &wit2(op, a, b), detail()),
        Ok(got) => {
            if !matches(&e, &got) {
                let g = match got {
                    None => "unit".to_string(),
                    Some(SimpleNumber::Integer(_)) => "integer".to_string(),
                    Some(SimpleNumber::Float(f)) => if f.is_nan() { "nan".into() } else { "float".to_string() },
                };
                let mut d = detail();
                d["got"] = json!(format!("{:?}", got));
                cx.violation(&class(&e, &g), &wit2(op, a, b), d);
            }
        }
    }
    if !matches!(e, Expect::Unit) {
        cx.nontrivial(("d2", op.name(), num_show(a), num_show(b)));
    }
}

fn check_direct1(cx: &mut Ctx, op: Op, a: SimpleNumber) {
    cx.eval();
    let e = oracle1(op, a);
    let detail = || json!({"mode": "direct1", "op": op.name(), "a": num_json(a), "shown": format!("{}({})", op.name(), num_show(a)), "expected": format!("{:?}", e)});
    match guard(|| op.apply1(a)) {
        Err(p) => cx.violation(&format!("panic[{}]", panic_kind(&p)), &wit1(op, a), detail()),
        Ok(got) => {
            if !matches(&e, &got) {
                let g = match got {
                    None => "unit",
                    Some(SimpleNumber::Integer(_)) => "integer",
                    Some(SimpleNumber::Float(_)) => "float",
                };
                let mut d = detail();
                d["got"] = json!(format!("{:?}", got));
                cx.violation(&class(&e, g), &wit1(op, a), d);
            }
        }
    }
    if !matches!(e, Expect::Unit) {
        cx.nontrivial(("d1", op.name(), num_show(a)));
    }
}

/// through the runtime instruction on a data implementation
fn check_instr<D: Subject>(cx: &mut Ctx, op: Op, a: SimpleNumber, b: Option<SimpleNumber>) {
    cx.eval();
    let e = match b {
        Some(b) => oracle2(op, a, b),
        None => oracle1(op, a),
    };
    let detail = || {
        json!({"mode": "instr", "impl": D::NAME, "op": op.name(), "a": num_json(a), "b": b.map(num_json),
               "shown": format!("{} {}({}, {:?})", D::NAME, op.name(), num_show(a), b.map(num_show)), "expected": format!("{:?}", e)})
    };
    let wit = format!("{}/{}", D::NAME, match b { Some(b) => wit2(op, a, b), None => wit1(op, a) });
    let mut d = D::fresh(Host::none());
    let r = guard(|| -> Result<V, String> {
        // some unrelated values first so that addresses are not trivially 0/1
        let _ = put(&mut d, &V::str("pad")).map_err(|e| format!("{}", e))?;
        let la = d.add_number(a).map_err(|e| format!("{}", e))?;
        d.push_register(la).map_err(|e| format!("{}", e))?;
        if let Some(b) = b {
            let ra = d.add_number(b).map_err(|e| format!("{}", e))?;
            d.push_register(ra).map_err(|e| format!("{}", e))?;
        }
        let before = d.operand_depth();
        let r = match op {
            Op::Plus => ops::add(&mut d),
            Op::Subtract => ops::subtract(&mut d),
            Op::Multiply => ops::multiply(&mut d),
            Op::Divide => ops::divide(&mut d),
            Op::IntegerDivide => ops::integer_divide(&mut d),
            Op::Power => ops::power(&mut d),
            Op::Remainder => ops::remainder(&mut d),
            Op::And => ops::bitwise_and(&mut d),
            Op::Or => ops::bitwise_or(&mut d),
            Op::Xor => ops::bitwise_xor(&mut d),
            Op::Shl => ops::bitwise_left_shift(&mut d),
            Op::Shr => ops::bitwise_right_shift(&mut d),
            Op::Abs => ops::absolute_value(&mut d),
            Op::Opposite => ops::opposite(&mut d),
            Op::Not => ops::bitwise_not(&mut d),
            Op::Increment | Op::Decrement => unreachable!(),
        };
        r.map_err(|e| format!("err:{}", e.get_message()))?;
        let after = d.operand_depth();
        let want = if b.is_some() { before - 1 } else { before };
        if after != want {
            return Err(format!("depth {} -> {}", before, after));
        }
        let top = d.pop_register().map_err(|e| format!("{}", e))?.ok_or("empty register")?;
        Ok(get(&d, top))
    });
    match r {
        Err(p) => cx.violation(&format!("instr-panic[{}]", panic_kind(&p)), &wit, detail()),
        Ok(Err(m)) => {
            let mut dd = detail();
            dd["got"] = json!(m);
            cx.violation("instr-error", &wit, dd)
        }
        Ok(Ok(v)) => {
            if !matches_v(&e, &v) {
                let mut dd = detail();
                dd["got"] = json!(v.show());
                cx.violation(&format!("instr-{}", class(&e, &format!("{:?}", v.type_of()).to_lowercase())), &wit, dd);
            }
        }
    }
    if !matches!(e, Expect::Unit) {
        cx.nontrivial(("in", D::NAME, op.name(), num_show(a), b.map(num_show)));
    }
}

struct Layout {
    lat: Vec<i32>,
    sub: Vec<i32>,
    fl: Vec<f64>,
    shifts: Vec<i32>,
    mixed: Vec<SimpleNumber>,
}

fn layout(_tier: Tier) -> Layout {
    let lat = lattice();
    let sub = sub_lattice();
    let fl = floats();
    let mut mixed: Vec<SimpleNumber> = sub.iter().map(|i| SimpleNumber::Integer(*i)).collect();
    mixed.extend(fl.iter().map(|f| SimpleNumber::Float(*f)));
    Layout { lat, sub, fl, shifts: shift_counts(), mixed }
}

// segments: [int pairs: BINARY x lat] [shift: 2 x lat] [unary: UNARY x 1] [mixed: BINARY x mixed (only pairs with a float)] [instr: ops x sub x 2 impls]
fn segments(l: &Layout) -> Vec<(&'static str, u64)> {
    vec![
        ("int-pairs", (BINARY.len() * l.lat.len()) as u64),
        ("shifts", (2 * l.lat.len()) as u64),
        ("unary", UNARY.len() as u64),
        ("mixed", (BINARY.len() * l.mixed.len()) as u64),
        ("instr", ((BINARY.len() + 3) * l.sub.len() * 2) as u64),
    ]
}

fn locate(segs: &[(&'static str, u64)], mut idx: u64) -> (&'static str, u64) {
    for (n, c) in segs {
        if idx < *c {
            return (n, idx);
        }
        idx -= c;
    }
    ("none", 0)
}

impl Property for C09 {
    fn id(&self) -> &'static str {
        "C09"
    }
    fn level(&self) -> &'static str {
        "exploration"
    }
    fn size(&self, tier: Tier) -> u64 {
        segments(&layout(tier)).iter().map(|s| s.1).sum()
    }
    fn describe(&self, tier: Tier, idx: u64) -> String {
        let l = layout(tier);
        let (s, i) = locate(&segments(&l), idx);
        format!("{}#{}", s, i)
    }
    fn run(&self, tier: Tier, idx: u64, cx: &mut Ctx) {
        let l = layout(tier);
        let segs = segments(&l);
        let (s, i) = locate(&segs, idx);
        let i = i as usize;
        match s {
            "int-pairs" => {
                let op = BINARY[i / l.lat.len()];
                let a = l.lat[i % l.lat.len()];
                for b in &l.lat {
                    check_direct2(cx, op, SimpleNumber::Integer(a), SimpleNumber::Integer(*b));
                }
                cx.sample_at(97, || json!(format!("{}({}, <every lattice value>)", op.name(), a)));
            }
            "shifts" => {
                let op = [Op::Shl, Op::Shr][i / l.lat.len()];
                let a = l.lat[i % l.lat.len()];
                for b in &l.shifts {
                    check_direct2(cx, op, SimpleNumber::Integer(a), SimpleNumber::Integer(*b));
                }
            }
            "unary" => {
                let op = UNARY[i];
                for a in &l.lat {
                    check_direct1(cx, op, SimpleNumber::Integer(*a));
                }
                for f in &l.fl {
                    check_direct1(cx, op, SimpleNumber::Float(*f));
                }
            }
            "mixed" => {
                let op = BINARY[i / l.mixed.len()];
                let a = l.mixed[i % l.mixed.len()];
                for b in &l.mixed {
                    if matches!(a, SimpleNumber::Integer(_)) && matches!(b, SimpleNumber::Integer(_)) {
                        continue;
                    }
                    check_direct2(cx, op, a, *b);
                }
                cx.sample_at(53, || json!(format!("{}({}, <every mixed value>)", op.name(), num_show(a))));
            }
            "instr" => {
                let per_impl = (BINARY.len() + 3) * l.sub.len();
                let which = i / per_impl;
                let j = i % per_impl;
                let opi = j / l.sub.len();
                let a = SimpleNumber::Integer(l.sub[j % l.sub.len()]);
                let instr_unary = [Op::Abs, Op::Opposite, Op::Not];
                if opi < BINARY.len() {
                    let op = BINARY[opi];
                    let mut bs: Vec<SimpleNumber> = l.sub.iter().map(|x| SimpleNumber::Integer(*x)).collect();
                    bs.push(SimpleNumber::Float(0.5));
                    bs.push(SimpleNumber::Float(0.0));
                    bs.push(SimpleNumber::Float(-8.0));
                    for b in bs {
                        if which == 0 { check_instr::<SData>(cx, op, a, Some(b)) } else { check_instr::<BData>(cx, op, a, Some(b)) }
                    }
                } else {
                    let op = instr_unary[opi - BINARY.len()];
                    if which == 0 { check_instr::<SData>(cx, op, a, None) } else { check_instr::<BData>(cx, op, a, None) }
                    let f = SimpleNumber::Float(-1.5);
                    if which == 0 { check_instr::<SData>(cx, op, f, None) } else { check_instr::<BData>(cx, op, f, None) }
                }
            }
            _ => {}
        }
    }
    fn replay(&self, d: &Value, cx: &mut Ctx) {
        let op = match d["op"].as_str().and_then(Op::from_name) {
            Some(o) => o,
            None => return,
        };
        let a = match num_from_json(&d["a"]) {
            Some(a) => a,
            None => return,
        };
        let b = num_from_json(&d["b"]);
        match d["mode"].as_str().unwrap_or("") {
            "direct" => {
                if let Some(b) = b {
                    check_direct2(cx, op, a, b)
                }
            }
            "direct1" => check_direct1(cx, op, a),
            "instr" => {
                if d["impl"].as_str() == Some("simple") { check_instr::<SData>(cx, op, a, b) } else { check_instr::<BData>(cx, op, a, b) }
            }
            _ => {}
        }
    }
    fn meta(&self, _tier: Tier) -> Meta {
        Meta {
            rule: "every ordered pair of the i32 boundary lattice (MIN, MIN+1, +-2^k and neighbours for k=1..30, -1, 0, 1, MAX-1, MAX) x 12 binary GarnishNumber methods; every lattice value x shift counts -33..65; 5 unary methods on lattice+floats; every pair with at least one float from 26 integers + 17 floats x 12 methods; the Add..BitwiseShiftRight / Opposite / AbsoluteValue / BitwiseNot instructions on both data implementations over a 26-value sub-lattice. Oracle: i128 / IEEE-754 reference. A case is non-trivial when the reference result is a number (not unit); distinct by (mode, op, operands).".into(),
            assumptions: vec![
                "integer behaviour is covered on the boundary lattice, not on all 2^64 pairs".into(),
                "float reference = the same IEEE-754 operation on f64 (f64::powf for power, % for remainder); only promotion, result kind and the non-finite -> unit mapping are judged".into(),
                "`<<` with an in-range count whose exact product is not representable: unit and the two's-complement pattern are both accepted (statement silent)".into(),
            ],
            trusted_base: vec!["engine/src/props/c09.rs oracle2/oracle1 (i128 arithmetic)".into(), "rustc f64 arithmetic".into()],
            explanation: "bounded-exhaustive enumeration of operand pairs against a wide-arithmetic reference".into(),
        }
    }
}
