//! C20 - programs built into a shared data object do not disturb each other.
//! Explicit-state search: states are histories of build(p) / run(p) / residue events over every ordered
//! selection of 2..3 programs from a pool; every transition executes the real build / real run on a real data
//! object cloned from its parent state; the invariant is evaluated in every state.

use crate::ast::print;
use crate::corpus::Corpus;
use crate::fw::{guard, Ctx, Meta, Property, Tier};
use crate::props::c01::{ref_terminates, spaces};
use crate::props::pipeline::{check_stream, snapshot};
use crate::subj::{build_g, current_value, lex_g, parse_g, run_to_end, start, BData, Host, SData, Subject};
use crate::val::{get, V};
use garnish_lang_traits::{GarnishData, GarnishDataType, Instruction};
use serde_json::{json, Value};

pub struct C20;

pub const POOL: [&str; 12] = [
    "1 + 2 * 3",
    "$ > 3 ?> \"big\" |> \"small\"",
    "$ && 0 || $!",
    "{ $ + 1 } <~ 41",
    "{ { $ + 1 } } ~~ <~ 5",
    "{ $ >= 3 ?> $ |> ^~ $ + 1 } <~ 0",
    "5 [ $ + 1 ] + 1",
    "(:a = 1, :b = 2) . b",
    "1 + 2 , \"big\"",
    ":first_item = { $? ?> 987 |> 100 }\n:circle1 = { 10 + 5 }\n:circle2 = { 15 - 5 }\n\n$.first_item~~",
    "$ !> 1 |> $ == 5 ?> { $ } <~ 7 |> 9",
    "a b ; $ . 0",
];

#[derive(Clone)]
struct Built {
    prog: usize,
    entry: usize,
    instr: (usize, usize),
    jumps: (usize, usize),
    /// snapshot: instructions, jump entries, and the values of data operands
    instructions: Vec<(Instruction, Option<usize>)>,
    jump_entries: Vec<usize>,
    constants: Vec<(usize, V)>,
}

#[derive(Clone)]
struct State<D: Subject> {
    d: D,
    built: Vec<Built>,
}

#[derive(Clone, Copy, Debug, PartialEq)]
pub enum Ev {
    Build(usize),
    Run(usize),
    Residue,
}

fn solo<D: Subject>(p: usize) -> Option<V> {
    let mut d = D::fresh(Host::none());
    let toks = lex_g(POOL[p]).ok()?;
    let pr = parse_g(&toks).ok()?;
    let bd = build_g(&pr, &mut d).ok()?;
    start(&mut d, *bd.jump_index(), &V::Int(5)).ok()?;
    run_to_end(&mut d, 5000).ok()?;
    current_value(&d).ok()
}

fn snapshot_built<D: Subject>(d: &D, prog: usize, entry: usize, instr: (usize, usize), jumps: (usize, usize)) -> Built {
    let mut instructions = vec![];
    let mut constants = vec![];
    for pc in instr.0..instr.1 {
        let i = d.get_instruction(pc).unwrap_or((Instruction::Invalid, None));
        if matches!(i.0, Instruction::Put | Instruction::Resolve) {
            if let Some(a) = i.1 {
                if d.get_data_type(a).ok() != Some(GarnishDataType::Expression) {
                    constants.push((a, get(d, a)));
                } else {
                    constants.push((a, V::Expr(d.get_expression(a).unwrap_or(usize::MAX))));
                }
            }
        }
        instructions.push(i);
    }
    let jump_entries = (jumps.0..jumps.1).map(|j| d.get_from_jump_table(j).unwrap_or(usize::MAX)).collect();
    Built { prog, entry, instr, jumps, instructions, jump_entries, constants }
}

/// (a) every earlier build is unchanged
fn unchanged<D: Subject>(d: &D, b: &Built) -> Result<(), String> {
    for (k, pc) in (b.instr.0..b.instr.1).enumerate() {
        if d.get_instruction(pc) != Some(b.instructions[k]) {
            return Err("earlier-instructions-changed".into());
        }
    }
    for (k, j) in (b.jumps.0..b.jumps.1).enumerate() {
        if d.get_from_jump_table(j) != Some(b.jump_entries[k]) {
            return Err("earlier-jump-entry-changed".into());
        }
    }
    for (a, v) in &b.constants {
        let now = if let V::Expr(j) = v { V::Expr(d.get_expression(*a).unwrap_or(usize::MAX - 1)) } else { get(d, *a) };
        let same = match (v, &now) {
            (V::Expr(x), V::Expr(y)) => x == y,
            _ => *v == now,
        };
        if !same {
            return Err("earlier-constant-changed".into());
        }
    }
    Ok(())
}

fn apply<D: Subject>(st: &mut State<D>, ev: Ev) -> Result<(), String> {
    match ev {
        Ev::Build(p) => {
            let toks = lex_g(POOL[p]).map_err(|f| format!("pool-program-does-not-lex:{}", f.kind()))?;
            let pr = parse_g(&toks).map_err(|f| format!("pool-program-does-not-parse:{}", f.kind()))?;
            let before = snapshot(&st.d);
            let bd = build_g(&pr, &mut st.d).map_err(|f| format!("build-fails-in-shared-object[{}]", f.kind()))?;
            // (b) the new build refers only to its own pieces
            check_stream(&st.d, &before, &bd, pr.get_nodes().len()).map_err(|m| format!("new-build-malformed[{}]", m.0))?;
            let b = snapshot_built(&st.d, p, *bd.jump_index(), (before.instr, st.d.get_instruction_len()), (before.jumps, st.d.get_jump_table_len()));
            st.built.push(b);
        }
        Ev::Run(p) => {
            let b = st.built.iter().find(|b| b.prog == p).cloned().ok_or("run-of-unbuilt")?;
            start(&mut st.d, b.entry, &V::Int(5)).map_err(|f| format!("start-fails[{}]", f.kind()))?;
            run_to_end(&mut st.d, 5000).map_err(|f| format!("run-fails-in-shared-object[{}]", f.kind()))?;
            let v = current_value(&st.d).map_err(|f| f.kind())?;
            let want = solo::<D>(p).ok_or("solo-run-fails")?;
            if v != want {
                return Err(format!("result-differs-from-solo-build"));
            }
        }
        Ev::Residue => {
            // stray operands and a stray input value, as an interrupted earlier execution would leave them
            let a = st.d.add_number(99.into()).map_err(|e| format!("{}", e))?;
            st.d.push_register(a).map_err(|e| format!("{}", e))?;
            st.d.push_register(a).map_err(|e| format!("{}", e))?;
            st.d.push_value_stack(a).map_err(|e| format!("{}", e))?;
        }
    }
    for b in &st.built {
        unchanged(&st.d, b)?;
    }
    Ok(())
}

fn show_ev(e: &Ev, sel: &[usize]) -> String {
    let name = |p: &usize| format!("p{}", sel.iter().position(|x| x == p).unwrap_or(99));
    match e {
        Ev::Build(p) => format!("build({})", name(p)),
        Ev::Run(p) => format!("run({})", name(p)),
        Ev::Residue => "residue".into(),
    }
}

struct Explore<'a> {
    sel: &'a [usize],
    depth: usize,
    states: u64,
    transitions: u64,
    failure: Option<(String, Vec<Ev>)>,
}

fn explore<D: Subject>(x: &mut Explore, st: &State<D>, hist: &mut Vec<Ev>, residues: usize) {
    if hist.len() >= x.depth || x.failure.is_some() {
        return;
    }
    let mut enabled: Vec<Ev> = vec![];
    if st.built.len() < x.sel.len() {
        enabled.push(Ev::Build(x.sel[st.built.len()]));
    }
    for b in &st.built {
        enabled.push(Ev::Run(b.prog));
    }
    if residues < 1 && !st.built.is_empty() {
        enabled.push(Ev::Residue);
    }
    for ev in enabled {
        let mut next = st.clone();
        x.transitions += 1;
        hist.push(ev);
        let r = match guard(|| apply(&mut next, ev)) {
            Ok(r) => r,
            Err(p) => Err(format!("panic[{}]", crate::fw::panic_kind(&p))),
        };
        match r {
            Ok(()) => {
                x.states += 1;
                explore(x, &next, hist, residues + if ev == Ev::Residue { 1 } else { 0 });
            }
            Err(kind) => {
                if x.failure.is_none() {
                    x.failure = Some((kind, hist.clone()));
                }
            }
        }
        hist.pop();
        if x.failure.is_some() {
            return;
        }
    }
}

/// ordered selections of 2 and 3 distinct pool programs
fn selection(mut i: u64) -> Vec<usize> {
    let n = POOL.len() as u64;
    let pairs = n * (n - 1);
    if i < pairs {
        let a = i / (n - 1);
        let mut b2 = i % (n - 1);
        if b2 >= a {
            b2 += 1;
        }
        return vec![a as usize, b2 as usize];
    }
    i -= pairs;
    let a = i / ((n - 1) * (n - 2));
    let r = i % ((n - 1) * (n - 2));
    let rest: Vec<u64> = (0..n).filter(|x| *x != a).collect();
    let bi = r / (n - 2);
    let b2 = rest[bi as usize];
    let rest2: Vec<u64> = rest.iter().cloned().filter(|x| *x != b2).collect();
    let c = rest2[(r % (n - 2)) as usize];
    vec![a as usize, b2 as usize, c as usize]
}

fn selections() -> u64 {
    let n = POOL.len() as u64;
    n * (n - 1) + n * (n - 1) * (n - 2)
}

fn run_selection<D: Subject>(cx: &mut Ctx, sel: &[usize], depth: usize) {
    let st = State { d: D::fresh(Host::none()), built: vec![] };
    let mut x = Explore { sel, depth, states: 1, transitions: 0, failure: None };
    let mut hist = vec![];
    explore(&mut x, &st, &mut hist, 0);
    cx.count("states", x.states);
    cx.count("transitions", x.transitions);
    cx.count("traces_validated", x.transitions);
    cx.count("evaluations", x.transitions);
    if let Some((kind, h)) = x.failure {
        // canonical witness: the shortest failing history with this kind for this selection is found by iterative deepening
        let mut best = h.clone();
        for d in 1..h.len() {
            let st = State { d: D::fresh(Host::none()), built: vec![] };
            let mut y = Explore { sel, depth: d, states: 0, transitions: 0, failure: None };
            let mut hh = vec![];
            explore(&mut y, &st, &mut hh, 0);
            if let Some((k2, h2)) = y.failure {
                if k2 == kind {
                    best = h2;
                    break;
                }
            }
        }
        let shown: Vec<String> = best.iter().map(|e| show_ev(e, sel)).collect();
        let progs: Vec<&str> = sel.iter().map(|p| POOL[*p]).collect();
        // the witness names the programs involved in the failing history only
        let used: Vec<usize> = sel.iter().cloned().filter(|p| best.iter().any(|e| matches!(e, Ev::Build(q) | Ev::Run(q) if q == p))).collect();
        cx.violation(
            &kind,
            &format!("{} | {} | programs {:?}", D::NAME, shown.join(" "), used),
            json!({"impl": D::NAME, "selection": sel, "programs": progs, "history": shown, "events": best.iter().map(|e| match e { Ev::Build(p) => json!(["build", p]), Ev::Run(p) => json!(["run", p]), Ev::Residue => json!(["residue"]) }).collect::<Vec<_>>()}),
        );
    }
}


// ---------------------------------------------------------------------------------------------------------------
// Part 2: generated programs. Every program of the C01 corpora up to a size bound is built into data objects that
// already hold (and have executed) prelude programs, in every order, and twice in a row; invariants (a), (b), (c)
// as above, with the solo run of the generated program (whatever it yields, a failure kind included) as the
// differential oracle.

/// prelude programs: between them they use a nested expression applied at once, an expression kept in a pair and
/// applied later, a conditional with else, && / ||, a side effect, symbols, text, and the small constants (0, 1, 2)
/// that generated programs intern too
pub const PRELUDES: [&str; 2] = [
    "{ $ + 1 } <~ 1 , (:k = { $ ?> 2 |> 0 }) . k ~~ , \"ab\"",
    "$ > 1 && 2 || 0 ; { $ [ 1 + $ ] } <~ $ , :a",
];

/// sub-corpora: (corpus, number of programs used = all programs up to `nodes` AST nodes)
fn gen_spaces(tier: Tier) -> Vec<(&'static Corpus, u64)> {
    let s = spaces(tier);
    let upto = |c: &'static Corpus, nodes: usize| -> (&'static Corpus, u64) {
        let n: u64 = (0..=nodes.min(c.max)).map(|k| c.count_of_size(k)).sum();
        (c, n)
    };
    vec![upto(&s.t1, 9), upto(&s.t3, tier.pick(5, 6)), upto(&s.t4, tier.pick(7, 9)), upto(&s.t5, tier.pick(5, 7))]
}

/// programs the AST cannot express: bodies and groups that emit no instruction of their own, built next to others
const RAW_TEXTS: [&str; 8] = ["{ ( ) } ~~", "{ [] } ~~", "{ ( ) }", "( ) 5", "{ ( ) } ~~ , 3", "5 ; { ( ) }", "{ { ( ) } ~~ } ~~", "{ 1 [ ] } ~~"];

fn gen_total(tier: Tier) -> u64 {
    gen_spaces(tier).iter().map(|x| x.1).sum()
}

fn gen_locate(tier: Tier, mut i: u64) -> (&'static Corpus, u64) {
    for (c, n) in gen_spaces(tier) {
        if i < n {
            return (c, i);
        }
        i -= n;
    }
    panic!("C20 generated index out of range")
}

/// outcome of running a built program from its entry: the value or the failure kind, shown as text
fn run_shown<D: Subject>(d: &mut D, entry: usize) -> String {
    let r = (|| -> Result<V, crate::subj::Fail> {
        start(d, entry, &V::Int(0))?;
        run_to_end(d, 3000)?;
        current_value(d)
    })();
    match r {
        Ok(v) => v.show(),
        Err(f) => format!("<{}>", f.kind()),
    }
}

fn solo_src<D: Subject>(src: &str) -> Option<String> {
    let mut d = D::fresh(Host::none());
    let toks = lex_g(src).ok()?;
    let pr = parse_g(&toks).ok()?;
    let bd = build_g(&pr, &mut d).ok()?;
    Some(run_shown(&mut d, *bd.jump_index()))
}

/// one scenario: a sequence of steps over named sources; `b k` builds source k, `r k` runs the latest build of k
fn scenario<D: Subject>(srcs: &[&str], steps: &[(char, usize)], solos: &[String]) -> Result<(), (String, usize)> {
    scenario_in::<D>(srcs, steps, solos, false)
}

fn scenario_in<D: Subject>(srcs: &[&str], steps: &[(char, usize)], solos: &[String], tight: bool) -> Result<(), (String, usize)> {
    let mut d = if tight { D::fresh_tight(Host::none()) } else { D::fresh(Host::none()) };
    let mut built: Vec<Built> = vec![];
    for (n, (what, k)) in steps.iter().enumerate() {
        let fail = |m: String| (m, n);
        match what {
            'b' => {
                let toks = lex_g(srcs[*k]).map_err(|f| fail(format!("does-not-lex:{}", f.kind())))?;
                let pr = parse_g(&toks).map_err(|f| fail(format!("does-not-parse:{}", f.kind())))?;
                let before = snapshot(&d);
                let bd = build_g(&pr, &mut d).map_err(|f| fail(format!("build-fails-in-shared-object[{}]", f.kind())))?;
                check_stream(&d, &before, &bd, pr.get_nodes().len()).map_err(|m| fail(format!("new-build-malformed[{}]", m.0)))?;
                let b = snapshot_built(&d, *k, *bd.jump_index(), (before.instr, d.get_instruction_len()), (before.jumps, d.get_jump_table_len()));
                built.push(b);
            }
            _ => {
                let b = built.iter().rev().find(|b| b.prog == *k).cloned().ok_or_else(|| fail("run-of-unbuilt".into()))?;
                let got = run_shown(&mut d, b.entry);
                if got != solos[*k] {
                    return Err(fail(format!("result-differs-from-solo-build[{}]", if got.starts_with('<') { got.clone() } else { "value".into() })));
                }
                if got.starts_with('<') {
                    // the run failed the same way it fails alone (a recorded finding of C01/C06 or a step cap): the
                    // object now holds the residue of an aborted run; the scenario ends here
                    for b in &built {
                        unchanged(&d, b).map_err(|m| fail(m))?;
                    }
                    return Ok(());
                }
            }
        }
        for b in &built {
            unchanged(&d, b).map_err(|m| fail(m))?;
        }
    }
    Ok(())
}

const SCENARIOS: [(&str, &[(char, usize)]); 5] = [
    // source 0 = prelude A, 1 = prelude B, 2 = the generated program
    ("preludes-then-program", &[('b', 0), ('r', 0), ('b', 1), ('b', 2), ('r', 2), ('r', 1), ('r', 0), ('r', 2)]),
    ("program-then-preludes", &[('b', 2), ('r', 2), ('b', 0), ('r', 0), ('r', 2), ('b', 1), ('r', 1), ('r', 2)]),
    ("program-between", &[('b', 1), ('b', 2), ('b', 0), ('r', 0), ('r', 2), ('r', 1)]),
    ("program-twice", &[('b', 2), ('b', 2), ('r', 2), ('b', 0), ('b', 2), ('r', 2), ('r', 0)]),
    ("unrun-prelude", &[('b', 0), ('b', 2), ('r', 2), ('r', 2)]),
];

/// first failing scenario of one generated program: (kind, scenario name, step, solo outcome)
fn gen_fail<D: Subject>(src: &str, only: Option<&str>, cx: Option<&mut Ctx>) -> Option<(String, String, usize, String)> {
    // the preludes' solo outcomes are computed once per implementation and worker process
    static PRE: std::sync::Mutex<Vec<(&'static str, [Option<String>; 2])>> = std::sync::Mutex::new(Vec::new());
    let pre = {
        let mut g = PRE.lock().unwrap();
        match g.iter().find(|x| x.0 == D::NAME) {
            Some(x) => x.1.clone(),
            None => {
                let v = [solo_src::<D>(PRELUDES[0]), solo_src::<D>(PRELUDES[1])];
                g.push((D::NAME, v.clone()));
                v
            }
        }
    };
    let solos: Vec<String> = match (pre[0].clone(), pre[1].clone(), solo_src::<D>(src)) {
        (Some(a), Some(b2), Some(c)) => vec![a, b2, c],
        (Some(_), Some(_), None) => {
            if let Some(cx) = cx {
                cx.count("generated_not_accepted_alone", 1);
            }
            return None;
        }
        _ => return Some(("prelude-fails-alone".into(), "prelude does not compile".into(), 0, String::new())),
    };
    if solos[0].starts_with('<') || solos[1].starts_with('<') {
        return Some(("prelude-fails-alone".into(), format!("{} {}", solos[0], solos[1]), 0, solos[2].clone()));
    }
    let srcs = [PRELUDES[0], PRELUDES[1], src];
    let mut n = 0u64;
    let mut tr = 0u64;
    let mut out = None;
    for (name, steps) in SCENARIOS.iter() {
        if only.map(|o| o != *name).unwrap_or(false) {
            continue;
        }
        n += 1;
        tr += steps.len() as u64;
        let r = match guard(|| scenario::<D>(&srcs, steps, &solos)) {
            Ok(r) => r,
            Err(p) => Err((format!("panic[{}]", crate::fw::panic_kind(&p)), 0)),
        };
        if let Err((kind, at)) = r {
            out = Some((kind, name.to_string(), at, solos[2].clone()));
            break;
        }
        // the first scenario once more in an object whose storage blocks are tiny and of different sizes
        if *name == "preludes-then-program" && D::NAME == "basic" {
            n += 1;
            tr += steps.len() as u64;
            let r = match guard(|| scenario_in::<D>(&srcs, steps, &solos, true)) {
                Ok(r) => r,
                Err(p) => Err((format!("panic[{}]", crate::fw::panic_kind(&p)), 0)),
            };
            if let Err((kind, at)) = r {
                out = Some((format!("tight-storage/{}", kind), name.to_string(), at, solos[2].clone()));
                break;
            }
        }
    }
    if let Some(cx) = cx {
        for _ in 0..n {
            cx.eval();
        }
        cx.count("traces_validated", n);
        cx.count("states", tr);
        cx.count("transitions", tr);
        cx.count("gen_scenarios", n);
    }
    out
}

fn gen_check<D: Subject>(cx: &mut Ctx, e: &crate::ast::E) {
    let src = match print(e) {
        Some(s) => s,
        None => return,
    };
    if let Some((kind, _, _, _)) = gen_fail::<D>(&src, None, Some(cx)) {
        let mut fails = |c: &crate::ast::E| match print(c) {
            Some(s) => matches!(gen_fail::<D>(&s, None, None), Some((ref k, _, _, _)) if *k == kind),
            None => false,
        };
        let w = crate::shrink::shrink(e, &mut fails);
        let wsrc = print(&w).unwrap_or(src.clone());
        let (k2, name, at, solo) = gen_fail::<D>(&wsrc, None, None).unwrap_or((kind.clone(), "?".into(), 0, String::new()));
        cx.violation(
            &k2,
            &format!("{} | {} step {} | {}", D::NAME, name, at, wsrc.replace('\n', "\\n")),
            json!({"gen": true, "impl": D::NAME, "src": wsrc, "first_seen_src": src, "scenario": name, "step": at, "solo": solo, "preludes": PRELUDES}),
        );
    }
}

impl Property for C20 {
    fn id(&self) -> &'static str {
        "C20"
    }
    fn level(&self) -> &'static str {
        "model_checking"
    }
    fn size(&self, tier: Tier) -> u64 {
        selections() + gen_total(tier) + RAW_TEXTS.len() as u64
    }
    fn describe(&self, tier: Tier, idx: u64) -> String {
        if idx >= selections() + gen_total(tier) {
            return format!("raw text: {}", RAW_TEXTS[(idx - selections() - gen_total(tier)) as usize]);
        }
        if idx >= selections() {
            let (c, i) = gen_locate(tier, idx - selections());
            return format!("generated {}#{}: {}", c.name, i, print(&c.program(i)).unwrap_or_default());
        }
        let sel = selection(idx);
        let solos: Vec<String> = sel.iter().map(|p| format!("{} => {}", POOL[*p].replace('\n', "\\n"), solo::<SData>(*p).map(|v| v.show()).unwrap_or("<fails>".into()))).collect();
        format!("selection {:?}: {}", sel, solos.join(" ; "))
    }
    fn budget_ms(&self) -> u64 {
        20_000
    }
    fn run(&self, tier: Tier, idx: u64, cx: &mut Ctx) {
        if idx >= selections() + gen_total(tier) {
            let src = RAW_TEXTS[(idx - selections() - gen_total(tier)) as usize];
            for which in 0..2 {
                let r = if which == 0 { gen_fail::<SData>(src, None, Some(cx)) } else { gen_fail::<BData>(src, None, Some(cx)) };
                if let Some((kind, name, at, solo)) = r {
                    cx.violation(&kind, &format!("{} | {} step {} | {}", ["simple", "basic"][which], name, at, src), json!({"gen": true, "impl": (["simple", "basic"][which]), "src": src, "scenario": name, "step": at, "solo": solo, "preludes": PRELUDES}));
                }
            }
            cx.nontrivial(idx);
            return;
        }
        if idx >= selections() {
            let (c, i) = gen_locate(tier, idx - selections());
            let e = c.program(i);
            if c.name == "T4" && !ref_terminates(&e) {
                cx.count("generated_never_ending_dropped", 1);
                return;
            }
            gen_check::<SData>(cx, &e);
            gen_check::<BData>(cx, &e);
            cx.nontrivial(idx);
            cx.count(&format!("generated_{}", c.name), 1);
            cx.sample_at(30_011, || json!({"generated": print(&e), "solo": print(&e).and_then(|s| solo_src::<SData>(&s)), "scenarios": SCENARIOS.iter().map(|s| s.0).collect::<Vec<_>>()}));
            return;
        }
        let sel = selection(idx);
        let depth = tier.pick(5, 6);
        run_selection::<SData>(cx, &sel, depth);
        run_selection::<BData>(cx, &sel, depth);
        cx.nontrivial(idx);
        cx.sample_at(211, || json!({"programs": sel.iter().map(|p| POOL[*p]).collect::<Vec<_>>(), "solo_results": sel.iter().map(|p| solo::<SData>(*p).map(|v| v.show())).collect::<Vec<_>>(), "events": "every history of build(next) / run(built) / residue up to the depth"}));
    }
    fn replay(&self, d: &Value, cx: &mut Ctx) {
        if d["gen"].as_bool() == Some(true) {
            let src = d["src"].as_str().unwrap_or("");
            let only = d["scenario"].as_str();
            let r = if d["impl"].as_str() == Some("simple") { gen_fail::<SData>(src, only, None) } else { gen_fail::<BData>(src, only, None) };
            if let Some((kind, name, at, _)) = r {
                cx.violation(&kind, &format!("{} | {} step {} | {}", d["impl"].as_str().unwrap_or(""), name, at, src.replace('\n', "\\n")), json!({"src": src}));
            }
            return;
        }
        let evs: Vec<Ev> = d["events"]
            .as_array()
            .map(|a| {
                a.iter()
                    .filter_map(|e| {
                        let k = e[0].as_str()?;
                        let p = e[1].as_u64().unwrap_or(0) as usize;
                        Some(match k {
                            "build" => Ev::Build(p.min(POOL.len() - 1)),
                            "run" => Ev::Run(p.min(POOL.len() - 1)),
                            _ => Ev::Residue,
                        })
                    })
                    .collect()
            })
            .unwrap_or_default();
        fn go<D: Subject>(evs: &[Ev]) -> Option<String> {
            let mut st = State { d: D::fresh(Host::none()), built: vec![] };
            for e in evs {
                match guard(|| apply(&mut st, *e)) {
                    Ok(Ok(())) => {}
                    Ok(Err(k)) => return Some(k),
                    Err(p) => return Some(format!("panic[{}]", crate::fw::panic_kind(&p))),
                }
            }
            None
        }
        let k = if d["impl"].as_str() == Some("simple") { go::<SData>(&evs) } else { go::<BData>(&evs) };
        if let Some(kind) = k {
            cx.violation(&kind, &format!("{} | replayed history", d["impl"].as_str().unwrap_or("")), json!({"events": d["events"]}));
        }
    }
    fn meta(&self, tier: Tier) -> Meta {
        Meta {
            rule: format!("pool of {} programs (arithmetic, conditional with else, && ||, nested expression + apply, expression returned and applied later, reapply loop, side effect, keyed list, constants shared between programs, the repository's jumping_wrong_index scenario, else-chain with nested apply, identifiers + sequencing); every ordered selection of 2 and 3 distinct programs ({} selections) x both implementations; depth-first search over all event histories up to length {}: build(next program of the selection), run(any built program, from its reported entry, fresh input 5), residue (stray operands and input value, at most once); clone per transition. Invariant in every state: (a) instructions, jump entries and constants of every earlier build unchanged, (b) the new build well-formed relative to the object's state before it (operands, jump operands and expression values name its own pieces; same checker as C05), (c) each run's result equals the program built alone into a fresh object. Non-trivial = selection; distinct by index.", POOL.len(), selections(), tier.pick(5, 6)),
            assumptions: vec![
                "states are not merged (history = state); every explored trace is an implementation trace because each transition calls the real build / execute on a real data object".into(),
                "residue = stray operands and input values only (a stray call frame would legitimately change control flow)".into(),
            ],
            trusted_base: vec!["engine/src/props/pipeline.rs check_stream".into(), "value bridge".into()],
            explanation: "explicit-state search over build/run histories on the real data objects with a per-state isolation invariant and a solo-build differential oracle".into(),
        }
    }
}
