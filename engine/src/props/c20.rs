//! C20 - programs built into a shared data object do not disturb each other.
//! Explicit-state search: states are histories of build(p) / run(p) / residue events over every ordered
//! selection of 2..3 programs from a pool; every transition executes the real build / real run on a real data
//! object cloned from its parent state; the invariant is evaluated in every state.

use crate::fw::{guard, Ctx, Meta, Property, Tier};
use crate::props::pipeline::{check_stream, snapshot};
use crate::subj::{build_g, current_value, lex_g, parse_g, run_to_end, start, BData, Host, SData, Subject};
use crate::val::{get, V};
use garnish_lang_traits::{GarnishData, GarnishDataType, Instruction};
use serde_json::{json, Value};

pub struct C20;

pub const POOL: [&str; 12] = [
    "1 + 2 * 3",
    "$ > 3 ?> \"big\" |> \"small\"",
    "$ && 0 || $!",
    "{ $ + 1 } <~ 41",
    "{ { $ + 1 } } ~~ <~ 5",
    "{ $ >= 3 ?> $ |> ^~ $ + 1 } <~ 0",
    "5 [ $ + 1 ] + 1",
    "(:a = 1, :b = 2) . b",
    "1 + 2 , \"big\"",
    ":first_item = { $? ?> 987 |> 100 }\n:circle1 = { 10 + 5 }\n:circle2 = { 15 - 5 }\n\n$.first_item~~",
    "$ !> 1 |> $ == 5 ?> { $ } <~ 7 |> 9",
    "a b ; $ . 0",
];

#[derive(Clone)]
struct Built {
    prog: usize,
    entry: usize,
    instr: (usize, usize),
    jumps: (usize, usize),
    /// snapshot: instructions, jump entries, and the values of data operands
    instructions: Vec<(Instruction, Option<usize>)>,
    jump_entries: Vec<usize>,
    constants: Vec<(usize, V)>,
}

#[derive(Clone)]
struct State<D: Subject> {
    d: D,
    built: Vec<Built>,
}

#[derive(Clone, Copy, Debug, PartialEq)]
pub enum Ev {
    Build(usize),
    Run(usize),
    Residue,
}

fn solo<D: Subject>(p: usize) -> Option<V> {
    let mut d = D::fresh(Host::none());
    let toks = lex_g(POOL[p]).ok()?;
    let pr = parse_g(&toks).ok()?;
    let bd = build_g(&pr, &mut d).ok()?;
    start(&mut d, *bd.jump_index(), &V::Int(5)).ok()?;
    run_to_end(&mut d, 5000).ok()?;
    current_value(&d).ok()
}

fn snapshot_built<D: Subject>(d: &D, prog: usize, entry: usize, instr: (usize, usize), jumps: (usize, usize)) -> Built {
    let mut instructions = vec![];
    let mut constants = vec![];
    for pc in instr.0..instr.1 {
        let i = d.get_instruction(pc).unwrap_or((Instruction::Invalid, None));
        if matches!(i.0, Instruction::Put | Instruction::Resolve) {
            if let Some(a) = i.1 {
                if d.get_data_type(a).ok() != Some(GarnishDataType::Expression) {
                    constants.push((a, get(d, a)));
                } else {
                    constants.push((a, V::Expr(d.get_expression(a).unwrap_or(usize::MAX))));
                }
            }
        }
        instructions.push(i);
    }
    let jump_entries = (jumps.0..jumps.1).map(|j| d.get_from_jump_table(j).unwrap_or(usize::MAX)).collect();
    Built { prog, entry, instr, jumps, instructions, jump_entries, constants }
}

/// (a) every earlier build is unchanged
fn unchanged<D: Subject>(d: &D, b: &Built) -> Result<(), String> {
    for (k, pc) in (b.instr.0..b.instr.1).enumerate() {
        if d.get_instruction(pc) != Some(b.instructions[k]) {
            return Err("earlier-instructions-changed".into());
        }
    }
    for (k, j) in (b.jumps.0..b.jumps.1).enumerate() {
        if d.get_from_jump_table(j) != Some(b.jump_entries[k]) {
            return Err("earlier-jump-entry-changed".into());
        }
    }
    for (a, v) in &b.constants {
        let now = if let V::Expr(j) = v { V::Expr(d.get_expression(*a).unwrap_or(usize::MAX - 1)) } else { get(d, *a) };
        let same = match (v, &now) {
            (V::Expr(x), V::Expr(y)) => x == y,
            _ => *v == now,
        };
        if !same {
            return Err("earlier-constant-changed".into());
        }
    }
    Ok(())
}

fn apply<D: Subject>(st: &mut State<D>, ev: Ev) -> Result<(), String> {
    match ev {
        Ev::Build(p) => {
            let toks = lex_g(POOL[p]).map_err(|f| format!("pool-program-does-not-lex:{}", f.kind()))?;
            let pr = parse_g(&toks).map_err(|f| format!("pool-program-does-not-parse:{}", f.kind()))?;
            let before = snapshot(&st.d);
            let bd = build_g(&pr, &mut st.d).map_err(|f| format!("build-fails-in-shared-object[{}]", f.kind()))?;
            // (b) the new build refers only to its own pieces
            check_stream(&st.d, &before, &bd, pr.get_nodes().len()).map_err(|m| format!("new-build-malformed[{}]", m.0))?;
            let b = snapshot_built(&st.d, p, *bd.jump_index(), (before.instr, st.d.get_instruction_len()), (before.jumps, st.d.get_jump_table_len()));
            st.built.push(b);
        }
        Ev::Run(p) => {
            let b = st.built.iter().find(|b| b.prog == p).cloned().ok_or("run-of-unbuilt")?;
            start(&mut st.d, b.entry, &V::Int(5)).map_err(|f| format!("start-fails[{}]", f.kind()))?;
            run_to_end(&mut st.d, 5000).map_err(|f| format!("run-fails-in-shared-object[{}]", f.kind()))?;
            let v = current_value(&st.d).map_err(|f| f.kind())?;
            let want = solo::<D>(p).ok_or("solo-run-fails")?;
            if v != want {
                return Err(format!("result-differs-from-solo-build"));
            }
        }
        Ev::Residue => {
            // stray operands and a stray input value, as an interrupted earlier execution would leave them
            let a = st.d.add_number(99.into()).map_err(|e| format!("{}", e))?;
            st.d.push_register(a).map_err(|e| format!("{}", e))?;
            st.d.push_register(a).map_err(|e| format!("{}", e))?;
            st.d.push_value_stack(a).map_err(|e| format!("{}", e))?;
        }
    }
    for b in &st.built {
        unchanged(&st.d, b)?;
    }
    Ok(())
}

fn show_ev(e: &Ev, sel: &[usize]) -> String {
    let name = |p: &usize| format!("p{}", sel.iter().position(|x| x == p).unwrap_or(99));
    match e {
        Ev::Build(p) => format!("build({})", name(p)),
        Ev::Run(p) => format!("run({})", name(p)),
        Ev::Residue => "residue".into(),
    }
}

struct Explore<'a> {
    sel: &'a [usize],
    depth: usize,
    states: u64,
    transitions: u64,
    failure: Option<(String, Vec<Ev>)>,
}

fn explore<D: Subject>(x: &mut Explore, st: &State<D>, hist: &mut Vec<Ev>, residues: usize) {
    if hist.len() >= x.depth || x.failure.is_some() {
        return;
    }
    let mut enabled: Vec<Ev> = vec![];
    if st.built.len() < x.sel.len() {
        enabled.push(Ev::Build(x.sel[st.built.len()]));
    }
    for b in &st.built {
        enabled.push(Ev::Run(b.prog));
    }
    if residues < 1 && !st.built.is_empty() {
        enabled.push(Ev::Residue);
    }
    for ev in enabled {
        let mut next = st.clone();
        x.transitions += 1;
        hist.push(ev);
        let r = match guard(|| apply(&mut next, ev)) {
            Ok(r) => r,
            Err(p) => Err(format!("panic[{}]", crate::fw::panic_kind(&p))),
        };
        match r {
            Ok(()) => {
                x.states += 1;
                explore(x, &next, hist, residues + if ev == Ev::Residue { 1 } else { 0 });
            }
            Err(kind) => {
                if x.failure.is_none() {
                    x.failure = Some((kind, hist.clone()));
                }
            }
        }
        hist.pop();
        if x.failure.is_some() {
            return;
        }
    }
}

/// ordered selections of 2 and 3 distinct pool programs
fn selection(mut i: u64) -> Vec<usize> {
    let n = POOL.len() as u64;
    let pairs = n * (n - 1);
    if i < pairs {
        let a = i / (n - 1);
        let mut b2 = i % (n - 1);
        if b2 >= a {
            b2 += 1;
        }
        return vec![a as usize, b2 as usize];
    }
    i -= pairs;
    let a = i / ((n - 1) * (n - 2));
    let r = i % ((n - 1) * (n - 2));
    let rest: Vec<u64> = (0..n).filter(|x| *x != a).collect();
    let bi = r / (n - 2);
    let b2 = rest[bi as usize];
    let rest2: Vec<u64> = rest.iter().cloned().filter(|x| *x != b2).collect();
    let c = rest2[(r % (n - 2)) as usize];
    vec![a as usize, b2 as usize, c as usize]
}

fn selections() -> u64 {
    let n = POOL.len() as u64;
    n * (n - 1) + n * (n - 1) * (n - 2)
}

fn run_selection<D: Subject>(cx: &mut Ctx, sel: &[usize], depth: usize) {
    let st = State { d: D::fresh(Host::none()), built: vec![] };
    let mut x = Explore { sel, depth, states: 1, transitions: 0, failure: None };
    let mut hist = vec![];
    explore(&mut x, &st, &mut hist, 0);
    cx.count("states", x.states);
    cx.count("transitions", x.transitions);
    cx.count("traces_validated", x.transitions);
    cx.count("evaluations", x.transitions);
    if let Some((kind, h)) = x.failure {
        // canonical witness: the shortest failing history with this kind for this selection is found by iterative deepening
        let mut best = h.clone();
        for d in 1..h.len() {
            let st = State { d: D::fresh(Host::none()), built: vec![] };
            let mut y = Explore { sel, depth: d, states: 0, transitions: 0, failure: None };
            let mut hh = vec![];
            explore(&mut y, &st, &mut hh, 0);
            if let Some((k2, h2)) = y.failure {
                if k2 == kind {
                    best = h2;
                    break;
                }
            }
        }
        let shown: Vec<String> = best.iter().map(|e| show_ev(e, sel)).collect();
        let progs: Vec<&str> = sel.iter().map(|p| POOL[*p]).collect();
        // the witness names the programs involved in the failing history only
        let used: Vec<usize> = sel.iter().cloned().filter(|p| best.iter().any(|e| matches!(e, Ev::Build(q) | Ev::Run(q) if q == p))).collect();
        cx.violation(
            &kind,
            &format!("{} | {} | programs {:?}", D::NAME, shown.join(" "), used),
            json!({"impl": D::NAME, "selection": sel, "programs": progs, "history": shown, "events": best.iter().map(|e| match e { Ev::Build(p) => json!(["build", p]), Ev::Run(p) => json!(["run", p]), Ev::Residue => json!(["residue"]) }).collect::<Vec<_>>()}),
        );
    }
}

impl Property for C20 {
    fn id(&self) -> &'static str {
        "C20"
    }
    fn level(&self) -> &'static str {
        "model_checking"
    }
    fn size(&self, _tier: Tier) -> u64 {
        selections()
    }
    fn describe(&self, _tier: Tier, idx: u64) -> String {
        let sel = selection(idx);
        let solos: Vec<String> = sel.iter().map(|p| format!("{} => {}", POOL[*p].replace('\n', "\\n"), solo::<SData>(*p).map(|v| v.show()).unwrap_or("<fails>".into()))).collect();
        format!("selection {:?}: {}", sel, solos.join(" ; "))
    }
    fn budget_ms(&self) -> u64 {
        20_000
    }
    fn run(&self, tier: Tier, idx: u64, cx: &mut Ctx) {
        let sel = selection(idx);
        let depth = tier.pick(5, 6);
        run_selection::<SData>(cx, &sel, depth);
        run_selection::<BData>(cx, &sel, depth);
        cx.nontrivial(idx);
        cx.sample_at(211, || json!({"programs": sel.iter().map(|p| POOL[*p]).collect::<Vec<_>>(), "solo_results": sel.iter().map(|p| solo::<SData>(*p).map(|v| v.show())).collect::<Vec<_>>(), "events": "every history of build(next) / run(built) / residue up to the depth"}));
    }
    fn replay(&self, d: &Value, cx: &mut Ctx) {
        let evs: Vec<Ev> = d["events"]
            .as_array()
            .map(|a| {
                a.iter()
                    .filter_map(|e| {
                        let k = e[0].as_str()?;
                        let p = e[1].as_u64().unwrap_or(0) as usize;
                        Some(match k {
                            "build" => Ev::Build(p.min(POOL.len() - 1)),
                            "run" => Ev::Run(p.min(POOL.len() - 1)),
                            _ => Ev::Residue,
                        })
                    })
                    .collect()
            })
            .unwrap_or_default();
        fn go<D: Subject>(evs: &[Ev]) -> Option<String> {
            let mut st = State { d: D::fresh(Host::none()), built: vec![] };
            for e in evs {
                match guard(|| apply(&mut st, *e)) {
                    Ok(Ok(())) => {}
                    Ok(Err(k)) => return Some(k),
                    Err(p) => return Some(format!("panic[{}]", crate::fw::panic_kind(&p))),
                }
            }
            None
        }
        let k = if d["impl"].as_str() == Some("simple") { go::<SData>(&evs) } else { go::<BData>(&evs) };
        if let Some(kind) = k {
            cx.violation(&kind, &format!("{} | replayed history", d["impl"].as_str().unwrap_or("")), json!({"events": d["events"]}));
        }
    }
    fn meta(&self, tier: Tier) -> Meta {
        Meta {
            rule: format!("pool of {} programs (arithmetic, conditional with else, && ||, nested expression + apply, expression returned and applied later, reapply loop, side effect, keyed list, constants shared between programs, the repository's jumping_wrong_index scenario, else-chain with nested apply, identifiers + sequencing); every ordered selection of 2 and 3 distinct programs ({} selections) x both implementations; depth-first search over all event histories up to length {}: build(next program of the selection), run(any built program, from its reported entry, fresh input 5), residue (stray operands and input value, at most once); clone per transition. Invariant in every state: (a) instructions, jump entries and constants of every earlier build unchanged, (b) the new build well-formed relative to the object's state before it (operands, jump operands and expression values name its own pieces; same checker as C05), (c) each run's result equals the program built alone into a fresh object. Non-trivial = selection; distinct by index.", POOL.len(), selections(), tier.pick(5, 6)),
            assumptions: vec![
                "states are not merged (history = state); every explored trace is an implementation trace because each transition calls the real build / execute on a real data object".into(),
                "residue = stray operands and input values only (a stray call frame would legitimately change control flow)".into(),
            ],
            trusted_base: vec!["engine/src/props/pipeline.rs check_stream".into(), "value bridge".into()],
            explanation: "explicit-state search over build/run histories on the real data objects with a per-state isolation invariant and a solo-build differential oracle".into(),
        }
    }
}
