//! C12 - ordering comparisons agree with the natural order.
//!
//! Bounded-exhaustive: every ordered pair of a numeric universe (the C09 boundary lattice, mixed int/float
//! neighbours, NaN and the infinities), of a set of characters and bytes, of short strings over a small
//! alphabet (as char lists and as byte lists, plus deterministic longer ones), of slices over short strings,
//! and of ~50 representatives of every data type (the cross-type matrix) is put into a data object of each
//! implementation; `LessThan`, `LessThanOrEqual`, `GreaterThan`, `GreaterThanOrEqual` and `Equal` are executed
//! on it and the four ordering results are compared, as one quadruple, with the natural order computed by an
//! independent reference.

use crate::fw::{guard, panic_kind, Ctx, Meta, Property, Tier};
use crate::subj::{BData, Host, SData, Subject};
use crate::val::{get, put, SymPart, V};
use garnish_lang_runtime::ops;
use garnish_lang_traits::GarnishDataType;
use serde_json::{json, Value};
use std::cmp::Ordering;
use std::collections::{BTreeMap, BTreeSet};
use std::sync::OnceLock;

pub struct C12;

// ---------------------------------------------------------------------------------------------
// reference (oracle)

/// What the statement allows for the quadruple (`<`, `<=`, `>`, `>=`).
#[derive(Clone, Copy, Debug, PartialEq)]
enum Want {
    /// comparable operands: the quadruple of this ordering, nothing else
    Ord(Ordering),
    /// any other combination: all four false
    AllFalse,
    /// two numbers of which at least one is NaN: all four unit
    AllUnit,
    /// NaN / infinity against a non-number: the statement can be read both ways
    FalseOrUnit,
    /// two numbers, at least one infinite, none NaN: natural order of the extended reals, or unit
    OrdOrUnit(Ordering),
    /// char/byte list against a slice of one, or two such slices: "other combination" (all false) by the
    /// letter of the statement, ordered by the selected contents by the pinned tests of the repository
    SliceView(Ordering),
}

fn quad_of(o: Ordering) -> [R; 4] {
    let b = |x: bool| if x { R::T } else { R::F };
    [b(o == Ordering::Less), b(o != Ordering::Greater), b(o == Ordering::Greater), b(o != Ordering::Less)]
}

fn quad_str(q: &[R; 4]) -> String {
    q.iter().map(|r| r.code()).collect()
}

impl Want {
    fn accepts(&self, q: &[R; 4]) -> bool {
        let all = |r: R| q.iter().all(|x| *x == r);
        match self {
            Want::Ord(o) => *q == quad_of(*o),
            Want::AllFalse => all(R::F),
            Want::AllUnit => all(R::U),
            Want::FalseOrUnit => all(R::F) || all(R::U),
            Want::OrdOrUnit(o) => *q == quad_of(*o) || all(R::U),
            Want::SliceView(o) => *q == quad_of(*o) || all(R::F),
        }
    }
    fn code(&self) -> String {
        match self {
            Want::Ord(o) => quad_str(&quad_of(*o)),
            Want::AllFalse => "FFFF".into(),
            Want::AllUnit => "UUUU".into(),
            Want::FalseOrUnit => "FFFF|UUUU".into(),
            Want::OrdOrUnit(o) => format!("{}|UUUU", quad_str(&quad_of(*o))),
            Want::SliceView(o) => format!("{}|FFFF", quad_str(&quad_of(*o))),
        }
    }
    fn nontrivial(&self) -> bool {
        matches!(self, Want::Ord(_) | Want::OrdOrUnit(_) | Want::SliceView(_))
    }
    /// "any other combination of operands"
    fn other(&self) -> bool {
        matches!(self, Want::AllFalse | Want::FalseOrUnit)
    }
}

/// exact comparison of an i32 with a non-NaN f64, without converting the integer to a float
fn cmp_int_float(x: i32, y: f64) -> Ordering {
    if y >= 2147483648.0 {
        return Ordering::Less;
    }
    if y < -2147483648.0 {
        return Ordering::Greater;
    }
    let t = y.trunc();
    let ti = t as i64; // |t| <= 2^31: exact
    match (x as i64).cmp(&ti) {
        Ordering::Equal => {
            let frac = y - t; // exact for |y| < 2^31
            if frac > 0.0 {
                Ordering::Less
            } else if frac < 0.0 {
                Ordering::Greater
            } else {
                Ordering::Equal
            }
        }
        o => o,
    }
}

fn cmp_num(a: &V, b: &V) -> Option<Ordering> {
    match (a, b) {
        (V::Int(x), V::Int(y)) => Some(x.cmp(y)),
        (V::Int(x), V::Float(y)) => Some(cmp_int_float(*x, *y)),
        (V::Float(x), V::Int(y)) => Some(cmp_int_float(*y, *x).reverse()),
        (V::Float(x), V::Float(y)) => x.partial_cmp(y),
        _ => None,
    }
}

fn is_num(v: &V) -> bool {
    matches!(v, V::Int(_) | V::Float(_))
}
fn is_nan(v: &V) -> bool {
    matches!(v, V::Float(f) if f.is_nan())
}
fn is_inf(v: &V) -> bool {
    matches!(v, V::Float(f) if f.is_infinite())
}

#[derive(Clone, Copy, PartialEq, Debug)]
enum TK {
    Chars,
    Bytes,
}

/// (kind, selected items, is a slice) for char lists, byte lists and in-bounds integer slices of them
fn text_view(v: &V) -> Option<(TK, Vec<u32>, bool)> {
    match v {
        V::Str(s) => Some((TK::Chars, s.iter().map(|c| *c as u32).collect(), false)),
        V::Bytes(b) => Some((TK::Bytes, b.iter().map(|c| *c as u32).collect(), false)),
        V::Slice(x, r) => {
            let (tk, items, inner_slice) = text_view(x)?;
            if inner_slice {
                return None;
            }
            if let V::Range(s, e) = &**r {
                if let (V::Int(s), V::Int(e)) = (&**s, &**e) {
                    if *s >= 0 && s <= e && (*e as usize) < items.len() {
                        return Some((tk, items[*s as usize..=*e as usize].to_vec(), true));
                    }
                }
            }
            None
        }
        _ => None,
    }
}

/// lexicographic order, the shorter prefix first; also names the shape of the pair
fn lex(a: &[u32], b: &[u32]) -> (Ordering, &'static str) {
    let n = a.len().min(b.len());
    for i in 0..n {
        if a[i] != b[i] {
            return (a[i].cmp(&b[i]), "differ");
        }
    }
    match a.len().cmp(&b.len()) {
        Ordering::Equal => (Ordering::Equal, "equal"),
        o => (o, "prefix"),
    }
}

/// a slice over text whose range the reference does not interpret (never generated; not judged)
fn odd_text_slice(v: &V) -> bool {
    match v {
        V::Slice(x, _) => matches!(&**x, V::Str(_) | V::Bytes(_) | V::Slice(..)) && text_view(v).is_none(),
        _ => false,
    }
}

fn want(a: &V, b: &V) -> Option<(Want, Option<&'static str>)> {
    if odd_text_slice(a) || odd_text_slice(b) {
        return None;
    }
    Some(match (a, b) {
        _ if is_num(a) && is_num(b) => {
            if is_nan(a) || is_nan(b) {
                (Want::AllUnit, None)
            } else {
                let o = cmp_num(a, b).expect("non-NaN numbers are ordered");
                if is_inf(a) || is_inf(b) { (Want::OrdOrUnit(o), None) } else { (Want::Ord(o), None) }
            }
        }
        (V::Char(x), V::Char(y)) => (Want::Ord((*x as u32).cmp(&(*y as u32))), None),
        (V::Byte(x), V::Byte(y)) => (Want::Ord(x.cmp(y)), None),
        _ => {
            if let (Some(x), Some(y)) = (text_view(a), text_view(b)) {
                if x.0 == y.0 {
                    let (o, shape) = lex(&x.1, &y.1);
                    if x.2 || y.2 { (Want::SliceView(o), Some(shape)) } else { (Want::Ord(o), Some(shape)) }
                } else {
                    (Want::AllFalse, None)
                }
            } else if is_nan(a) || is_nan(b) || is_inf(a) || is_inf(b) {
                (Want::FalseOrUnit, None)
            } else {
                (Want::AllFalse, None)
            }
        }
    })
}

fn cls(v: &V) -> String {
    match v {
        V::Int(_) => "int".into(),
        V::Float(f) => (if f.is_nan() { "nan" } else if f.is_infinite() { "inf" } else { "float" }).into(),
        V::Char(_) => "char".into(),
        V::Byte(_) => "byte".into(),
        V::Str(_) => "charlist".into(),
        V::Bytes(_) => "bytelist".into(),
        V::Slice(x, _) => format!("slice<{}>", cls(x)),
        other => format!("{:?}", other.type_of()).to_lowercase(),
    }
}

fn cell_witness(a: &V, b: &V, shape: Option<&str>, alias: bool) -> String {
    let mut w = format!("{}x{}", cls(a), cls(b));
    if let Some(s) = shape {
        w.push('/');
        w.push_str(s);
    }
    if alias {
        w.push_str("/same-address");
    }
    w
}

// ---------------------------------------------------------------------------------------------
// driving the subject

#[derive(Clone, Copy, PartialEq, Eq, Debug)]
enum R {
    T,
    F,
    U,
    /// a value of another type
    X,
    /// no value on the register afterwards
    N,
    /// Err returned
    E,
    /// panic
    P,
}

impl R {
    fn code(self) -> char {
        match self {
            R::T => 'T',
            R::F => 'F',
            R::U => 'U',
            R::X => 'X',
            R::N => 'N',
            R::E => 'E',
            R::P => 'P',
        }
    }
}

const OP_NAMES: [&str; 5] = ["less_than", "less_than_or_equal", "greater_than", "greater_than_or_equal", "equal"];

struct Obs {
    quad: [R; 4],
    eq: R,
    /// first error / panic message, with the operation it came from
    note: Option<String>,
    other: Option<String>,
}

fn setup<D: Subject>(a: &V, b: Option<&V>) -> Result<(D, usize, usize), String> {
    let r = guard(|| -> Result<(D, usize, usize), String> {
        let mut d = D::fresh(Host::none());
        // unrelated values first so that addresses are not trivially 0/1
        put(&mut d, &V::str("pad")).map_err(|e| format!("{}", e))?;
        put(&mut d, &V::Int(7)).map_err(|e| format!("{}", e))?;
        let la = put(&mut d, a).map_err(|e| format!("{}", e))?;
        let lb = match b {
            Some(b) => put(&mut d, b).map_err(|e| format!("{}", e))?,
            None => la,
        };
        Ok((d, la, lb))
    });
    match r {
        Ok(Ok(x)) => Ok(x),
        Ok(Err(m)) => Err(format!("add: {}", m)),
        Err(p) => Err(format!("panic in add: {}", p)),
    }
}

fn run_op<D: Subject>(d: &mut D, la: usize, lb: usize, op: usize) -> (R, Option<String>) {
    let r = guard(|| -> Result<Option<V>, String> {
        d.push_register(la).map_err(|e| format!("push_register: {}", e))?;
        d.push_register(lb).map_err(|e| format!("push_register: {}", e))?;
        let r = match op {
            0 => ops::less_than(d),
            1 => ops::less_than_or_equal(d),
            2 => ops::greater_than(d),
            3 => ops::greater_than_or_equal(d),
            _ => ops::equal(d),
        };
        r.map_err(|e| {
            let src = std::error::Error::source(&e).map(|s| format!("{}", s)).unwrap_or_default();
            format!("{:?} {} {}", e.get_type(), e.get_message(), src).split_whitespace().collect::<Vec<_>>().join(" ")
        })?;
        match d.pop_register() {
            Ok(Some(t)) => Ok(Some(get(d, t))),
            Ok(None) => Ok(None),
            Err(e) => Err(format!("pop_register: {}", e)),
        }
    });
    match r {
        Err(p) => (R::P, Some(format!("panic: {}", p))),
        Ok(Err(m)) => (R::E, Some(format!("err: {}", m))),
        Ok(Ok(None)) => (R::N, None),
        Ok(Ok(Some(V::True))) => (R::T, None),
        Ok(Ok(Some(V::False))) => (R::F, None),
        Ok(Ok(Some(V::Unit))) => (R::U, None),
        Ok(Ok(Some(v))) => (R::X, Some(format!("value: {}", v.show()))),
    }
}

/// all five operations on one pair in one data object (rebuilt after an operation failed)
fn observe<D: Subject>(a: &V, b: &V, alias: bool) -> Result<Obs, String> {
    let bb = if alias { None } else { Some(b) };
    let (mut d, mut la, mut lb) = setup::<D>(a, bb)?;
    let mut res = [R::N; 5];
    let mut note = None;
    let mut other = None;
    for op in 0..5 {
        let (r, n) = run_op(&mut d, la, lb, op);
        res[op] = r;
        if matches!(r, R::E | R::P) {
            if note.is_none() {
                note = n.map(|n| format!("{}: {}", OP_NAMES[op], n));
            }
            if op < 4 {
                let s = setup::<D>(a, bb)?;
                d = s.0;
                la = s.1;
                lb = s.2;
            }
        } else if r == R::X && other.is_none() {
            other = n;
        }
    }
    Ok(Obs { quad: [res[0], res[1], res[2], res[3]], eq: res[4], note, other })
}

fn short(s: &str) -> String {
    panic_kind(&s.chars().take(90).collect::<String>())
}

/// None = the statement is satisfied; Some(kind) otherwise
fn judge(w: &Want, o: &Obs) -> Option<String> {
    if !w.accepts(&o.quad) {
        let got = quad_str(&o.quad);
        let failed_alike = o.quad.iter().all(|r| *r == R::E) || o.quad.iter().all(|r| *r == R::P);
        let is_order = [Ordering::Less, Ordering::Equal, Ordering::Greater].iter().any(|x| quad_of(*x) == o.quad);
        let mut k = if failed_alike {
            // what was wanted does not matter when every operation failed the same way
            format!("quad-got-{}", got)
        } else {
            match w {
                Want::SliceView(_) => {
                    if is_order { "slice-quad-neither-all-false-nor-order-of-selected-items".to_string() } else { format!("slice-quad-got-{}", got) }
                }
                Want::AllFalse | Want::FalseOrUnit => format!("other-combination-quad-got-{}", got),
                Want::AllUnit => {
                    if is_order { "nan-quad-got-ordered".to_string() } else { format!("nan-quad-got-{}", got) }
                }
                _ => format!("quad-want-{}-got-{}", w.code(), got),
            }
        };
        if o.quad.iter().any(|r| matches!(r, R::E | R::P)) {
            if let Some(n) = &o.note {
                k.push_str(&format!("[{}]", short(n)));
            }
        }
        return Some(k);
    }
    // exactly one of <, ==, > : given that < and > are as the natural order says, == decides
    if let Want::Ord(ord) = w {
        let want_eq = if *ord == Ordering::Equal { R::T } else { R::F };
        if o.eq != want_eq {
            let mut k = format!("trichotomy-eq-want-{}-got-{}", want_eq.code(), o.eq.code());
            if matches!(o.eq, R::E | R::P) {
                if let Some(n) = &o.note {
                    k.push_str(&format!("[{}]", short(n)));
                }
            }
            return Some(k);
        }
    }
    None
}

struct Failure {
    kind: String,
    got: String,
}

fn obs_shown(o: &Obs) -> String {
    let mut s = format!("< <= > >= : {} ; == : {}", quad_str(&o.quad), o.eq.code());
    if let Some(n) = &o.note {
        s.push_str(&format!(" ; {}", n));
    }
    if let Some(n) = &o.other {
        s.push_str(&format!(" ; {}", n));
    }
    s
}

/// run one pair on one implementation; Ok(None) = holds
fn check_on<D: Subject>(cx: &mut Ctx, w: &Want, a: &V, b: &V, alias: bool) -> Option<Failure> {
    cx.eval();
    cx.count("op_calls", 5);
    match observe::<D>(a, b, alias) {
        Err(_) => {
            // the add-interface refused an operand: not what this property is about
            cx.count("setup_failed", 1);
            None
        }
        Ok(o) => {
            // the relations of the statement, evaluated on the observed results themselves
            if let Want::Ord(_) = w {
                let t = |r: R| r == R::T;
                let one = [t(o.quad[0]), t(o.eq), t(o.quad[2])].iter().filter(|x| **x).count() == 1;
                let dual = (o.quad[1] == R::T) == (o.quad[2] != R::T);
                cx.count("relations_evaluated", 2);
                if one && dual {
                    cx.count("relations_held", 2);
                } else {
                    cx.count("relations_held", one as u64 + dual as u64);
                }
            }
            judge(w, &o).map(|kind| Failure { kind, got: obs_shown(&o) })
        }
    }
}

const IMPLS: [&str; 2] = ["simple", "basic"];

/// Failure kinds that hit every comparable class alike (a defect of one instruction rather than of one
/// operand class): found once per process by a fixed probe of one pair per class and relation; such a
/// failure is reported under the witness `every-comparable-class` instead of once per class.
fn op_level() -> &'static BTreeSet<(usize, String)> {
    static P: OnceLock<BTreeSet<(usize, String)>> = OnceLock::new();
    P.get_or_init(|| {
        let less: Vec<(V, V)> = vec![
            (V::Int(1), V::Int(2)),
            (V::Int(1), V::Float(1.5)),
            (V::Float(0.5), V::Int(1)),
            (V::Float(0.5), V::Float(1.5)),
            (V::Char('a'), V::Char('b')),
            (V::Byte(1), V::Byte(2)),
            (V::str("aa"), V::str("ab")),
            (V::Bytes(vec![97, 97]), V::Bytes(vec![97, 98])),
        ];
        let equal: Vec<(V, V)> = vec![
            (V::Int(1), V::Int(1)),
            (V::Int(1), V::Float(1.0)),
            (V::Float(1.0), V::Int(1)),
            (V::Float(1.5), V::Float(1.5)),
            (V::Char('a'), V::Char('a')),
            (V::Byte(7), V::Byte(7)),
            (V::str("ab"), V::str("ab")),
            (V::Bytes(vec![97, 98]), V::Bytes(vec![97, 98])),
        ];
        let greater: Vec<(V, V)> = less.iter().map(|(a, b)| (b.clone(), a.clone())).collect();
        let mut out = BTreeSet::new();
        let mut scratch = Ctx::new(Tier::Quick);
        for which in 0..2 {
            for rel in [&less, &equal, &greater] {
                let mut common: Option<BTreeSet<String>> = None;
                for (a, b) in rel.iter() {
                    let kinds: BTreeSet<String> = match want(a, b) {
                        Some((w, _)) => check_impl(&mut scratch, which, &w, a, b, false).map(|f| f.kind).into_iter().collect(),
                        None => BTreeSet::new(),
                    };
                    common = Some(match common {
                        None => kinds,
                        Some(c) => c.intersection(&kinds).cloned().collect(),
                    });
                }
                for k in common.unwrap_or_default() {
                    out.insert((which, k));
                }
            }
        }
        out
    })
}

fn check_impl(cx: &mut Ctx, which: usize, w: &Want, a: &V, b: &V, alias: bool) -> Option<Failure> {
    if which == 0 { check_on::<SData>(cx, w, a, b, alias) } else { check_on::<BData>(cx, w, a, b, alias) }
}

fn detail(seg: &str, a: &V, b: &V, alias: bool, w: &Want, impls: &str, cell: &str, got: &str) -> Value {
    json!({
        "seg": seg,
        "a": vj(a),
        "b": vj(b),
        "alias": alias,
        "impl": impls,
        "cell": cell,
        "shown": format!("{} {{< <= > >= ==}} {}{}", a.show(), if alias { "<the same value> " } else { "" }, b.show()),
        "expected": format!("(<, <=, >, >=) = {}{}", w.code(), match w {
            Want::Ord(o) => format!("; == {}", if *o == Ordering::Equal { "true" } else { "false" }),
            _ => String::new(),
        }),
        "got": got,
    })
}

/// one pair on both implementations; identical failures of both are reported once
fn check_pair(cx: &mut Ctx, seg: &str, a: &V, b: &V, alias: bool, only: Option<&str>, cell_override: Option<&str>) {
    check_pair_x(cx, seg, a, b, alias, only, cell_override, &[]);
}

/// `skip`: (implementation, kind) failures already reported for the same operands at two addresses - the
/// same-address case is reported only when it fails differently. Returns the failures seen.
fn check_pair_x(cx: &mut Ctx, seg: &str, a: &V, b: &V, alias: bool, only: Option<&str>, cell_override: Option<&str>, skip: &[(usize, String)]) -> Vec<(usize, String)> {
    let (w, shape) = match want(a, b) {
        Some(x) => x,
        None => return vec![],
    };
    if w.nontrivial() {
        cx.nontrivial((vj(a).to_string(), vj(b).to_string(), alias));
    }
    let mut fails: Vec<(usize, Failure)> = vec![];
    for which in 0..2 {
        if let Some(o) = only {
            if o != "both" && o != IMPLS[which] {
                continue;
            }
        }
        if let Some(f) = check_impl(cx, which, &w, a, b, alias) {
            fails.push((which, f));
        }
    }
    let seen: Vec<(usize, String)> = fails.iter().map(|(w, f)| (*w, f.kind.clone())).collect();
    fails.retain(|(w, f)| !skip.iter().any(|(sw, sk)| sw == w && sk == &f.kind));
    let shape = if let Want::SliceView(_) = w { None } else { shape };
    let cell_for = |which: usize, kind: &String| -> String {
        if let Some(c) = cell_override {
            return c.to_string();
        }
        if matches!(w, Want::Ord(_)) && !fails.is_empty() && op_level().contains(&(which, kind.clone())) {
            return "every-comparable-class".to_string();
        }
        cell_witness(a, b, shape, alias)
    };
    if fails.len() == 2 && fails[0].1.kind == fails[1].1.kind && cell_for(0, &fails[0].1.kind) == cell_for(1, &fails[1].1.kind) {
        let f = &fails[0].1;
        let cell = cell_for(0, &f.kind);
        cx.violation(&f.kind, &format!("both/{}", cell), detail(seg, a, b, alias, &w, "both", &cell, &f.got));
    } else {
        for (which, f) in &fails {
            let cell = cell_for(*which, &f.kind);
            cx.violation(&f.kind, &format!("{}/{}", IMPLS[*which], cell), detail(seg, a, b, alias, &w, IMPLS[*which], &cell, &f.got));
        }
    }
    seen
}

// ---------------------------------------------------------------------------------------------
// the cross-type matrix (one element): failures of "other combination" cells are reduced to
// `*x*`, `Ax*`, `*xB` or `AxB` so that one catch-all defect gives one signature

fn run_matrix(cx: &mut Ctx, reps: &[V]) {
    // every class cell that contains an "other combination" pair
    let mut universe: BTreeSet<(String, String)> = BTreeSet::new();
    // (impl, kind) -> class cell -> first example
    let mut failing: BTreeMap<(usize, String), BTreeMap<(String, String), (usize, usize, String)>> = BTreeMap::new();
    for (i, a) in reps.iter().enumerate() {
        for (j, b) in reps.iter().enumerate() {
            let (w, _) = match want(a, b) {
                Some(x) => x,
                None => continue,
            };
            if !w.other() {
                check_pair(cx, "matrix", a, b, false, None, None);
                continue;
            }
            let cell = (cls(a), cls(b));
            universe.insert(cell.clone());
            for which in 0..2 {
                if let Some(f) = check_impl(cx, which, &w, a, b, false) {
                    failing.entry((which, f.kind)).or_default().entry(cell.clone()).or_insert((i, j, f.got));
                }
            }
        }
    }
    // reduce per (impl, kind)
    let mut reduced: BTreeMap<(String, String), Vec<(usize, (usize, usize, String))>> = BTreeMap::new(); // (kind, witness) -> impls
    for ((which, kind), cells) in &failing {
        let mut rest: BTreeMap<(String, String), (usize, usize, String)> = cells.clone();
        let mut out: Vec<(String, (usize, usize, String))> = vec![];
        if universe.iter().all(|c| cells.contains_key(c)) {
            out.push(("*x*".into(), cells.values().next().unwrap().clone()));
            rest.clear();
        } else {
            let lefts: BTreeSet<String> = universe.iter().map(|c| c.0.clone()).collect();
            for l in &lefts {
                let row: Vec<&(String, String)> = universe.iter().filter(|c| &c.0 == l).collect();
                if row.len() > 1 && row.iter().all(|c| cells.contains_key(*c)) {
                    out.push((format!("{}x*", l), cells[row[0]].clone()));
                    rest.retain(|c, _| &c.0 != l);
                }
            }
            let rights: BTreeSet<String> = universe.iter().map(|c| c.1.clone()).collect();
            for r in &rights {
                let col: Vec<&(String, String)> = universe.iter().filter(|c| &c.1 == r).collect();
                if col.len() > 1 && col.iter().all(|c| cells.contains_key(*c)) && rest.keys().any(|c| &c.1 == r) {
                    let ex = rest.iter().find(|(c, _)| &c.1 == r).map(|(_, e)| e.clone()).unwrap();
                    out.push((format!("*x{}", r), ex));
                    rest.retain(|c, _| &c.1 != r);
                }
            }
            for (c, e) in rest {
                out.push((format!("{}x{}", c.0, c.1), e));
            }
        }
        for (wit, ex) in out {
            reduced.entry((kind.clone(), wit)).or_default().push((*which, ex));
        }
    }
    for ((kind, wit), impls) in reduced {
        let name = if impls.len() == 2 { "both" } else { IMPLS[impls[0].0] };
        let (i, j, got) = &impls[0].1;
        let w = want(&reps[*i], &reps[*j]).map(|x| x.0).unwrap_or(Want::AllFalse);
        cx.violation(&kind, &format!("{}/{}", name, wit), detail("matrix", &reps[*i], &reps[*j], false, &w, name, &wit, got));
    }
}

// ---------------------------------------------------------------------------------------------
// value <-> json (for replay)

const ALL_TYPES: [GarnishDataType; 21] = [
    GarnishDataType::Invalid,
    GarnishDataType::Custom,
    GarnishDataType::Unit,
    GarnishDataType::Number,
    GarnishDataType::Type,
    GarnishDataType::Char,
    GarnishDataType::CharList,
    GarnishDataType::Byte,
    GarnishDataType::ByteList,
    GarnishDataType::Symbol,
    GarnishDataType::SymbolList,
    GarnishDataType::Pair,
    GarnishDataType::Range,
    GarnishDataType::Concatenation,
    GarnishDataType::Slice,
    GarnishDataType::Partial,
    GarnishDataType::List,
    GarnishDataType::Expression,
    GarnishDataType::External,
    GarnishDataType::True,
    GarnishDataType::False,
];

fn vj(v: &V) -> Value {
    let two = |n: &str, a: &V, b: &V| {
        let mut m = serde_json::Map::new();
        m.insert(n.to_string(), json!([vj(a), vj(b)]));
        Value::Object(m)
    };
    match v {
        V::Unit | V::Opaque(_) => json!("unit"),
        V::True => json!("true"),
        V::False => json!("false"),
        V::Int(i) => json!({"i": i}),
        V::Float(f) => json!({"f_bits": f.to_bits().to_string(), "f": format!("{:?}", f)}),
        V::Char(c) => json!({"c": *c as u32}),
        V::Byte(b) => json!({"b": b}),
        V::Sym(s) => json!({"sym": s.to_string()}),
        V::Type(t) => json!({"ty": format!("{:?}", t)}),
        V::Str(s) => json!({"s": s.iter().map(|c| *c as u32).collect::<Vec<u32>>(), "text": s.iter().collect::<String>()}),
        V::Bytes(b) => json!({"bs": b}),
        V::SymList(p) => json!({"sl": p.iter().map(|x| match x {
            SymPart::Sym(s) => json!({"sym": s.to_string()}),
            SymPart::Num(n) => json!({"i": n}),
        }).collect::<Vec<Value>>()}),
        V::Pair(a, b) => two("pair", a, b),
        V::Concat(a, b) => two("concat", a, b),
        V::Range(a, b) => two("range", a, b),
        V::Slice(a, b) => two("slice", a, b),
        V::Partial(a, b) => two("partial", a, b),
        V::List(l) => json!({"list": l.iter().map(vj).collect::<Vec<Value>>()}),
        V::Expr(j) => json!({"expr": j}),
        V::External(n) => json!({"ext": n}),
    }
}

fn vfrom(j: &Value) -> Option<V> {
    if let Some(s) = j.as_str() {
        return match s {
            "unit" => Some(V::Unit),
            "true" => Some(V::True),
            "false" => Some(V::False),
            _ => None,
        };
    }
    let o = j.as_object()?;
    let two = |n: &str| -> Option<(Box<V>, Box<V>)> {
        let a = o.get(n)?.as_array()?;
        Some((Box::new(vfrom(a.first()?)?), Box::new(vfrom(a.get(1)?)?)))
    };
    if let Some(i) = o.get("i") {
        return Some(V::Int(i.as_i64()? as i32));
    }
    if let Some(f) = o.get("f_bits") {
        return Some(V::Float(f64::from_bits(f.as_str()?.parse::<u64>().ok()?)));
    }
    if let Some(c) = o.get("c") {
        return char::from_u32(c.as_u64()? as u32).map(V::Char);
    }
    if let Some(b) = o.get("b") {
        return Some(V::Byte(b.as_u64()? as u8));
    }
    if let Some(s) = o.get("sym") {
        return Some(V::Sym(s.as_str()?.parse::<u64>().ok()?));
    }
    if let Some(t) = o.get("ty") {
        let n = t.as_str()?;
        return ALL_TYPES.iter().find(|x| format!("{:?}", x) == n).map(|x| V::Type(*x));
    }
    if let Some(s) = o.get("s") {
        let mut out = vec![];
        for c in s.as_array()? {
            out.push(char::from_u32(c.as_u64()? as u32)?);
        }
        return Some(V::Str(out));
    }
    if let Some(s) = o.get("bs") {
        let mut out = vec![];
        for c in s.as_array()? {
            out.push(c.as_u64()? as u8);
        }
        return Some(V::Bytes(out));
    }
    if let Some(s) = o.get("sl") {
        let mut out = vec![];
        for p in s.as_array()? {
            match vfrom(p)? {
                V::Sym(s) => out.push(SymPart::Sym(s)),
                V::Int(i) => out.push(SymPart::Num(i)),
                _ => return None,
            }
        }
        return Some(V::SymList(out));
    }
    if let Some(l) = o.get("list") {
        let mut out = vec![];
        for p in l.as_array()? {
            out.push(vfrom(p)?);
        }
        return Some(V::List(out));
    }
    if let Some((a, b)) = two("pair") {
        return Some(V::Pair(a, b));
    }
    if let Some((a, b)) = two("concat") {
        return Some(V::Concat(a, b));
    }
    if let Some((a, b)) = two("range") {
        return Some(V::Range(a, b));
    }
    if let Some((a, b)) = two("slice") {
        return Some(V::Slice(a, b));
    }
    if let Some((a, b)) = two("partial") {
        return Some(V::Partial(a, b));
    }
    if let Some(e) = o.get("expr") {
        return Some(V::Expr(e.as_u64()? as usize));
    }
    if let Some(e) = o.get("ext") {
        return Some(V::External(e.as_u64()? as usize));
    }
    None
}

// ---------------------------------------------------------------------------------------------
// the enumerated universes

/// the i32 boundary lattice of C09: MIN, MIN+1, -1, 0, 1, MAX-1, MAX, +-2^k + {-spread..spread} for k = 1..30
fn lattice(spread: i64) -> Vec<i32> {
    let mut v: Vec<i64> = vec![i32::MIN as i64, i32::MIN as i64 + 1, -1, 0, 1, i32::MAX as i64 - 1, i32::MAX as i64];
    for k in 1..=30 {
        let p = 1i64 << k;
        for d in -spread..=spread {
            v.push(p + d);
            v.push(-p + d);
        }
    }
    v.sort();
    v.dedup();
    v.into_iter().filter(|x| *x >= i32::MIN as i64 && *x <= i32::MAX as i64).map(|x| x as i32).collect()
}

fn neighbour_floats() -> Vec<f64> {
    vec![
        0.0,
        -0.0,
        0.5,
        -0.5,
        1.0,
        -1.0,
        1.5,
        -1.5,
        // where an f32 stops telling neighbours apart
        16777216.0,
        16777216.5,
        16777217.0,
        16777217.5,
        1073741823.5,
        1073741824.0,
        1073741824.5,
        // around i32::MAX / i32::MIN, on both sides of the integer range
        2147483646.5,
        2147483647.0,
        2147483647.5,
        2147483648.0,
        2147483648.5,
        -2147483647.5,
        -2147483648.0,
        -2147483648.5,
        -2147483649.0,
        // values that wrap to small integers under a truncating cast
        4294967295.0,
        4294967296.0,
        4294967297.0,
        -4294967296.0,
        9007199254740992.0,
        1e300,
        -1e300,
        f64::MAX,
        f64::MIN,
        f64::from_bits(1),
        -f64::from_bits(1),
        1e-300,
    ]
}

fn specials() -> Vec<f64> {
    vec![f64::NAN, f64::from_bits(0xfff8_0000_0000_0001), f64::INFINITY, f64::NEG_INFINITY]
}

fn numbers(tier: Tier) -> Vec<V> {
    let (int_spread, float_spread, small): (i64, i64, i32) = match tier {
        Tier::Quick => (1, 1, 0),
        Tier::Thorough => (3, 2, 17),
    };
    let mut ints: Vec<i32> = lattice(int_spread);
    ints.extend(-small..=small);
    ints.sort();
    ints.dedup();
    let mut out: Vec<V> = ints.into_iter().map(V::Int).collect();
    // every lattice integer as a float, and its neighbours half (thorough: also a quarter) away
    let mut fl: Vec<f64> = neighbour_floats();
    for x in lattice(float_spread) {
        let f = x as f64;
        fl.extend([f, f - 0.5, f + 0.5]);
        if tier == Tier::Thorough {
            fl.extend([f - 0.25, f + 0.25]);
        }
    }
    // the floats adjacent to the ends of the integer range and to 1
    for base in [2147483648.0f64, -2147483648.0, 2147483647.0, -2147483649.0, 1.0, 16777216.0] {
        fl.push(f64::from_bits(base.to_bits() + 1));
        fl.push(f64::from_bits(base.to_bits() - 1));
    }
    let mut seen = BTreeSet::new();
    for f in fl {
        if seen.insert(f.to_bits()) {
            out.push(V::Float(f));
        }
    }
    out.extend(specials().into_iter().map(V::Float));
    out
}

fn atoms(tier: Tier) -> Vec<V> {
    let mut out = vec![];
    let chars: Vec<char> = match tier {
        Tier::Quick => vec!['\0', 'A', 'a', 'b', '\u{7f}', '\u{80}', 'é', '😀'],
        Tier::Thorough => vec![
            '\0', '\u{1}', ' ', '0', 'A', 'Z', 'a', 'b', 'z', '\u{7f}', '\u{80}', '\u{ff}', 'é', '\u{100}', '\u{7ff}', '\u{800}', '\u{d7ff}', '\u{e000}', '\u{ffff}', '\u{10000}',
            '😀', '\u{10ffff}',
        ],
    };
    out.extend(chars.into_iter().map(V::Char));
    let bytes: Vec<u8> = match tier {
        Tier::Quick => vec![0, 1, 97, 98, 127, 128, 255],
        Tier::Thorough => (0..=255).collect(),
    };
    out.extend(bytes.into_iter().map(V::Byte));
    out
}

fn words(alphabet: &[char], max_len: usize) -> Vec<Vec<char>> {
    let mut out: Vec<Vec<char>> = vec![vec![]];
    let mut layer: Vec<Vec<char>> = vec![vec![]];
    for _ in 0..max_len {
        let mut next = vec![];
        for w in &layer {
            for c in alphabet {
                let mut x = w.clone();
                x.push(*c);
                next.push(x);
            }
        }
        out.extend(next.iter().cloned());
        layer = next;
    }
    out
}

/// deterministic longer strings: long common prefixes, a difference at the end / in the middle, lengths around
/// powers of two
fn long_words(lens: &[usize]) -> Vec<Vec<char>> {
    let mut out = vec![];
    for n in lens {
        let n = *n;
        out.push(vec!['a'; n]);
        let mut x = vec!['a'; n];
        x[n - 1] = 'b';
        out.push(x);
        let mut y = vec!['a'; n];
        y[n / 2] = 'b';
        out.push(y);
    }
    out
}

/// char lists and byte lists of the same words (bytes: the code points; all words here are below U+0100 except the
/// explicitly non-ASCII ones, which are char lists only)
fn texts(tier: Tier) -> Vec<V> {
    let (short, long, extra): (Vec<Vec<char>>, Vec<Vec<char>>, Vec<&str>) = match tier {
        Tier::Quick => (words(&['a', 'b'], 3), long_words(&[8, 33, 256]), vec!["é", "éa", "aé", "z", "😀"]),
        Tier::Thorough => (words(&['a', 'b', 'c'], 5), long_words(&[7, 8, 9, 31, 32, 33, 255, 256, 257, 513]), vec!["é", "éa", "aé", "éé", "ab\u{ff}", "z", "😀", "😀a", "a😀", "\u{ffff}", "\u{10000}"]),
    };
    let mut out = vec![];
    for w in short.iter().chain(long.iter()) {
        out.push(V::Str(w.clone()));
    }
    for e in &extra {
        out.push(V::str(e));
    }
    for w in short.iter().chain(long.iter()) {
        out.push(V::Bytes(w.iter().map(|c| *c as u8).collect()));
    }
    // bytes above 127 (a signed comparison would misorder them)
    for b in [vec![0u8], vec![127], vec![128], vec![255], vec![97, 0], vec![97, 255], vec![255, 0]] {
        out.push(V::Bytes(b));
    }
    out
}

fn slice_of(base: V, s: i32, e: i32) -> V {
    V::Slice(Box::new(base), Box::new(V::Range(Box::new(V::Int(s)), Box::new(V::Int(e)))))
}

/// every in-bounds slice [s..=e] of every non-empty word over {a, b} up to the tier's length, as char list and
/// as byte list, plus the plain words (list against slice)
fn slices(tier: Tier) -> Vec<V> {
    let max = tier.pick(3, 5);
    let mut out = vec![];
    for w in words(&['a', 'b'], max) {
        if w.is_empty() {
            continue;
        }
        for s in 0..w.len() {
            for e in s..w.len() {
                out.push(slice_of(V::Str(w.clone()), s as i32, e as i32));
            }
        }
    }
    let n_char_slices = out.len();
    for i in 0..n_char_slices {
        if let V::Slice(b, r) = &out[i] {
            if let V::Str(s) = &**b {
                let v = V::Slice(Box::new(V::Bytes(s.iter().map(|c| *c as u8).collect())), r.clone());
                out.push(v);
            }
        }
    }
    for w in words(&['a', 'b'], 2) {
        out.push(V::Str(w.clone()));
        out.push(V::Bytes(w.iter().map(|c| *c as u8).collect()));
    }
    out
}

/// representatives of every data type (empty / singleton / typical / nested)
fn representatives(tier: Tier) -> Vec<V> {
    let b = |v: V| Box::new(v);
    let mut r = vec![
        V::Unit,
        V::True,
        V::False,
        V::Int(0),
        V::Int(5),
        V::Int(-3),
        V::Float(1.5),
        V::Float(5.0),
        V::Float(f64::NAN),
        V::Char('a'),
        V::Char('b'),
        V::Byte(0),
        V::Byte(97),
        V::sym("a"),
        V::sym("b"),
        V::Type(GarnishDataType::Number),
        V::Type(GarnishDataType::CharList),
        V::str(""),
        V::str("a"),
        V::str("ab"),
        V::str("b"),
        V::Bytes(vec![]),
        V::Bytes(vec![97]),
        V::Bytes(vec![97, 98]),
        V::Bytes(vec![98]),
        V::SymList(vec![SymPart::Sym(garnish_lang_simple_data::symbol_value("a")), SymPart::Sym(garnish_lang_simple_data::symbol_value("b"))]),
        V::SymList(vec![
            SymPart::Sym(garnish_lang_simple_data::symbol_value("a")),
            SymPart::Sym(garnish_lang_simple_data::symbol_value("b")),
            SymPart::Sym(garnish_lang_simple_data::symbol_value("c")),
        ]),
        V::pair(V::Int(1), V::Int(2)),
        V::pair(V::str("a"), V::str("b")),
        V::pair(V::sym("a"), V::pair(V::Int(1), V::Unit)),
        V::List(vec![]),
        V::List(vec![V::Int(1)]),
        V::List(vec![V::Int(1), V::Int(2)]),
        V::List(vec![V::str("a")]),
        V::List(vec![V::List(vec![V::Int(1)]), V::Int(2)]),
        V::Concat(b(V::Int(1)), b(V::Int(2))),
        V::Concat(b(V::str("a")), b(V::str("b"))),
        V::Range(b(V::Int(1)), b(V::Int(3))),
        V::Range(b(V::Int(0)), b(V::Int(0))),
        slice_of(V::List(vec![V::Int(1), V::Int(2), V::Int(3)]), 0, 1),
        slice_of(V::str("abc"), 0, 1),
        slice_of(V::str("abd"), 1, 2),
        slice_of(V::Bytes(vec![97, 98, 99]), 1, 2),
        V::Partial(b(V::Expr(0)), b(V::Int(1))),
        V::Partial(b(V::External(1)), b(V::str("a"))),
        V::Expr(0),
        V::Expr(1),
        V::External(0),
        V::External(3),
    ];
    if tier == Tier::Thorough {
        r.extend(vec![
            V::Int(i32::MAX),
            V::Int(i32::MIN),
            V::Float(-0.0),
            V::Float(f64::INFINITY),
            V::Char('\0'),
            V::Char('😀'),
            V::Byte(255),
            V::Type(GarnishDataType::Unit),
            V::str("é"),
            V::Bytes(vec![255, 0]),
            V::pair(V::pair(V::Int(1), V::Int(2)), V::pair(V::Int(3), V::Int(4))),
            V::List(vec![V::pair(V::sym("a"), V::Int(1)), V::pair(V::sym("b"), V::Int(2))]),
            V::List(vec![V::str("a"), V::str("b")]),
            V::Concat(b(V::List(vec![V::Int(1)])), b(V::List(vec![V::Int(2)]))),
            V::Concat(b(V::Concat(b(V::Int(1)), b(V::Int(2)))), b(V::Int(3))),
            V::Range(b(V::Int(3)), b(V::Int(1))),
            slice_of(V::List(vec![]), 0, 0),
            slice_of(V::Concat(b(V::Int(1)), b(V::Int(2))), 0, 1),
            V::Partial(b(V::Expr(0)), b(V::List(vec![V::Int(1), V::Int(2)]))),
            V::External(usize::MAX >> 1),
        ]);
    }
    r
}

struct Layout {
    nums: Vec<V>,
    atoms: Vec<V>,
    texts: Vec<V>,
    slices: Vec<V>,
    reps: Vec<V>,
}

fn layout(tier: Tier) -> &'static Layout {
    static Q: OnceLock<Layout> = OnceLock::new();
    static T: OnceLock<Layout> = OnceLock::new();
    let cell = match tier {
        Tier::Quick => &Q,
        Tier::Thorough => &T,
    };
    cell.get_or_init(|| Layout { nums: numbers(tier), atoms: atoms(tier), texts: texts(tier), slices: slices(tier), reps: representatives(tier) })
}

// elements: [matrix: 1] [num: one per left operand] [atoms: one per left] [text: one per left] [slices: one per left]
fn segments(l: &Layout) -> Vec<(&'static str, u64)> {
    vec![("matrix", 1), ("num", l.nums.len() as u64), ("atoms", l.atoms.len() as u64), ("text", l.texts.len() as u64), ("slices", l.slices.len() as u64)]
}

fn locate(segs: &[(&'static str, u64)], mut idx: u64) -> (&'static str, u64) {
    for (n, c) in segs {
        if idx < *c {
            return (n, idx);
        }
        idx -= c;
    }
    ("none", 0)
}

fn brief(v: &V) -> String {
    let s = v.show();
    if s.chars().count() > 40 { format!("{}..({} chars)", s.chars().take(24).collect::<String>(), s.chars().count()) } else { s }
}

impl Property for C12 {
    fn id(&self) -> &'static str {
        "C12"
    }
    fn level(&self) -> &'static str {
        "exploration"
    }
    fn size(&self, tier: Tier) -> u64 {
        segments(layout(tier)).iter().map(|s| s.1).sum()
    }
    fn describe(&self, tier: Tier, idx: u64) -> String {
        let l = layout(tier);
        let (s, i) = locate(&segments(l), idx);
        let i = i as usize;
        match s {
            "matrix" => format!("matrix: every ordered pair of {} representatives", l.reps.len()),
            "num" => format!("num: {} against every number", brief(&l.nums[i])),
            "atoms" => format!("atoms: {} against every char and byte", brief(&l.atoms[i])),
            "text" => format!("text: {} against every char list and byte list", brief(&l.texts[i])),
            "slices" => format!("slices: {} against every slice", brief(&l.slices[i])),
            _ => format!("none#{}", idx),
        }
    }
    fn budget_ms(&self) -> u64 {
        8000
    }
    fn run(&self, tier: Tier, idx: u64, cx: &mut Ctx) {
        let l = layout(tier);
        let (s, i) = locate(&segments(l), idx);
        let i = i as usize;
        let (seg, set): (&str, &Vec<V>) = match s {
            "matrix" => {
                run_matrix(cx, &l.reps);
                cx.sample(json!(format!("matrix: {} representatives, every ordered pair, 4 comparisons + equality, both implementations", l.reps.len())));
                return;
            }
            "num" => ("num", &l.nums),
            "atoms" => ("atoms", &l.atoms),
            "text" => ("text", &l.texts),
            "slices" => ("slices", &l.slices),
            _ => return,
        };
        let a = &set[i];
        for b in set.iter() {
            // "other combinations" (char list against byte list, ...) belong to the matrix
            if want(a, b).map(|x| x.0.other()).unwrap_or(true) {
                cx.count("pairs_left_to_matrix", 1);
                continue;
            }
            check_pair(cx, seg, a, b, false, None, None);
        }
        // the operand against itself: a second copy, then the same address twice
        let plain = check_pair_x(cx, seg, a, a, false, None, None, &[]);
        check_pair_x(cx, seg, a, a, true, None, None, &plain);
        cx.sample_at(41, || json!(format!("{}: {} {{< <= > >= ==}} <every value of the segment, {}>", seg, brief(a), set.len())));
    }
    fn replay(&self, d: &Value, cx: &mut Ctx) {
        let (a, b) = match (vfrom(&d["a"]), vfrom(&d["b"])) {
            (Some(a), Some(b)) => (a, b),
            _ => return,
        };
        let alias = d["alias"].as_bool().unwrap_or(false);
        let seg = d["seg"].as_str().unwrap_or("replay").to_string();
        let cell = d["cell"].as_str().map(|s| s.to_string());
        check_pair(cx, &seg, &a, &b, alias, d["impl"].as_str(), cell.as_deref());
    }
    fn meta(&self, tier: Tier) -> Meta {
        let l = layout(tier);
        Meta {
            rule: format!(
                "every ordered pair (and every value against itself at one address) of: {} numbers (i32 boundary lattice of C09 with +-{} neighbours, every lattice integer k as a float and k+-0.5 (thorough: +-0.25), 2^24.., 2^31 and -2^31-1 as floats, 2^32.., subnormals, +-MAX, 2 NaNs, +-inf); {} chars and bytes; {} char lists / byte lists (all words over {} up to length {}, deterministic long words with a long common prefix, non-ASCII words, high bytes); {} slices and plain lists (every in-bounds slice of every word over {{a,b}} up to length {}); {} representatives of every data type (cross-type matrix). Each pair on both data implementations: LessThan, LessThanOrEqual, GreaterThan, GreaterThanOrEqual and Equal executed by garnish_lang_runtime::ops on operands pushed left then right. A case is non-trivial when the operands are comparable (at least one of the four results must be true); distinct by (left, right, same-address).",
                l.nums.len(),
                tier.pick(1, 3),
                l.atoms.len(),
                l.texts.len(),
                tier.pick("{a,b}", "{a,b,c}"),
                tier.pick(3, 5),
                l.slices.len(),
                tier.pick(3, 5),
                l.reps.len()
            ),
            assumptions: vec![
                "natural order of characters = code point order; of bytes = unsigned value; of lists = lexicographic on those, the proper prefix first".into(),
                "`a == b` in 'exactly one of a < b, a == b, a > b' is the result of the Equal instruction; it is judged only on comparable operands and only after `<` and `>` agreed with the natural order".into(),
                "antisymmetry (a < b iff b > a) and the <= / > duality are not separate verdicts: both ordered pairs are compared with an antisymmetric reference, which implies them; the relations are additionally evaluated on the observed results (counters relations_evaluated / relations_held)".into(),
                "NaN against a number: all four unit. NaN or an infinity against a non-number: all-false and all-unit are both accepted (the parenthesis of the statement can be read either way)".into(),
                "an infinite operand against a number: the order of the extended reals and all-unit are both accepted (the statement speaks of numbers; arithmetic never produces an infinity)".into(),
                "a slice of a char/byte list against such a slice or list: all-false (the letter of the statement: any other combination) and the natural order of the selected items (the repository's pinned tests) are both accepted; anything else is reported. Only in-bounds integer ranges are generated".into(),
                "pairs that are 'any other combination' (char list against byte list, char against byte, NaN against a non-number, ...) are judged in the cross-type matrix only (counter pairs_left_to_matrix); the matrix reduces their failures to the widest of `*x*`, `Ax*`, `*xB`, `AxB` that fails alike".into(),
                "a failure kind that a fixed probe (one pair per comparable class and relation) shows on every comparable class is reported under the witness `every-comparable-class`".into(),
                "register depth is not judged; the result is the value popped from the register after the instruction".into(),
                "an operand the add-interface refuses is counted (setup_failed) and skipped".into(),
            ],
            trusted_base: vec![
                "engine/src/props/c12.rs want()/cmp_int_float()/lex() (integer-based exact comparison, explicit lexicographic loop)".into(),
                "engine/src/val.rs put/get bridge".into(),
                "rustc f64 partial_cmp for float/float pairs".into(),
            ],
            explanation: "bounded-exhaustive enumeration of operand pairs; the quadruple of results of the four ordering instructions is compared with the quadruple implied by an independent natural-order reference".into(),
        }
    }
}
