//! C11 - equality is structural and an equivalence relation.
//!
//! Bounded-exhaustive: a universe of value trees (atoms closed under pair / list / concatenation to a bounded
//! depth and width, plus near-miss mutants of every compound value) is built bottom-up; **every ordered pair**
//! of the universe is compared with the real `Equal` / `NotEqual` instructions on both data implementations,
//! in three placements (left operand built first, right operand built first, identical sub-values shared by
//! address), inside a data object that already holds unrelated values and unrelated operands below the two
//! compared ones. The result is judged against a reference structural equality written from the property
//! statement; symmetry, negation, and stack cleanliness are judged on the implementation's own answers;
//! transitivity is additionally checked on all triples of a sub-universe.
//!
//! Index space: one element = (implementation, placement, chunk of <= 1024 right operands, left operand), i.e.
//! "this left value x these right values", ~10 ms of CPU; then one element per (implementation, x) for the
//! triples (x, y, z). Nothing is sampled; the universe, its order and every verdict are deterministic.

use crate::fw::{guard, panic_kind, Ctx, Meta, Property, Tier};
use crate::subj::{basic_settings, BData, Host, SData, Subject};
use crate::val::{put, put_list, SymPart, V};
use garnish_lang_runtime::ops;
use garnish_lang_simple_data::{symbol_value, BasicGarnishData, DataError, ReallocationStrategy, StorageSettings};
use garnish_lang_traits::GarnishDataType;
use serde_json::{json, Value};
use std::cell::RefCell;
use std::collections::{BTreeMap, HashMap};
use std::sync::OnceLock;

pub struct C11;

// ---------------------------------------------------------------------------------------------
// subjects: same as subj::Subject plus a constructor whose data block grows geometrically (the default
// Basic settings grow by 10 slots and copy the whole heap each time, which makes rows of thousands of
// comparisons quadratic; the default settings are still exercised by the transitivity elements).

pub trait Mk: Subject {
    fn roomy() -> Self;
}

impl Mk for SData {
    fn roomy() -> Self {
        SData::fresh(Host::none())
    }
}

impl Mk for BData {
    fn roomy() -> Self {
        BasicGarnishData::new_with_settings(
            StorageSettings::default(),
            StorageSettings::default(),
            StorageSettings::default(),
            StorageSettings::default(),
            basic_settings(256, ReallocationStrategy::Multiplicative(2)),
            StorageSettings::default(),
            Host::none(),
        )
        .expect("BasicGarnishData::new_with_settings")
    }
}

// ---------------------------------------------------------------------------------------------
// value helpers

fn i(n: i32) -> V {
    V::Int(n)
}
fn f(x: f64) -> V {
    V::Float(x)
}
fn c(ch: char) -> V {
    V::Char(ch)
}
fn s(t: &str) -> V {
    V::str(t)
}
fn l(items: Vec<V>) -> V {
    V::List(items)
}
fn p(a: V, b: V) -> V {
    V::Pair(Box::new(a), Box::new(b))
}
fn cat(a: V, b: V) -> V {
    V::Concat(Box::new(a), Box::new(b))
}
fn sy(name: &str) -> u64 {
    symbol_value(name)
}

fn v_json(v: &V) -> Value {
    match v {
        V::Unit => json!(["unit"]),
        V::True => json!(["true"]),
        V::False => json!(["false"]),
        V::Int(n) => json!(["int", n]),
        V::Float(x) => json!(["float", x.to_bits().to_string()]),
        V::Char(ch) => json!(["char", ch.to_string()]),
        V::Byte(b) => json!(["byte", b]),
        V::Sym(x) => json!(["sym", x.to_string()]),
        V::Type(t) => json!(["type", format!("{:?}", t)]),
        V::Str(t) => json!(["str", t.iter().collect::<String>()]),
        V::Bytes(b) => json!(["bytes", b]),
        V::SymList(parts) => {
            let ps: Vec<String> = parts
                .iter()
                .map(|q| match q {
                    SymPart::Sym(x) => format!("s{}", x),
                    SymPart::Num(n) => format!("n{}", n),
                })
                .collect();
            json!(["symlist", ps])
        }
        V::Pair(a, b) => json!(["pair", v_json(a), v_json(b)]),
        V::List(items) => json!(["list", items.iter().map(v_json).collect::<Vec<_>>()]),
        V::Concat(a, b) => json!(["concat", v_json(a), v_json(b)]),
        V::External(n) => json!(["ext", n]),
        _ => json!(["unsupported"]),
    }
}

fn v_from_json(j: &Value) -> Option<V> {
    let a = j.as_array()?;
    let tag = a.first()?.as_str()?;
    Some(match tag {
        "unit" => V::Unit,
        "true" => V::True,
        "false" => V::False,
        "int" => V::Int(a.get(1)?.as_i64()? as i32),
        "float" => V::Float(f64::from_bits(a.get(1)?.as_str()?.parse::<u64>().ok()?)),
        "char" => V::Char(a.get(1)?.as_str()?.chars().next()?),
        "byte" => V::Byte(a.get(1)?.as_u64()? as u8),
        "sym" => V::Sym(a.get(1)?.as_str()?.parse::<u64>().ok()?),
        "type" => V::Type(match a.get(1)?.as_str()? {
            "Number" => GarnishDataType::Number,
            "Char" => GarnishDataType::Char,
            "List" => GarnishDataType::List,
            "Unit" => GarnishDataType::Unit,
            _ => return None,
        }),
        "str" => V::Str(a.get(1)?.as_str()?.chars().collect()),
        "bytes" => V::Bytes(a.get(1)?.as_array()?.iter().map(|x| x.as_u64().unwrap_or(0) as u8).collect()),
        "symlist" => {
            let mut parts = vec![];
            for q in a.get(1)?.as_array()? {
                let t = q.as_str()?;
                if let Some(r) = t.strip_prefix('s') {
                    parts.push(SymPart::Sym(r.parse::<u64>().ok()?));
                } else if let Some(r) = t.strip_prefix('n') {
                    parts.push(SymPart::Num(r.parse::<i32>().ok()?));
                } else {
                    return None;
                }
            }
            V::SymList(parts)
        }
        "pair" => p(v_from_json(a.get(1)?)?, v_from_json(a.get(2)?)?),
        "concat" => cat(v_from_json(a.get(1)?)?, v_from_json(a.get(2)?)?),
        "list" => {
            let mut items = vec![];
            for x in a.get(1)?.as_array()? {
                items.push(v_from_json(x)?);
            }
            V::List(items)
        }
        "ext" => V::External(a.get(1)?.as_u64()? as usize),
        _ => return None,
    })
}

/// exact structural key (two values have the same key iff they are the same tree, floats bit-exact)
fn key(v: &V) -> String {
    v_json(v).to_string()
}

fn is_seq(v: &V) -> bool {
    matches!(v, V::List(_) | V::Concat(..))
}

fn is_compound(v: &V) -> bool {
    matches!(v, V::List(_) | V::Concat(..) | V::Pair(..))
}

// ---------------------------------------------------------------------------------------------
// the reference (oracle)

/// Items of a list / concatenation as the language iterates them: a list yields its items; a concatenation
/// yields the items of its left operand then of its right operand, where a concatenation operand is flattened
/// recursively, a list operand is spliced one level, and anything else is one item.
fn flat_items<'a>(v: &'a V, out: &mut Vec<&'a V>) {
    match v {
        V::List(items) => out.extend(items.iter()),
        V::Concat(a, b) => {
            splice(a, out);
            splice(b, out);
        }
        _ => {}
    }
}

fn splice<'a>(x: &'a V, out: &mut Vec<&'a V>) {
    match x {
        V::Concat(..) => flat_items(x, out),
        V::List(items) => out.extend(items.iter()),
        _ => out.push(x),
    }
}

fn atom_eq(a: &V, b: &V) -> bool {
    match (a, b) {
        (V::Unit, V::Unit) | (V::True, V::True) | (V::False, V::False) => true,
        (V::Int(x), V::Int(y)) => x == y,
        (V::Int(x), V::Float(y)) | (V::Float(y), V::Int(x)) => (*x as f64) == *y,
        (V::Float(x), V::Float(y)) => x == y,
        (V::Char(x), V::Char(y)) => x == y,
        (V::Byte(x), V::Byte(y)) => x == y,
        (V::Sym(x), V::Sym(y)) => x == y,
        (V::Type(x), V::Type(y)) => x == y,
        (V::External(x), V::External(y)) => x == y,
        _ => false,
    }
}

/// The reading of the statement the check demands wherever every reasonable reading agrees with it.
pub fn strict_eq(a: &V, b: &V) -> bool {
    match (a, b) {
        (V::Char(x), V::Str(t)) | (V::Str(t), V::Char(x)) => t.len() == 1 && t[0] == *x,
        (V::Byte(x), V::Bytes(t)) | (V::Bytes(t), V::Byte(x)) => t.len() == 1 && t[0] == *x,
        (V::Str(x), V::Str(y)) => x == y,
        (V::Bytes(x), V::Bytes(y)) => x == y,
        (V::SymList(x), V::SymList(y)) => x == y,
        (V::Pair(a1, a2), V::Pair(b1, b2)) => strict_eq(a1, b1) && strict_eq(a2, b2),
        (x, y) if is_seq(x) && is_seq(y) => {
            let (mut xs, mut ys) = (vec![], vec![]);
            flat_items(x, &mut xs);
            flat_items(y, &mut ys);
            xs.len() == ys.len() && xs.iter().zip(ys.iter()).all(|(q, r)| strict_eq(q, r))
        }
        _ => atom_eq(a, b),
    }
}

/// element of the fully flattened stream of a sequence-like value
enum Elem<'a> {
    A(V),
    P(&'a V, &'a V),
}

fn is_seq_like(v: &V) -> bool {
    matches!(v, V::List(_) | V::Concat(..) | V::Str(_) | V::Bytes(_) | V::SymList(_))
}

fn deep_stream<'a>(v: &'a V, out: &mut Vec<Elem<'a>>) {
    match v {
        V::List(items) => {
            for x in items {
                deep_stream(x, out);
            }
        }
        V::Concat(a, b) => {
            deep_stream(a, out);
            deep_stream(b, out);
        }
        V::Str(t) => out.extend(t.iter().map(|ch| Elem::A(V::Char(*ch)))),
        V::Bytes(t) => out.extend(t.iter().map(|b| Elem::A(V::Byte(*b)))),
        V::SymList(parts) => out.extend(parts.iter().map(|q| match q {
            SymPart::Sym(x) => Elem::A(V::Sym(*x)),
            SymPart::Num(n) => Elem::A(V::Int(*n)),
        })),
        V::Pair(a, b) => out.push(Elem::P(a, b)),
        other => out.push(Elem::A(other.clone())),
    }
}

/// The most permissive reading we can imagine of the statement: every sequence-like value (list,
/// concatenation, text, byte list, symbol list) is its fully flattened element stream, and a single character /
/// byte / symbol equals any sequence whose stream is exactly that element. `strict_eq` implies `loose_eq`.
/// Where the two disagree the statement is considered silent and either answer is accepted.
pub fn loose_eq(a: &V, b: &V) -> bool {
    if strict_eq(a, b) {
        return true;
    }
    let single = |x: &V| matches!(x, V::Char(_) | V::Byte(_) | V::Sym(_));
    match (a, b) {
        (V::Pair(a1, a2), V::Pair(b1, b2)) => loose_eq(a1, b1) && loose_eq(a2, b2),
        (x, y) if (is_seq_like(x) && is_seq_like(y)) || (single(x) && is_seq_like(y)) || (is_seq_like(x) && single(y)) => {
            let (mut xs, mut ys) = (vec![], vec![]);
            deep_stream(x, &mut xs);
            deep_stream(y, &mut ys);
            xs.len() == ys.len()
                && xs.iter().zip(ys.iter()).all(|(q, r)| match (q, r) {
                    (Elem::A(u), Elem::A(w)) => atom_eq(u, w),
                    (Elem::P(u1, u2), Elem::P(w1, w2)) => loose_eq(u1, w1) && loose_eq(u2, w2),
                    _ => false,
                })
        }
        _ => false,
    }
}

/// Some(x): the statement demands x. None: the statement is silent, both answers accepted.
pub fn demand(a: &V, b: &V) -> Option<bool> {
    let st = strict_eq(a, b);
    if st {
        return Some(true);
    }
    // quick exit: kinds for which even the permissive reading says "different"
    let single = |x: &V| matches!(x, V::Char(_) | V::Byte(_) | V::Sym(_));
    let maybe = match (a, b) {
        (V::Pair(..), V::Pair(..)) => true,
        (x, y) => (is_seq_like(x) && is_seq_like(y)) || (single(x) && is_seq_like(y)) || (is_seq_like(x) && single(y)),
    };
    if !maybe {
        return Some(false);
    }
    if loose_eq(a, b) { None } else { Some(false) }
}

/// canonical form under strict_eq - used ONLY to choose the transitivity sub-universe, never as an oracle
fn canon(v: &V) -> String {
    match v {
        V::Int(n) => format!("#{}", n),
        V::Float(x) => {
            if x.fract() == 0.0 && x.abs() < 2e9 { format!("#{}", *x as i64) } else { format!("#f{}", x.to_bits()) }
        }
        V::Char(ch) => format!("t:{}", ch),
        V::Str(t) => format!("t:{}", t.iter().collect::<String>()),
        V::Byte(b) => format!("y:[{}]", b),
        V::Bytes(t) => format!("y:{:?}", t),
        V::Pair(a, b) => format!("({}={})", canon(a), canon(b)),
        x if is_seq(x) => {
            let mut xs = vec![];
            flat_items(x, &mut xs);
            format!("[{}]", xs.iter().map(|q| canon(q)).collect::<Vec<_>>().join(","))
        }
        other => key(other),
    }
}

// ---------------------------------------------------------------------------------------------
// universe

fn atoms() -> Vec<V> {
    vec![
        V::Unit,
        V::True,
        V::False,
        i(0),
        i(1),
        i(-1),
        f(1.0),
        f(1.5),
        f(0.0),
        // the negative zero: numerically equal to 0 and 0.0, a different bit pattern
        f(-0.0),
        c('a'),
        c('b'),
        V::Byte(1),
        V::Byte(2),
        V::Sym(sy("a")),
        V::Sym(sy("b")),
        V::SymList(vec![SymPart::Sym(sy("a")), SymPart::Sym(sy("b"))]),
        V::SymList(vec![SymPart::Sym(sy("b")), SymPart::Sym(sy("a"))]),
        V::SymList(vec![SymPart::Sym(sy("a")), SymPart::Sym(sy("b")), SymPart::Sym(sy("a"))]),
        s(""),
        s("a"),
        s("b"),
        s("ab"),
        s("ba"),
        V::Bytes(vec![]),
        V::Bytes(vec![1]),
        V::Bytes(vec![2]),
        V::Bytes(vec![1, 2]),
        V::Type(GarnishDataType::Number),
        V::Type(GarnishDataType::Char),
        V::External(1),
        V::External(2),
    ]
}

/// pair, list of width 0..2, concatenation over a set
fn compose(set: &[V]) -> Vec<V> {
    let mut out = vec![l(vec![])];
    for x in set {
        out.push(l(vec![x.clone()]));
    }
    for x in set {
        for y in set {
            out.push(p(x.clone(), y.clone()));
            out.push(l(vec![x.clone(), y.clone()]));
            out.push(cat(x.clone(), y.clone()));
        }
    }
    out
}

fn mutate_atom(v: &V) -> V {
    match v {
        V::Unit => V::False,
        V::True => V::False,
        V::False => V::True,
        V::Int(n) => V::Int(n + 1),
        V::Float(x) => V::Float(x + 0.5),
        V::Char(ch) => V::Char(if *ch == 'a' { 'b' } else { 'a' }),
        V::Byte(b) => V::Byte(b.wrapping_add(1)),
        V::Sym(x) => V::Sym(if *x == sy("a") { sy("b") } else { sy("a") }),
        V::Str(t) => {
            let mut t = t.clone();
            match t.pop() {
                None => t.push('a'),
                Some(ch) => t.push(if ch == 'a' { 'b' } else { 'a' }),
            }
            V::Str(t)
        }
        V::Bytes(t) => {
            let mut t = t.clone();
            match t.pop() {
                None => t.push(1),
                Some(b) => t.push(b.wrapping_add(1)),
            }
            V::Bytes(t)
        }
        V::SymList(parts) => {
            let mut q = parts.clone();
            q.reverse();
            if &q == parts {
                q.push(SymPart::Sym(sy("b")));
            }
            V::SymList(q)
        }
        V::Type(t) => V::Type(if *t == GarnishDataType::Number { GarnishDataType::Char } else { GarnishDataType::Number }),
        V::External(n) => V::External(n + 1),
        other => other.clone(),
    }
}

fn count_nodes(v: &V, pred: &dyn Fn(&V) -> bool) -> usize {
    let me = if pred(v) { 1 } else { 0 };
    me + match v {
        V::Pair(a, b) | V::Concat(a, b) => count_nodes(a, pred) + count_nodes(b, pred),
        V::List(items) => items.iter().map(|x| count_nodes(x, pred)).sum(),
        _ => 0,
    }
}

/// rebuild `v` with the `target`-th node (pre-order) satisfying `pred` replaced by `f(node)`
fn rewrite(v: &V, pred: &dyn Fn(&V) -> bool, target: usize, counter: &mut usize, f: &dyn Fn(&V) -> V) -> V {
    if pred(v) {
        let me = *counter;
        *counter += 1;
        if me == target {
            return f(v);
        }
    }
    match v {
        V::Pair(a, b) => {
            let x = rewrite(a, pred, target, counter, f);
            let y = rewrite(b, pred, target, counter, f);
            p(x, y)
        }
        V::Concat(a, b) => {
            let x = rewrite(a, pred, target, counter, f);
            let y = rewrite(b, pred, target, counter, f);
            cat(x, y)
        }
        V::List(items) => V::List(items.iter().map(|x| rewrite(x, pred, target, counter, f)).collect()),
        other => other.clone(),
    }
}

/// list <-> concatenation of the same items
fn swap_shape(v: &V) -> V {
    match v {
        V::List(items) => match items.len() {
            0 => cat(l(vec![]), l(vec![])),
            1 => cat(l(vec![items[0].clone()]), l(vec![])),
            _ => {
                let wrap = items.iter().any(is_seq);
                let one = |x: &V| if wrap { l(vec![x.clone()]) } else { x.clone() };
                let mut acc = cat(one(&items[0]), one(&items[1]));
                for x in &items[2..] {
                    acc = cat(acc, one(x));
                }
                acc
            }
        },
        V::Concat(..) => {
            let mut xs = vec![];
            flat_items(v, &mut xs);
            V::List(xs.into_iter().cloned().collect())
        }
        other => other.clone(),
    }
}

fn swap_single(v: &V) -> V {
    match v {
        V::Char(ch) => V::Str(vec![*ch]),
        V::Byte(b) => V::Bytes(vec![*b]),
        V::Str(t) if t.len() == 1 => V::Char(t[0]),
        V::Bytes(t) if t.len() == 1 => V::Byte(t[0]),
        other => other.clone(),
    }
}

fn swap_num(v: &V) -> V {
    match v {
        V::Int(n) => V::Float(*n as f64),
        V::Float(x) if x.fract() == 0.0 => V::Int(*x as i32),
        other => other.clone(),
    }
}

fn mutants(v: &V, all_positions: bool) -> Vec<V> {
    let mut out = vec![];
    let is_leaf = |x: &V| !is_compound(x);
    let is_list = |x: &V| matches!(x, V::List(_));
    let is_single = |x: &V| matches!(x, V::Char(_) | V::Byte(_)) || matches!(x, V::Str(t) if t.len() == 1) || matches!(x, V::Bytes(t) if t.len() == 1);
    let is_num = |x: &V| matches!(x, V::Int(_)) || matches!(x, V::Float(y) if y.fract() == 0.0);
    // quick tier - which: 0 = first and last, 1 = last only, 2 = first only; thorough tier - 0 = every position, otherwise first and last
    let positions = |n: usize, which: u8| -> Vec<usize> {
        if n == 0 {
            vec![]
        } else if all_positions && which == 0 {
            (0..n).collect()
        } else if n == 1 {
            vec![0]
        } else if all_positions {
            vec![0, n - 1]
        } else {
            match which {
                0 => vec![0, n - 1],
                1 => vec![n - 1],
                _ => vec![0],
            }
        }
    };
    // one leaf changed
    for k in positions(count_nodes(v, &is_leaf), 0) {
        out.push(rewrite(v, &is_leaf, k, &mut 0, &mutate_atom));
    }
    // one item appended to a list (or to the concatenation at the top)
    for k in positions(count_nodes(v, &is_list), 1) {
        out.push(rewrite(v, &is_list, k, &mut 0, &|x: &V| match x {
            V::List(items) => {
                let mut q = items.clone();
                q.push(i(1));
                V::List(q)
            }
            o => o.clone(),
        }));
    }
    if matches!(v, V::Concat(..)) {
        out.push(cat(v.clone(), i(1)));
    }
    // list <-> concatenation of the same items
    for k in positions(count_nodes(v, &is_seq), 0) {
        out.push(rewrite(v, &is_seq, k, &mut 0, &swap_shape));
    }
    // char <-> 1-char list, byte <-> 1-byte list
    for k in positions(count_nodes(v, &is_single), 2) {
        out.push(rewrite(v, &is_single, k, &mut 0, &swap_single));
    }
    // integer <-> the float of the same value
    for k in positions(count_nodes(v, &is_num), 1) {
        out.push(rewrite(v, &is_num, k, &mut 0, &swap_num));
    }
    out
}

#[derive(Clone)]
enum NodeDef {
    Atom(V),
    Pair(u32, u32),
    List(Vec<u32>),
    Concat(u32, u32),
}

pub struct Layout {
    vals: Vec<V>,
    /// hash-consed sub-trees of all universe values
    nodes: Vec<NodeDef>,
    roots: Vec<u32>,
    /// indexes (into vals) of the transitivity sub-universe
    trans: Vec<usize>,
}

fn intern(v: &V, nodes: &mut Vec<NodeDef>, table: &mut HashMap<String, u32>) -> u32 {
    let k = key(v);
    if let Some(id) = table.get(&k) {
        return *id;
    }
    let def = match v {
        V::Pair(a, b) => NodeDef::Pair(intern(a, nodes, table), intern(b, nodes, table)),
        V::Concat(a, b) => NodeDef::Concat(intern(a, nodes, table), intern(b, nodes, table)),
        V::List(items) => NodeDef::List(items.iter().map(|x| intern(x, nodes, table)).collect()),
        other => NodeDef::Atom(other.clone()),
    };
    nodes.push(def);
    let id = (nodes.len() - 1) as u32;
    table.insert(k, id);
    id
}

fn build_layout(tier: Tier) -> Layout {
    let quick = tier == Tier::Quick;
    // composition sets
    let mut comp: Vec<V> = vec![V::Unit, i(0), i(1), f(1.0), c('a'), s("a")];
    let mut s2: Vec<V> = vec![
        i(1),
        c('a'),
        s("a"),
        p(i(1), c('a')),
        p(i(0), c('a')),
        l(vec![]),
        l(vec![i(1)]),
        l(vec![i(1), c('a')]),
        cat(i(1), c('a')),
        cat(i(1), i(0)),
    ];
    let mut w3: Vec<V> = vec![i(1), c('a'), l(vec![i(1)])];
    let mut s3: Vec<V> = vec![l(vec![l(vec![i(1)])]), p(i(1), l(vec![i(1), c('a')])), cat(cat(i(1), c('a')), i(1)), l(vec![i(1), c('a'), i(1)])];
    if !quick {
        comp.extend(vec![s("ab"), V::Sym(sy("a")), V::Byte(1)]);
        s2.extend(vec![
            f(1.0),
            p(f(1.0), s("a")),
            l(vec![c('a')]),
            l(vec![s("a")]),
            cat(l(vec![i(1)]), l(vec![c('a')])),
            cat(l(vec![]), l(vec![])),
        ]);
        w3.extend(vec![cat(i(1), c('a'))]);
        s3.extend(vec![p(p(i(1), c('a')), i(1)), cat(l(vec![i(1), c('a')]), l(vec![i(1)])), l(vec![cat(i(1), c('a'))])]);
    }
    let mut compound: Vec<V> = vec![];
    compound.extend(compose(&comp));
    compound.extend(compose(&s2));
    for x in &w3 {
        for y in &w3 {
            for z in &w3 {
                compound.push(l(vec![x.clone(), y.clone(), z.clone()]));
            }
        }
    }
    compound.extend(compose(&s3));

    let mut vals: Vec<V> = vec![];
    let mut seen: HashMap<String, ()> = HashMap::new();
    let mut add = |v: V, vals: &mut Vec<V>| {
        if seen.insert(key(&v), ()).is_none() {
            vals.push(v);
        }
    };
    for a in atoms() {
        add(a, &mut vals);
    }
    for v in &compound {
        add(v.clone(), &mut vals);
    }
    let base: Vec<V> = vals.clone();
    for v in base.iter().filter(|v| is_compound(v)) {
        for m in mutants(v, !quick) {
            add(m, &mut vals);
        }
    }

    let mut nodes = vec![];
    let mut table = HashMap::new();
    let roots: Vec<u32> = vals.iter().map(|v| intern(v, &mut nodes, &mut table)).collect();

    // transitivity sub-universe: members of the largest equivalence classes first, then compound near-misses
    let cap = if quick { 60 } else { 120 };
    let mut classes: BTreeMap<String, Vec<usize>> = BTreeMap::new();
    for (k, v) in vals.iter().enumerate() {
        classes.entry(canon(v)).or_default().push(k);
    }
    let mut multi: Vec<&Vec<usize>> = classes.values().filter(|m| m.len() >= 2).collect();
    multi.sort_by(|a, b| b.len().cmp(&a.len()).then(a[0].cmp(&b[0])));
    let mut trans: Vec<usize> = vec![];
    // the atoms that take part in the numeric and the char/byte-vs-one-element-list rules
    let seeds = [i(0), i(1), f(0.0), f(1.0), f(1.5), c('a'), c('b'), s("a"), s("b"), s("ab"), V::Byte(1), V::Byte(2), V::Bytes(vec![1]), V::Bytes(vec![2])];
    for sd in &seeds {
        if let Some(k) = vals.iter().position(|v| key(v) == key(sd)) {
            trans.push(k);
        }
    }
    for m in &multi {
        if trans.len() + 2 > cap * 3 / 4 {
            break;
        }
        for k in m.iter().take(5) {
            if trans.len() < cap * 3 / 4 && !trans.contains(k) {
                trans.push(*k);
            }
        }
    }
    let rest: Vec<usize> = (0..vals.len()).filter(|k| is_compound(&vals[*k]) && !trans.contains(k)).collect();
    let need = cap.saturating_sub(trans.len());
    if need > 0 && !rest.is_empty() {
        let stride = (rest.len() / need).max(1);
        let mut q = 0;
        while trans.len() < cap && q < rest.len() {
            trans.push(rest[q]);
            q += stride;
        }
    }
    trans.sort();
    trans.dedup();

    Layout { vals, nodes, roots, trans }
}

static LAYOUT_Q: OnceLock<Layout> = OnceLock::new();
static LAYOUT_T: OnceLock<Layout> = OnceLock::new();

fn layout(tier: Tier) -> &'static Layout {
    match tier {
        Tier::Quick => LAYOUT_Q.get_or_init(|| build_layout(Tier::Quick)),
        Tier::Thorough => LAYOUT_T.get_or_init(|| build_layout(Tier::Thorough)),
    }
}

// ---------------------------------------------------------------------------------------------
// building values in a data object

const NONE: usize = usize::MAX;

fn build_node<D: Mk>(d: &mut D, lay: &Layout, id: u32, memo: &mut Option<Vec<usize>>) -> Result<usize, DataError> {
    if let Some(m) = memo {
        if m[id as usize] != NONE {
            return Ok(m[id as usize]);
        }
    }
    let addr = match &lay.nodes[id as usize] {
        NodeDef::Atom(v) => put(d, v)?,
        NodeDef::Pair(a, b) => {
            let x = build_node(d, lay, *a, memo)?;
            let y = build_node(d, lay, *b, memo)?;
            d.add_pair((x, y))?
        }
        NodeDef::Concat(a, b) => {
            let x = build_node(d, lay, *a, memo)?;
            let y = build_node(d, lay, *b, memo)?;
            d.add_concatenation(x, y)?
        }
        NodeDef::List(items) => {
            let mut addrs = Vec::with_capacity(items.len());
            for x in items {
                addrs.push(build_node(d, lay, *x, memo)?);
            }
            put_list(d, &addrs)?
        }
    };
    if let Some(m) = memo {
        m[id as usize] = addr;
    }
    Ok(addr)
}

/// build a V sharing identical sub-values by address (used by probes / replay for placement 2)
fn put_shared<D: Mk>(d: &mut D, v: &V, memo: &mut HashMap<String, usize>) -> Result<usize, DataError> {
    let k = key(v);
    if let Some(a) = memo.get(&k) {
        return Ok(*a);
    }
    let addr = match v {
        V::Pair(a, b) => {
            let x = put_shared(d, a, memo)?;
            let y = put_shared(d, b, memo)?;
            d.add_pair((x, y))?
        }
        V::Concat(a, b) => {
            let x = put_shared(d, a, memo)?;
            let y = put_shared(d, b, memo)?;
            d.add_concatenation(x, y)?
        }
        V::List(items) => {
            let mut addrs = vec![];
            for x in items {
                addrs.push(put_shared(d, x, memo)?);
            }
            put_list(d, &addrs)?
        }
        other => put(d, other)?,
    };
    memo.insert(k, addr);
    Ok(addr)
}

/// unrelated values in the data object and two unrelated operands at the bottom of the operand stack
fn pad<D: Mk>(d: &mut D) -> Result<[usize; 2], DataError> {
    let _ = put(d, &s("pad"))?;
    let a = put(d, &p(i(7777), s("pad")))?;
    let b = put(d, &l(vec![i(7777), c('z'), cat(i(7777), c('z'))]))?;
    d.push_register(a)?;
    d.push_register(b)?;
    Ok([a, b])
}

// ---------------------------------------------------------------------------------------------
// running one instruction

#[derive(Clone, Debug, PartialEq)]
enum Out {
    Bool(bool),
    /// (failure kind, human-readable)
    Fail(String, String),
}

impl Out {
    fn show(&self) -> String {
        match self {
            Out::Bool(b) => format!("{}", b),
            Out::Fail(k, m) => format!("{} ({})", k, m),
        }
    }
}

fn clip(m: &str) -> String {
    panic_kind(&m.chars().take(70).collect::<String>())
}

/// Push l, r; execute Equal / NotEqual; check Ok, depth before-1, boolean on top, operands below untouched; pop the result.
fn run_op<D: Mk>(d: &mut D, left: usize, right: usize, negated: bool, base: usize, sent: &[usize; 2]) -> Out {
    let r = guard(|| -> Result<Out, String> {
        d.push_register(left).map_err(|e| format!("push: {}", e))?;
        d.push_register(right).map_err(|e| format!("push: {}", e))?;
        let before = d.get_register_len();
        let res = if negated { ops::not_equal(d) } else { ops::equal(d) };
        if let Err(e) = res {
            return Ok(Out::Fail(format!("err-returned[{}]", clip(e.get_message())), e.get_message().clone()));
        }
        let after = d.get_register_len();
        if after + 1 != before {
            let what = if after + 1 > before { "left-behind" } else { "over-popped" };
            return Ok(Out::Fail(format!("operand-stack-depth[{}]", what), format!("register depth {} -> {} (expected {})", before, after, before - 1)));
        }
        let top = match d.pop_register() {
            Ok(Some(t)) => t,
            Ok(None) => return Ok(Out::Fail("result-unreadable".into(), "no register to pop".into())),
            Err(e) => return Ok(Out::Fail("result-unreadable".into(), format!("{}", e))),
        };
        let val = match d.get_data_type(top) {
            Ok(GarnishDataType::True) => true,
            Ok(GarnishDataType::False) => false,
            Ok(t) => return Ok(Out::Fail(format!("non-boolean-result[{:?}]", t), format!("result type {:?}", t))),
            Err(e) => return Ok(Out::Fail("result-unreadable".into(), format!("{}", e))),
        };
        if d.get_register_len() != base || d.get_register(base - 1) != Some(sent[1]) || d.get_register(base - 2) != Some(sent[0]) {
            return Ok(Out::Fail("operands-below-disturbed".into(), "the two unrelated operands below the compared ones changed".into()));
        }
        Ok(Out::Bool(val))
    });
    match r {
        Ok(Ok(o)) => o,
        Ok(Err(m)) => panic!("harness could not push operands: {}", m),
        Err(pm) => Out::Fail(format!("panic[{}]", panic_kind(&pm)), pm),
    }
}

/// bring the operand stack back to `base` after a failed instruction; false = the data object must be rebuilt
fn repair<D: Mk>(d: &mut D, base: usize, sent: &[usize; 2]) -> bool {
    guard(|| {
        let mut guard_n = 0;
        while d.get_register_len() > base {
            if d.pop_register().is_err() {
                return false;
            }
            guard_n += 1;
            if guard_n > 100000 {
                return false;
            }
        }
        d.get_register_len() == base && d.get_register(base - 1) == Some(sent[1]) && d.get_register(base - 2) == Some(sent[0])
    })
    .unwrap_or(false)
}

/// failure kinds of the ordered pair (left, right) given the three observations
/// e1 = Equal(l, r), n1 = NotEqual(l, r), e2 = Equal(r, l)
fn judge(e1: &Out, n1: &Out, e2: &Out, dem: Option<bool>) -> (Vec<String>, Vec<String>) {
    let mut fwd = vec![];
    let mut bwd = vec![];
    let wrong = |got: bool, want: bool| -> String { if got && !want { "equal-for-different".into() } else { "different-for-equal".into() } };
    match e1 {
        Out::Fail(k, _) => fwd.push(k.clone()),
        Out::Bool(b) => {
            if let Some(w) = dem {
                if *b != w {
                    fwd.push(wrong(*b, w));
                }
            }
        }
    }
    match n1 {
        Out::Fail(k, _) => {
            if !matches!(e1, Out::Fail(k1, _) if k1 == k) {
                fwd.push(format!("not-equal:{}", k));
            }
        }
        Out::Bool(nb) => {
            if let Out::Bool(b) = e1 {
                if *nb == *b {
                    fwd.push("not-equal-is-not-negation".into());
                }
            }
        }
    }
    match e2 {
        Out::Fail(k, _) => bwd.push(k.clone()),
        Out::Bool(b2) => match dem {
            Some(w) => {
                if *b2 != w {
                    bwd.push(wrong(*b2, w));
                }
            }
            None => {
                if let Out::Bool(b) = e1 {
                    if b != b2 {
                        fwd.push("asymmetric".into());
                    }
                }
            }
        },
    }
    (fwd, bwd)
}

struct Obs {
    e1: Out,
    n1: Out,
    e2: Out,
}

/// One ordered pair in a fresh data object. placement 0: left built first; 1: right built first; 2: shared sub-values.
fn probe<D: Mk>(a: &V, b: &V, placement: usize, roomy: bool) -> Obs {
    let setup = guard(|| -> Result<(D, [usize; 2], usize, usize), DataError> {
        let mut d = if roomy { D::roomy() } else { D::fresh(Host::none()) };
        let sent = pad(&mut d)?;
        let (x, y) = match placement {
            0 => {
                let x = put(&mut d, a)?;
                let y = put(&mut d, b)?;
                (x, y)
            }
            1 => {
                let y = put(&mut d, b)?;
                let x = put(&mut d, a)?;
                (x, y)
            }
            _ => {
                let mut memo = HashMap::new();
                let x = put_shared(&mut d, a, &mut memo)?;
                let y = put_shared(&mut d, b, &mut memo)?;
                (x, y)
            }
        };
        Ok((d, sent, x, y))
    });
    let (mut d, sent, x, y) = match setup {
        Ok(Ok(t)) => t,
        Ok(Err(e)) => panic!("harness could not build operands {} / {}: {}", a.show(), b.show(), e),
        Err(pm) => panic!("harness could not build operands {} / {}: panic {}", a.show(), b.show(), pm),
    };
    let base = 2;
    let e1 = run_op(&mut d, x, y, false, base, &sent);
    let ok = matches!(e1, Out::Bool(_)) || repair(&mut d, base, &sent);
    if !ok {
        // rebuild for the remaining observations
        let o2 = probe_rest::<D>(a, b, placement, roomy);
        return Obs { e1, n1: o2.0, e2: o2.1 };
    }
    let n1 = run_op(&mut d, x, y, true, base, &sent);
    let ok = matches!(n1, Out::Bool(_)) || repair(&mut d, base, &sent);
    let e2 = if ok {
        run_op(&mut d, y, x, false, base, &sent)
    } else {
        probe_rest::<D>(a, b, placement, roomy).1
    };
    Obs { e1, n1, e2 }
}

/// NotEqual(a, b) and Equal(b, a), each in its own fresh data object (used after an instruction wrecked the object)
fn probe_rest<D: Mk>(a: &V, b: &V, placement: usize, roomy: bool) -> (Out, Out) {
    let one = |negated: bool, swap: bool| -> Out {
        let setup = guard(|| -> Result<(D, [usize; 2], usize, usize), DataError> {
            let mut d = if roomy { D::roomy() } else { D::fresh(Host::none()) };
            let sent = pad(&mut d)?;
            let (x, y) = if placement == 1 {
                let y = put(&mut d, b)?;
                let x = put(&mut d, a)?;
                (x, y)
            } else {
                let x = put(&mut d, a)?;
                let y = put(&mut d, b)?;
                (x, y)
            };
            Ok((d, sent, x, y))
        });
        match setup {
            Ok(Ok((mut d, sent, x, y))) => {
                if swap { run_op(&mut d, y, x, negated, 2, &sent) } else { run_op(&mut d, x, y, negated, 2, &sent) }
            }
            _ => panic!("harness could not build operands {} / {}", a.show(), b.show()),
        }
    };
    (one(true, false), one(false, true))
}

fn probe_kinds<D: Mk>(a: &V, b: &V, placement: usize) -> Vec<String> {
    let o = probe::<D>(a, b, placement, true);
    judge(&o.e1, &o.n1, &o.e2, demand(a, b)).0
}

thread_local! {
    /// (impl, left key, right key) hashed -> failure kinds of that ordered pair in a fresh data object, placement 0
    static PROBE_CACHE: RefCell<HashMap<u64, Vec<String>>> = RefCell::new(HashMap::new());
    /// coarse class of a minimal failing pair -> (times seen, witness decided by the last full analysis)
    static WITNESS_CACHE: RefCell<HashMap<String, (u64, String)>> = RefCell::new(HashMap::new());
}

/// failure kinds of the ordered pair in a fresh data object (left built first), memoised per process
fn probe_kinds_named(name: &str, a: &V, b: &V) -> Vec<String> {
    use std::hash::{Hash, Hasher};
    let mut h = std::collections::hash_map::DefaultHasher::new();
    (name, key(a), "|", key(b)).hash(&mut h);
    let hk = h.finish();
    if let Some(k) = PROBE_CACHE.with(|c| c.borrow().get(&hk).cloned()) {
        return k;
    }
    let kinds = if name == SData::NAME { probe_kinds::<SData>(a, b, 0) } else { probe_kinds::<BData>(a, b, 0) };
    PROBE_CACHE.with(|c| c.borrow_mut().insert(hk, kinds.clone()));
    kinds
}

fn other_impl(name: &str) -> &'static str {
    if name == SData::NAME { BData::NAME } else { SData::NAME }
}

// ---------------------------------------------------------------------------------------------
// reporting

fn class(v: &V) -> String {
    match v {
        V::Int(_) => "Integer".into(),
        V::Float(_) => "Float".into(),
        other => format!("{:?}", other.type_of()),
    }
}

fn components<'a>(a: &'a V, b: &'a V) -> Vec<(&'a V, &'a V)> {
    match (a, b) {
        (V::Pair(a1, a2), V::Pair(b1, b2)) => vec![(a1.as_ref(), b1.as_ref()), (a2.as_ref(), b2.as_ref())],
        (x, y) if is_seq(x) && is_seq(y) => {
            let (mut xs, mut ys) = (vec![], vec![]);
            flat_items(x, &mut xs);
            flat_items(y, &mut ys);
            xs.into_iter().zip(ys.into_iter()).collect()
        }
        _ => vec![],
    }
}

fn is_result_kind(kind: &str) -> bool {
    matches!(kind, "equal-for-different" | "different-for-equal" | "asymmetric" | "not-equal-is-not-negation")
}

/// Report failure `kind` of the ordered pair (a, b) seen on implementation `name` in `placement`.
/// The witness is made canonical: the pair is reduced to the innermost component pair that fails the same way in
/// a fresh data object, the operand classes are sorted (with a marker when only one operand order fails), and the implementation
/// name is replaced by "both" when the other implementation fails the same way. The three confirming probes of
/// the reduced pair are run for the first occurrences of each (impl, kind, operand classes) and then at
/// exponentially growing intervals, so that a tree on which millions of pairs fail is still processed quickly.
fn report(cx: &mut Ctx, name: &str, kind: &str, a: &V, b: &V, placement: usize, got: &str, element: u64) {
    // 1. descend into component pairs that fail the same way on their own
    let (mut x, mut y): (&V, &V) = (a, b);
    'outer: loop {
        for (q, r) in components(x, y) {
            if probe_kinds_named(name, q, r).iter().any(|k| k == kind) {
                x = q;
                y = r;
                continue 'outer;
            }
        }
        break;
    }
    let lens = if is_result_kind(kind) && is_seq(x) && is_seq(y) {
        let (mut xs, mut ys) = (vec![], vec![]);
        flat_items(x, &mut xs);
        flat_items(y, &mut ys);
        if xs.len() != ys.len() { "/lengths-differ" } else { "" }
    } else {
        ""
    };
    // 2. decide the witness (full analysis, or the cached decision for this coarse class)
    let coarse = format!("{}|{}|{}|{}|{}", name, kind, class(x), class(y), lens);
    let (seen, cached) = WITNESS_CACHE.with(|c| {
        let mut c = c.borrow_mut();
        let e = c.entry(coarse.clone()).or_insert((0, String::new()));
        e.0 += 1;
        (e.0, e.1.clone())
    });
    let witness = if seen <= 4 || seen.is_power_of_two() || cached.is_empty() {
        let reproduced = probe_kinds_named(name, x, y).iter().any(|k| k == kind);
        let w = if reproduced {
            let swapped_too = probe_kinds_named(name, y, x).iter().any(|k| k == kind);
            let other_too = probe_kinds_named(other_impl(name), x, y).iter().any(|k| k == kind);
            let (mut cl, mut cr) = (class(x), class(y));
            if cl > cr {
                std::mem::swap(&mut cl, &mut cr);
            }
            let ordered = if swapped_too { "" } else { "/one-operand-order-only" };
            format!("{}/{}=={}{}{}", if other_too { "both" } else { name }, cl, cr, lens, ordered)
        } else {
            format!("{}/{}=={}/only-in-context/placement-{}", name, class(x), class(y), placement)
        };
        WITNESS_CACHE.with(|c| c.borrow_mut().insert(coarse.clone(), (seen, w.clone())));
        w
    } else {
        cached
    };
    // 3. record; the detail is only built when it would be kept
    let sig = format!("{} :: {}", kind, witness);
    if let Some(old) = cx.violations.get_mut(&sig) {
        if old.idx <= cx.cur_idx {
            old.count += 1;
            return;
        }
    }
    let in_context = witness.contains("only-in-context");
    let dem = demand(x, y);
    cx.violation(
        kind,
        &witness,
        json!({
            "mode": "pair",
            "impl": name,
            "a": v_json(x),
            "b": v_json(y),
            "placement": if in_context { placement } else { 0 },
            "kind": kind,
            "first_seen_as": format!("{} == {}", a.show(), b.show()),
            "first_seen_got": got,
            "element": element,
            "in_context_only": in_context,
            "shown": format!("{}: {} == {}", name, x.show(), y.show()),
            "expected": match dem { Some(true) => "Equal -> true, NotEqual -> false, one operand fewer on the stack", Some(false) => "Equal -> false, NotEqual -> true, one operand fewer on the stack", None => "either answer (statement silent); symmetric; NotEqual its negation; one operand fewer on the stack" },
            "got": got,
        }),
    );
}

// ---------------------------------------------------------------------------------------------
// the row element: one left value x every right value, on one implementation in one placement

struct RowState<D> {
    d: D,
    sent: [usize; 2],
    a_addr: usize,
    b_addrs: Vec<usize>,
    memo: Option<Vec<usize>>,
}

fn row_setup<D: Mk>(lay: &Layout, ia: usize, placement: usize, lo: usize, hi: usize) -> RowState<D> {
    let r = guard(|| -> Result<RowState<D>, DataError> {
        let mut d = D::roomy();
        let sent = pad(&mut d)?;
        let mut memo: Option<Vec<usize>> = if placement == 2 { Some(vec![NONE; lay.nodes.len()]) } else { None };
        let mut b_addrs = vec![];
        if placement == 1 {
            for j in lo..hi {
                b_addrs.push(build_node(&mut d, lay, lay.roots[j], &mut memo)?);
            }
        }
        let a_addr = build_node(&mut d, lay, lay.roots[ia], &mut memo)?;
        Ok(RowState { d, sent, a_addr, b_addrs, memo })
    });
    match r {
        Ok(Ok(s)) => s,
        Ok(Err(e)) => panic!("harness could not build the universe in a {} data object: {}", D::NAME, e),
        Err(pm) => panic!("harness could not build the universe in a {} data object: panic {}", D::NAME, pm),
    }
}

fn run_row<D: Mk>(cx: &mut Ctx, lay: &Layout, ia: usize, placement: usize, chunk: usize, element: u64) {
    let a = &lay.vals[ia];
    let (lo, hi) = chunk_range(lay, chunk);
    let mut st: RowState<D> = row_setup(lay, ia, placement, lo, hi);
    let base = 2;
    let n = lay.vals.len();
    let mut nontrivial = 0u64;
    let mut silent = 0u64;
    let mut expected_equal = 0u64;
    let mut wrecks = 0;
    let mut executed = hi - lo;
    for j in lo..hi {
        let b = &lay.vals[j];
        // right operand
        let b_addr = if placement == 1 {
            st.b_addrs[j - lo]
        } else {
            let root = lay.roots[j];
            let RowState { d, memo, .. } = &mut st;
            match guard(|| build_node(d, lay, root, memo)) {
                Ok(Ok(x)) => x,
                Ok(Err(e)) => panic!("harness could not build {}: {}", b.show(), e),
                Err(pm) => panic!("harness could not build {}: panic {}", b.show(), pm),
            }
        };
        let dem = demand(a, b);
        let sent = st.sent;
        let mut wrecked = false;
        let e1 = run_op(&mut st.d, st.a_addr, b_addr, false, base, &sent);
        if let Out::Fail(..) = e1 {
            wrecked = !repair(&mut st.d, base, &sent);
        }
        let (n1, e2);
        if wrecked {
            let rest = probe_rest::<D>(a, b, placement.min(1), true);
            n1 = rest.0;
            e2 = rest.1;
        } else {
            n1 = run_op(&mut st.d, st.a_addr, b_addr, true, base, &sent);
            if let Out::Fail(..) = n1 {
                wrecked = !repair(&mut st.d, base, &sent);
            }
            if wrecked {
                e2 = probe_rest::<D>(a, b, placement.min(1), true).1;
            } else {
                e2 = run_op(&mut st.d, b_addr, st.a_addr, false, base, &sent);
                if let Out::Fail(..) = e2 {
                    wrecked = !repair(&mut st.d, base, &sent);
                }
            }
        }
        cx.eval();
        if is_compound(a) && is_compound(b) || (dem == Some(true) && ia != j) {
            nontrivial += 1;
        }
        match dem {
            None => silent += 1,
            Some(true) => expected_equal += 1,
            _ => {}
        }
        let (fwd, bwd) = judge(&e1, &n1, &e2, dem);
        if !fwd.is_empty() || !bwd.is_empty() {
            let got = format!("Equal(l,r) = {}; NotEqual(l,r) = {}; Equal(r,l) = {}", e1.show(), n1.show(), e2.show());
            for k in &fwd {
                report(cx, D::NAME, k, a, b, placement, &got, element);
            }
            for k in &bwd {
                report(cx, D::NAME, k, b, a, placement, &got, element);
            }
        }
        if wrecked {
            wrecks += 1;
            if wrecks > 20 {
                // the data object keeps getting destroyed (already reported above); do not spend the element's
                // time budget on rebuilding it thousands of times
                cx.count("pairs_skipped_after_repeated_wreck", (hi - j - 1) as u64);
                executed = j + 1 - lo;
                break;
            }
            st = row_setup(lay, ia, placement, lo, hi);
        }
    }
    cx.count("nontrivial", nontrivial);
    cx.count("instructions_executed", 3 * executed as u64);
    cx.count("pairs_where_statement_is_silent", silent);
    cx.count("pairs_expected_equal", expected_equal);
    cx.sample_at(997, || {
        // prefer a partner the reference calls equal although it is a different tree
        let j = (0..n).find(|j| *j != ia && demand(a, &lay.vals[*j]) == Some(true)).unwrap_or((ia * 7 + 3) % n);
        json!({"impl": D::NAME, "placement": placement, "left": a.show(), "right_example": lay.vals[j].show(), "reference": format!("{:?}", demand(a, &lay.vals[j])), "row": "left x every universe value: Equal(l,r), NotEqual(l,r), Equal(r,l)"})
    });
}

// ---------------------------------------------------------------------------------------------
// transitivity element: all triples of the sub-universe, judged on the implementation's own answers.
// Uses the implementation's default constructor (default storage settings), one data object per matrix row.

thread_local! {
    static EQ_CACHE: RefCell<HashMap<u64, Option<bool>>> = RefCell::new(HashMap::new());
}

/// Equal(a, b) in a fresh default-settings data object; None when the instruction failed. Memoised per process.
fn eq_fresh(name: &str, a: &V, b: &V) -> Option<bool> {
    use std::hash::{Hash, Hasher};
    let mut h = std::collections::hash_map::DefaultHasher::new();
    (name, key(a), "|", key(b)).hash(&mut h);
    let hk = h.finish();
    if let Some(r) = EQ_CACHE.with(|c| c.borrow().get(&hk).cloned()) {
        return r;
    }
    let o = if name == SData::NAME { probe::<SData>(a, b, 0, false).e1 } else { probe::<BData>(a, b, 0, false).e1 };
    let r = match o {
        Out::Bool(x) => Some(x),
        _ => None,
    };
    EQ_CACHE.with(|c| c.borrow_mut().insert(hk, r));
    r
}

fn intransitive(name: &str, a: &V, b: &V, c3: &V) -> bool {
    eq_fresh(name, a, b) == Some(true) && eq_fresh(name, b, c3) == Some(true) && eq_fresh(name, a, c3) == Some(false)
}

/// reduce an intransitive triple to the innermost component triple that is intransitive on its own
fn shrink_triple<'a>(name: &str, a: &'a V, b: &'a V, c3: &'a V) -> (&'a V, &'a V, &'a V) {
    let (mut x, mut y, mut z) = (a, b, c3);
    'outer: loop {
        let comps: Vec<(&V, &V, &V)> = match (x, y, z) {
            (V::Pair(x1, x2), V::Pair(y1, y2), V::Pair(z1, z2)) => vec![(x1.as_ref(), y1.as_ref(), z1.as_ref()), (x2.as_ref(), y2.as_ref(), z2.as_ref())],
            (p1, p2, p3) if is_seq(p1) && is_seq(p2) && is_seq(p3) => {
                let (mut xs, mut ys, mut zs) = (vec![], vec![], vec![]);
                flat_items(p1, &mut xs);
                flat_items(p2, &mut ys);
                flat_items(p3, &mut zs);
                if xs.len() == ys.len() && ys.len() == zs.len() { (0..xs.len()).map(|k| (xs[k], ys[k], zs[k])).collect() } else { vec![] }
            }
            _ => vec![],
        };
        for (q, r, t) in comps {
            if intransitive(name, q, r, t) {
                x = q;
                y = r;
                z = t;
                continue 'outer;
            }
        }
        break;
    }
    (x, y, z)
}

fn triple_witness(scope: &str, a: &V, b: &V, c3: &V) -> String {
    let mut cl = vec![class(a), class(b), class(c3)];
    cl.sort();
    cl.dedup();
    format!("{}/{}", scope, cl.join("~"))
}

/// Equal(vals[x], vals[y]) for every y, in one fresh data object with the implementation's default settings
fn trans_row<D: Mk>(vals: &[&V], x: usize) -> Vec<Out> {
    let n = vals.len();
    let setup = guard(|| -> Result<(D, [usize; 2], Vec<usize>), DataError> {
        let mut d = D::fresh(Host::none());
        let sent = pad(&mut d)?;
        let mut addrs = vec![];
        for v in vals {
            addrs.push(put(&mut d, v)?);
        }
        Ok((d, sent, addrs))
    });
    let (mut d, sent, addrs) = match setup {
        Ok(Ok(t)) => t,
        Ok(Err(e)) => panic!("harness could not build the transitivity universe: {}", e),
        Err(pm) => panic!("harness could not build the transitivity universe: panic {}", pm),
    };
    let mut row = Vec::with_capacity(n);
    for y in 0..n {
        let o = run_op(&mut d, addrs[x], addrs[y], false, 2, &sent);
        if let Out::Fail(..) = o {
            if !repair(&mut d, 2, &sent) {
                // finish the row with single probes
                row.push(o);
                for y2 in y + 1..n {
                    row.push(probe::<D>(vals[x], vals[y2], 0, false).e1);
                }
                break;
            }
        }
        row.push(o);
    }
    row
}

thread_local! {
    /// rows of the Equal-result matrix of the transitivity sub-universe, per (tier, implementation, x), memoised per process
    static TRANS_CACHE: RefCell<HashMap<(bool, usize, usize), std::rc::Rc<Vec<Out>>>> = RefCell::new(HashMap::new());
}

fn trans_row_cached(tier: Tier, lay: &Layout, which: usize, x: usize) -> std::rc::Rc<Vec<Out>> {
    let k = (tier == Tier::Quick, which, x);
    if let Some(m) = TRANS_CACHE.with(|c| c.borrow().get(&k).cloned()) {
        return m;
    }
    let vals: Vec<&V> = lay.trans.iter().map(|k| &lay.vals[*k]).collect();
    let m = std::rc::Rc::new(if which == 0 { trans_row::<SData>(&vals, x) } else { trans_row::<BData>(&vals, x) });
    TRANS_CACHE.with(|c| c.borrow_mut().insert(k, m.clone()));
    m
}

/// element (implementation, x): every triple (x, y, z) of the sub-universe, judged on the implementation's own answers
fn run_trans(cx: &mut Ctx, tier: Tier, lay: &Layout, which: usize, x: usize, element: u64) {
    let name = if which == 0 { SData::NAME } else { BData::NAME };
    let vals: Vec<&V> = lay.trans.iter().map(|k| &lay.vals[*k]).collect();
    let n = vals.len();
    let rx = trans_row_cached(tier, lay, which, x);
    let mut chained = 0u64;
    cx.eval();
    // reflexive on two separately built copies
    if rx[x] == Out::Bool(false) {
        report(cx, name, "different-for-equal", vals[x], vals[x], 0, "Equal(v, v) = false", element);
    }
    for y in 0..n {
        if let Out::Fail(k, msg) = &rx[y] {
            report(cx, name, k, vals[x], vals[y], 0, msg, element);
        }
        if rx[y] != Out::Bool(true) {
            // first premise false: all triples (x, y, *) hold vacuously
            continue;
        }
        let ry = trans_row_cached(tier, lay, which, y);
        for z in 0..n {
            if ry[z] == Out::Bool(true) {
                chained += 1;
                if rx[z] == Out::Bool(false) {
                    let (ta, tb, tc) = shrink_triple(name, vals[x], vals[y], vals[z]);
                    let scope = if intransitive(other_impl(name), ta, tb, tc) { "both" } else { name };
                    cx.violation(
                        "intransitive",
                        &triple_witness(scope, ta, tb, tc),
                        json!({"mode": "triple", "impl": name, "a": v_json(ta), "b": v_json(tb), "c": v_json(tc), "element": element,
                               "first_seen_as": format!("{} ~ {} ~ {}", vals[x].show(), vals[y].show(), vals[z].show()),
                               "shown": format!("{}: {} == {} and {} == {} but not {} == {}", name, ta.show(), tb.show(), tb.show(), tc.show(), ta.show(), tc.show()),
                               "expected": "a == b and b == c imply a == c", "got": "Equal(a,b) = true, Equal(b,c) = true, Equal(a,c) = false"}),
                    );
                }
            }
        }
    }
    cx.count("triples_checked", (n * n) as u64);
    cx.count("triples_with_both_premises_true", chained);
    cx.count("nontrivial", chained);
    cx.count("instructions_executed", n as u64);
    if x == 0 {
        cx.sample(json!({"impl": name, "transitivity_sub_universe": n, "members_example": vals.iter().take(8).map(|v| v.show()).collect::<Vec<_>>() }));
    }
}

// ---------------------------------------------------------------------------------------------

/// right-operand chunks per row: keeps every element at a few milliseconds of CPU
const CHUNK: usize = 1024;

fn chunk_count(lay: &Layout) -> usize {
    lay.vals.len().div_ceil(CHUNK).max(1)
}

fn chunk_range(lay: &Layout, chunk: usize) -> (usize, usize) {
    let (n, c) = (lay.vals.len(), chunk_count(lay));
    (chunk * n / c, (chunk + 1) * n / c)
}

struct Loc {
    seg: &'static str,
    ia: usize,
    placement: usize,
    which: usize,
    chunk: usize,
}

fn locate(lay: &Layout, idx: u64) -> Loc {
    let n = lay.vals.len() as u64;
    let c = chunk_count(lay) as u64;
    let rows = 6 * c * n;
    if idx < rows {
        // (implementation, placement, chunk)-major so that every shard (idx % 16) gets the same mix
        let group = idx / n;
        let ia = (idx % n) as usize;
        let combo = group / c;
        Loc { seg: "row", ia, placement: (combo / 2) as usize, which: (combo % 2) as usize, chunk: (group % c) as usize }
    } else {
        let t = lay.trans.len() as u64;
        let k = idx - rows;
        Loc { seg: "trans", ia: (k % t) as usize, placement: 0, which: (k / t) as usize, chunk: 0 }
    }
}

impl Property for C11 {
    fn id(&self) -> &'static str {
        "C11"
    }
    fn level(&self) -> &'static str {
        "exploration"
    }
    fn size(&self, tier: Tier) -> u64 {
        let lay = layout(tier);
        6 * chunk_count(lay) as u64 * lay.vals.len() as u64 + 2 * lay.trans.len() as u64
    }
    fn budget_ms(&self) -> u64 {
        // elements take ~10 ms of CPU; the budget only has to stay below the supervisor's 6 s confirmation budget
        5500
    }
    fn describe(&self, tier: Tier, idx: u64) -> String {
        let lay = layout(tier);
        let loc = locate(lay, idx);
        let name = if loc.which == 0 { SData::NAME } else { BData::NAME };
        match loc.seg {
            "row" => {
                let (lo, hi) = chunk_range(lay, loc.chunk);
                format!("row {}/placement-{}/#{} {} == <universe values {}..{}>", name, loc.placement, loc.ia, lay.vals[loc.ia].show(), lo, hi)
            }
            _ => format!("transitivity {} #{} {} ~ <every pair of the {}-value sub-universe>", name, loc.ia, lay.vals[lay.trans[loc.ia]].show(), lay.trans.len()),
        }
    }
    fn run(&self, tier: Tier, idx: u64, cx: &mut Ctx) {
        let lay = layout(tier);
        let loc = locate(lay, idx);
        match (loc.seg, loc.which) {
            ("row", 0) => run_row::<SData>(cx, lay, loc.ia, loc.placement, loc.chunk, idx),
            ("row", _) => run_row::<BData>(cx, lay, loc.ia, loc.placement, loc.chunk, idx),
            _ => run_trans(cx, tier, lay, loc.which, loc.ia, idx),
        }
    }
    fn replay(&self, d: &Value, cx: &mut Ctx) {
        let name = d["impl"].as_str().unwrap_or("simple").to_string();
        let element = d["element"].as_u64().unwrap_or(0);
        match d["mode"].as_str().unwrap_or("") {
            "pair" => {
                let (a, b) = match (v_from_json(&d["a"]), v_from_json(&d["b"])) {
                    (Some(a), Some(b)) => (a, b),
                    _ => return,
                };
                let placement = d["placement"].as_u64().unwrap_or(0) as usize;
                let kind = d["kind"].as_str().unwrap_or("").to_string();
                cx.eval();
                let o = if name == SData::NAME { probe::<SData>(&a, &b, placement, true) } else { probe::<BData>(&a, &b, placement, true) };
                let (fwd, _) = judge(&o.e1, &o.n1, &o.e2, demand(&a, &b));
                let got = format!("Equal(l,r) = {}; NotEqual(l,r) = {}; Equal(r,l) = {}", o.e1.show(), o.n1.show(), o.e2.show());
                let mut any = false;
                for k in &fwd {
                    if kind.is_empty() || *k == kind {
                        any = true;
                        report(cx, &name, k, &a, &b, placement, &got, element);
                    }
                }
                if !any && cx.violations.is_empty() && d["element"].as_u64().is_some() {
                    // context-dependent failure: re-run the whole element it was seen in
                    if element < self.size(cx.tier) {
                        self.run(cx.tier, element, cx);
                    }
                }
            }
            "triple" => {
                let (a, b, c3) = match (v_from_json(&d["a"]), v_from_json(&d["b"]), v_from_json(&d["c"])) {
                    (Some(a), Some(b), Some(c3)) => (a, b, c3),
                    _ => return,
                };
                cx.eval();
                if intransitive(&name, &a, &b, &c3) {
                    let scope = if intransitive(other_impl(&name), &a, &b, &c3) { "both" } else { name.as_str() };
                    cx.violation(
                        "intransitive",
                        &triple_witness(scope, &a, &b, &c3),
                        json!({"mode": "triple", "impl": name, "a": v_json(&a), "b": v_json(&b), "c": v_json(&c3), "element": element,
                               "shown": format!("{}: {} == {} and {} == {} but not {} == {}", name, a.show(), b.show(), b.show(), c3.show(), a.show(), c3.show()),
                               "expected": "a == b and b == c imply a == c", "got": "Equal(a,b) = true, Equal(b,c) = true, Equal(a,c) = false"}),
                    );
                }
            }
            _ => {}
        }
    }
    fn meta(&self, tier: Tier) -> Meta {
        let lay = layout(tier);
        let n = lay.vals.len();
        Meta {
            rule: format!(
                "universe of {n} value trees: 31 atoms (unit, booleans, integers 0 1 -1, floats 0.0 1.0 1.5, chars, bytes, symbols, 3 symbol lists, texts \"\" \"a\" \"b\" \"ab\" \"ba\", byte lists [] [1] [2] [1,2], 2 types, 2 externals) closed under pair / list of width 0..2 / concatenation over {} atoms, again over {} depth-0/1 values (depth 2), width-3 lists over {} values, and once more over {} depth-2 values (depth 3), plus near-miss mutants of every compound value ({} positions: one leaf changed, one item appended, list<->concatenation of the same items, char/byte<->one-element text/byte list, integer<->equal float). All {n}x{n} ordered pairs x 3 placements (left built first / right built first / identical sub-values shared by address, the pair (v,v) then being one address) x 2 data implementations, each as Equal(l,r), NotEqual(l,r), Equal(r,l) with two unrelated operands below on the operand stack of a data object that already holds unrelated values; plus all triples of a {}-value sub-universe per implementation (default storage settings). A case (ordered pair in a placement on an implementation) is non-trivial when both operands are compound (pair/list/concatenation, so the operand-stack worklist is used) or the reference says equal for two different universe members; for the transitivity elements a non-trivial case is a triple whose two premises hold.",
                if tier == Tier::Quick { 6 } else { 9 },
                if tier == Tier::Quick { 10 } else { 16 },
                if tier == Tier::Quick { 3 } else { 4 },
                if tier == Tier::Quick { 4 } else { 7 },
                if tier == Tier::Quick { "first and/or last" } else { "all leaf and list/concatenation positions, first and last of the other" },
                lay.trans.len()
            ),
            assumptions: vec![
                "reference: integers and floats numerically (i32 -> f64 is exact); text, byte lists, symbol lists element-wise; a char equals the one-char text of it and a byte the one-byte byte list of it; pairs component-wise; a list is the sequence of its items, a concatenation the sequence obtained by flattening nested concatenations and splicing list operands one level (the language's iteration); list and concatenation with the same item sequence are equal; values of different kinds are different".into(),
                "where a more permissive reading of the statement (every list / concatenation / text / byte list / symbol list taken as its fully flattened element stream, a single char/byte/symbol equal to any sequence consisting of just it) disagrees with the reference, the statement is treated as silent: either answer is accepted, but symmetry, negation, Ok and stack cleanliness are still demanded (e.g. [[1,2],3] vs [1,2,3], \"ab\" vs 'a' <> 'b', chr(a) vs [chr(a)], [\"\"] vs [])".into(),
                "NaN and -0.0 are excluded (numeric comparison and structural identity disagree there); ranges, slices, partials, expressions and custom values are outside the property's quantifier".into(),
                "\"leaves nothing behind\": after the instruction the register stack is exactly one shorter than before it, the top is a boolean, and the two unrelated operands below are unchanged".into(),
                "rows use a Basic data object whose data block grows geometrically (hook verif-hooks); the default storage settings are used by the transitivity elements; every shrink/confirm probe uses a fresh object".into(),
            ],
            trusted_base: vec![
                "engine/src/props/c11.rs strict_eq / loose_eq / flat_items (reference equality)".into(),
                "engine/src/val.rs put / put_list (construction through the public add-interface)".into(),
            ],
            explanation: "bounded-exhaustive enumeration of all ordered pairs (and triples of a sub-universe) of a generated value universe against a reference structural equality".into(),
        }
    }
}
