//! C07 - executing a built program never panics the host.
//! (a) every accepted program of the C01 corpora under three hosts on both data implementations;
//! (b) boundary programs: every operator x boundary literals in both positions, slice / cast / index families;
//! (c) deeply nested data built through the API, then single instructions on it.
//! Verdict: no unwind out of a step, no abort (stack overflow), no hang within the step cap.

use crate::ast::print;
use crate::fw::{guard, panic_kind, Ctx, Meta, Property, Tier};
use crate::props::c01::{locate, spaces};
use crate::props::pipeline::{show, shrink_text};
use crate::subj::{compile, run_to_end, start, BData, DeferMode, Fail, HVal, Host, SData, Subject};
use crate::val::{put, V};
use garnish_lang_runtime::ops;
use garnish_lang_traits::{GarnishData, GarnishDataType};
use serde_json::{json, Value};

pub struct C07;

pub fn hosts() -> Vec<(&'static str, Host)> {
    let mut declining = Host::with_resolve(&[]);
    declining.defer = DeferMode::Decline;
    let mut accepting = Host::with_resolve(&[("a", HVal::Int(3)), ("f", HVal::External(1))]);
    accepting.defer = DeferMode::Accept;
    accepting.apply_accept = true;
    vec![("none", Host::none()), ("declining", declining), ("accepting", accepting)]
}

const LITS: [&str; 31] = [
    "0",
    "1",
    "31",
    "32",
    "33",
    "64",
    "2147483647",
    "(-- 2147483647 - 1)",
    "(-- 1)",
    "1.5",
    "(-- 1.5)",
    "1.0e308",
    "0.0",
    "\"\"",
    "\"é\"",
    "\"a😀\"",
    "''",
    "'a'",
    ":s",
    ":hé",
    "é_x",
    "()",
    "(1 2)",
    "(:k = 1,)",
    "(1 .. 3)",
    "(1 <> 2)",
    "(1 'ab')",
    "(\"a\" 'b' :s (2 3))",
    "((1 = 'a') <> \"b\")",
    // an empty list and an empty text made at run time
    "(\"\" ~# (# (1 2)))",
    "(() ~# (# \"a\"))",
];

const BINOPS: [&str; 36] = [
    "+", "-", "*", "/", "//", "%", "**", "&", "|", "^", "<<", ">>", "<", "<=", ">", ">=", "==", "!=", "#=", "&&", "||", "^^", "=", ".", "<~", "~>", "..", ">..", "..<", ">..<", "<>", "~#", "~", ",", "?>",
    "!>",
];
const PREOPS: [&str; 8] = ["++", "--", "!", "!!", "??", "#", "_.", "^~"];
const SUFOPS: [&str; 3] = ["~~", "._", ".|"];
const CONTAINERS: [&str; 6] = ["(10 20 30)", "\"héllo\"", "'abc'", "((1 2) <> (3 4))", "(:a :b :c)", "(1 .. 9)"];
const IDX: [&str; 10] = ["0", "1", "2", "5", "(-- 1)", "2147483647", "(-- 2147483647 - 1)", "1.5", "1.0e300", "(-- 1.0e300)"];
const SLICE_OPS: [&str; 12] = [" .|", " ._", " . 0", " . 1", " . (-- 1)", " == (10 20 30)", " == \"héllo\"", " < \"hex\"", " ~# (# (1 2))", " ~# (# \"\")", " ~# (# '')", " ~# (# :s)"];

/// boundary program texts, deterministic order
pub fn boundary_programs() -> &'static Vec<String> {
    static P: std::sync::OnceLock<Vec<String>> = std::sync::OnceLock::new();
    P.get_or_init(make_boundary_programs)
}

fn make_boundary_programs() -> Vec<String> {
    let mut v = vec![];
    for a in LITS {
        for p in PREOPS {
            v.push(format!("{} {}", p, a));
        }
        for s in SUFOPS {
            v.push(format!("{} {}", a, s));
        }
        for b2 in LITS {
            for o in BINOPS {
                v.push(format!("{} {} {}", a, o, b2));
            }
            // cast to the type of the other literal
            v.push(format!("{} ~# (# {})", a, b2));
        }
    }
    // a list sized from a range with a huge bound (slice of a concatenation cast to a list)
    for lo in ["..", ">..", "..<", ">..<"] {
        for start in ["0", "1", "1.0e300"] {
            v.push(format!("(((1 2) <> (3 4)) <~ ({} {} 1.0e300)) ~# (# (1 2))", start, lo));
        }
    }
    for c in CONTAINERS {
        for i in IDX {
            v.push(format!("{} . {}", c, i));
            v.push(format!("{} <~ {}", c, i));
            // range bounds stay small: a slice over two billion items is legitimately expensive, not a defect
            if i.contains("2147483647") {
                continue;
            }
            for j in IDX {
                if j.contains("2147483647") {
                    continue;
                }
                // a huge float bound: the slice itself is cheap (clamped to the container), consumers that walk the
                // range (casts to list / text) are in the legitimately-expensive class, the others are run
                if i.contains("e300") || j.contains("e300") {
                    for lo in ["..", ">..", "..<", ">..<"] {
                        let slice = format!("({} <~ ({} {} {}))", c, i, lo, j);
                        for op in [" .|", " . 0", " == (10 20 30)", " == \"héllo\"", " == 'abc'", " != (:a :b :c)", " < \"hex\""] {
                            v.push(format!("{}{}", slice, op));
                        }
                    }
                    continue;
                }
                for (lo, hi) in [("..", ""), (">..", ""), ("..<", ""), (">..<", "")] {
                    let _ = hi;
                    let slice = format!("({} <~ ({} {} {}))", c, i, lo, j);
                    for op in SLICE_OPS {
                        v.push(format!("{}{}", slice, op));
                    }
                    // slice of a slice
                    v.push(format!("({} <~ (0 .. 1)) .|", slice));
                    // the slice as an operand of a concatenation / an item of a list, then consumed by something that
                    // walks the whole value
                    for wrapped in [format!("({} <> 4)", slice), format!("(4 <> {})", slice), format!("({} <> {})", slice, slice), format!("({} 4)", slice)] {
                        for op in [" == (4 <> 5)", " .|", " . 0", " . 5", " ~# (# (1 2))", " ~# (# \"\")", " < (4 <> 5)"] {
                            v.push(format!("{}{}", wrapped, op));
                        }
                        v.push(format!("({} <~ (1 .. 7)) == (4 <> 5)", wrapped));
                    }
                }
            }
        }
    }
    v
}

#[derive(Clone, Copy, Debug)]
pub enum Shape {
    PairLeft,
    PairRight,
    List,
    Concat,
}
const SHAPES: [Shape; 4] = [Shape::PairLeft, Shape::PairRight, Shape::List, Shape::Concat];
const DEPTHS: [usize; 5] = [10, 100, 1000, 5000, 50000];
const DEEP_OPS: [&str; 8] = ["equal-self", "equal-copy", "cast-charlist", "cast-bytelist", "cast-symbol", "length", "clone", "compare"];

fn build_deep<D: Subject>(d: &mut D, shape: Shape, depth: usize) -> Result<usize, String> {
    let mut cur = d.add_number(1.into()).map_err(|e| format!("{}", e))?;
    for i in 0..depth {
        let leaf = d.add_number(((i % 7) as i32).into()).map_err(|e| format!("{}", e))?;
        cur = match shape {
            Shape::PairLeft => d.add_pair((cur, leaf)),
            Shape::PairRight => d.add_pair((leaf, cur)),
            Shape::List => crate::val::put_list(d, &[leaf, cur]),
            Shape::Concat => d.add_concatenation(cur, leaf),
        }
        .map_err(|e| format!("{}", e))?;
    }
    Ok(cur)
}

trait CloneData {
    fn clone_value(&mut self, addr: usize) -> Result<(), String>;
}
impl CloneData for SData {
    fn clone_value(&mut self, _addr: usize) -> Result<(), String> {
        Ok(())
    }
}
impl CloneData for BData {
    fn clone_value(&mut self, addr: usize) -> Result<(), String> {
        self.clone_data(addr).map(|_| ()).map_err(|e| format!("{}", e))
    }
}

fn deep_case<D: Subject + CloneData>(shape: Shape, depth: usize, op: &str) -> Result<(), String> {
    // Err(String) = panic message; operation errors (Err values) are fine
    guard(|| {
        let mut d = D::fresh_growing(Host::none());
        let a = match build_deep(&mut d, shape, depth) {
            Ok(a) => a,
            Err(_) => return,
        };
        match op {
            "equal-self" => {
                let _ = d.push_register(a);
                let _ = d.push_register(a);
                let _ = ops::equal(&mut d);
            }
            "equal-copy" => {
                if let Ok(b2) = build_deep(&mut d, shape, depth) {
                    let _ = d.push_register(a);
                    let _ = d.push_register(b2);
                    let _ = ops::equal(&mut d);
                }
            }
            "compare" => {
                let _ = d.push_register(a);
                let _ = d.push_register(a);
                let _ = ops::less_than(&mut d);
            }
            "cast-charlist" | "cast-bytelist" | "cast-symbol" => {
                let t = match op {
                    "cast-charlist" => GarnishDataType::CharList,
                    "cast-bytelist" => GarnishDataType::ByteList,
                    _ => GarnishDataType::Symbol,
                };
                if let Ok(ta) = d.add_type(t) {
                    let _ = d.push_register(a);
                    let _ = d.push_register(ta);
                    let _ = ops::type_cast(&mut d);
                }
            }
            "length" => {
                let _ = d.push_register(a);
                let _ = ops::access_length_internal(&mut d);
            }
            "clone" => {
                let _ = d.clone_value(a);
            }
            _ => {}
        }
    })
}

fn run_text_on<D: Subject>(src: &str, host: &Host, input: &V) -> Option<String> {
    // Some(kind) iff a panic escaped (compile-stage panics belong to C03 but are reported as well: the host dies either way)
    let mut d = D::fresh(host.clone());
    let r = (|| -> Result<(), Fail> {
        let (_, bd) = compile(src, &mut d)?;
        start(&mut d, *bd.jump_index(), input)?;
        run_to_end(&mut d, STEP_CAP.with(|c| c.get()))?;
        Ok(())
    })();
    match r {
        Err(Fail::Panic(stage, m)) => Some(format!("panic-{}[{}]", stage, panic_kind(&m))),
        _ => None,
    }
}

fn text_kind(src: &str, which: usize, hi: usize) -> Option<String> {
    let hs = hosts();
    let input = V::List(vec![V::pair(V::sym("a"), V::Int(1)), V::Int(7)]);
    if which == 0 { run_text_on::<SData>(src, &hs[hi].1, &input) } else { run_text_on::<BData>(src, &hs[hi].1, &input) }
}

thread_local! {
    /// step cap of the current element: 2 000 for generated programs (they terminate), 300 for token-corpus inputs,
    /// among which are loops that never end and grow their value on every pass
    static STEP_CAP: std::cell::Cell<usize> = std::cell::Cell::new(2_000);
    static SEEN: std::cell::RefCell<std::collections::HashSet<String>> = std::cell::RefCell::new(std::collections::HashSet::new());
}

fn check_text(cx: &mut Ctx, src: &str) {
    check_text_hosts(cx, src, &[0, 1, 2])
}

/// `his`: indexes into hosts() (0 none, 1 declining, 2 accepting)
fn check_text_hosts(cx: &mut Ctx, src: &str, his: &[usize]) {
    for which in 0..2 {
        for hi in his.iter().cloned() {
            cx.eval();
            if let Some(kind) = text_kind(src, which, hi) {
                // the panic site (message @ file:line) identifies the defect; the program is shrunk once per
                // worker and kind, later occurrences are only counted
                let key = format!("{}|{}", kind, which);
                let first = SEEN.with(|s| s.borrow_mut().insert(key));
                let w = if first && src.len() <= 80 {
                    let classify = |s: &str| text_kind(s, which, hi);
                    shrink_text(src, &classify, &kind)
                } else {
                    src.to_string()
                };
                cx.violation(&kind, ["simple", "basic"][which], json!({"mode": "text", "impl": which, "host": hi, "src": w, "first_seen": src}));
            }
        }
    }
}

struct Layout {
    programs: u64,
    boundary: u64,
    deep: u64,
}

fn layout(tier: Tier) -> Layout {
    let s = spaces(tier);
    Layout { programs: s.total(), boundary: boundary_programs().len() as u64, deep: (SHAPES.len() * DEPTHS.len() * DEEP_OPS.len() * 2) as u64 }
}

/// token-corpus inputs executed: everything before the K4 length-6 tier in the quick tier, up to length 6 in the thorough tier
fn token_total(tier: Tier) -> u64 {
    tier.pick(crate::props::pipeline::total_before_len6(tier), crate::props::pipeline::total_before(tier, "k4-len7"))
}

fn deep_params(i: u64) -> (usize, Shape, usize, &'static str) {
    let i = i as usize;
    let which = i % 2;
    let i = i / 2;
    let op = DEEP_OPS[i % DEEP_OPS.len()];
    let i = i / DEEP_OPS.len();
    let depth = DEPTHS[i % DEPTHS.len()];
    let shape = SHAPES[i / DEPTHS.len()];
    (which, shape, depth, op)
}

impl Property for C07 {
    fn id(&self) -> &'static str {
        "C07"
    }
    fn level(&self) -> &'static str {
        "exploration"
    }
    fn size(&self, tier: Tier) -> u64 {
        let l = layout(tier);
        l.deep + l.boundary + l.programs + token_total(tier)
    }
    fn budget_ms(&self) -> u64 {
        // the 50 000-level deep-data cases take seconds on an idle machine and much longer on a loaded one
        60_000
    }
    fn crash_is_violation(&self) -> bool {
        true
    }
    fn describe(&self, tier: Tier, idx: u64) -> String {
        let l = layout(tier);
        if idx < l.deep {
            let (w, s, d, o) = deep_params(idx);
            format!("deep {} {:?} depth {} {}", ["simple", "basic"][w], s, d, o)
        } else if idx < l.deep + l.boundary {
            boundary_programs()[(idx - l.deep) as usize].clone()
        } else if idx < l.deep + l.boundary + l.programs {
            let (c, i) = locate(tier, idx - l.deep - l.boundary);
            print(&c.program(i)).unwrap_or_default()
        } else {
            crate::props::pipeline::item_text(&crate::props::pipeline::item(tier, false, idx - l.deep - l.boundary - l.programs))
        }
    }
    fn crash_signature(&self, tier: Tier, idx: u64, kind: &str) -> (String, String, Value) {
        let l = layout(tier);
        if idx < l.deep {
            let (w, s, _d, o) = deep_params(idx);
            (format!("{}[stack overflow or non-termination]", kind), format!("{} | deep {:?} | {}", ["simple", "basic"][w], s, o), json!({"mode": "deep", "idx": idx}))
        } else {
            let d = self.describe(tier, idx);
            (format!("{}-while-running", kind), show(&d).chars().take(100).collect(), json!({"mode": "crash", "idx": idx, "src": d}))
        }
    }
    fn run(&self, tier: Tier, idx: u64, cx: &mut Ctx) {
        let l = layout(tier);
        if idx < l.deep {
            let (w, s, d, o) = deep_params(idx);
            cx.eval();
            // the case runs on a thread with the default stack size of spawned threads (2 MiB): unbounded recursion
            // over nested data shows as a stack overflow there, which aborts the worker and is attributed by the supervisor
            let r = std::thread::Builder::new()
                .stack_size(2 << 20)
                .spawn(move || if w == 0 { deep_case::<SData>(s, d, o) } else { deep_case::<BData>(s, d, o) })
                .map(|h| h.join().unwrap_or_else(|_| Err("deep-case thread panicked".into())))
                .unwrap_or_else(|e| Err(format!("cannot spawn: {}", e)));
            if let Err(p) = r {
                cx.violation(&format!("panic-deep[{}]", panic_kind(&p)), &format!("{} | deep {:?} | {}", ["simple", "basic"][w], s, o), json!({"mode": "deep", "idx": idx, "depth": d}));
            }
            cx.nontrivial(("deep", idx));
            cx.sample(json!({"deep": format!("{:?} depth {} {}", s, d, o)}));
            return;
        }
        if idx < l.deep + l.boundary {
            let src = boundary_programs()[(idx - l.deep) as usize].clone();
            check_text(cx, &src);
            cx.nontrivial(&src);
            cx.count("boundary_programs", 1);
            cx.sample_at(7919, || json!({"boundary": src}));
            return;
        }
        if idx >= l.deep + l.boundary + l.programs {
            // accepted inputs of the C03/C04 token corpora
            let it = crate::props::pipeline::item(tier, false, idx - l.deep - l.boundary - l.programs);
            if let crate::props::pipeline::Item::Text(..) = it {
                let src = crate::props::pipeline::item_text(&it);
                let mut d = SData::fresh(Host::none());
                match compile(&src, &mut d) {
                    Ok((pr, _)) if !pr.get_nodes().is_empty() => {
                        STEP_CAP.with(|c| c.set(300));
                        check_text(cx, &src);
                        STEP_CAP.with(|c| c.set(2_000));
                        cx.nontrivial(&src);
                        cx.count("token_inputs_run", 1);
                    }
                    _ => cx.count("token_inputs_not_accepted", 1),
                }
            }
            return;
        }
        let (c, i) = locate(tier, idx - l.deep - l.boundary);
        if let Some(src) = print(&c.program(i)) {
            // the reapply-loop corpus T4 holds no identifier and no undefined operation: hosts are never called there;
            // the quick tier runs the other corpora without a host and with the accepting one, the thorough tier with all three
            let his: &[usize] = if c.name == "T4" { &[0] } else if tier == Tier::Quick && c.name != "T1" { &[0, 2] } else { &[0, 1, 2] };
            check_text_hosts(cx, &src, his);
            cx.nontrivial((c.name, i));
            cx.count("corpus_programs", 1);
            cx.sample_at(200_003, || json!({"program": src}));
        }
    }
    fn replay(&self, d: &Value, cx: &mut Ctx) {
        match d["mode"].as_str() {
            Some("text") => {
                let src = d["src"].as_str().unwrap_or("");
                let which = d["impl"].as_u64().unwrap_or(0) as usize;
                let hi = (d["host"].as_u64().unwrap_or(0) as usize).min(2);
                if let Some(kind) = text_kind(src, which, hi) {
                    cx.violation(&kind, ["simple", "basic"][which.min(1)], json!({"mode": "text", "impl": which, "host": hi, "src": src}));
                }
            }
            Some("deep") => {
                let (w, s, dp, o) = deep_params(d["idx"].as_u64().unwrap_or(0));
                let r = if w == 0 { deep_case::<SData>(s, dp, o) } else { deep_case::<BData>(s, dp, o) };
                if let Err(p) = r {
                    cx.violation(&format!("panic-deep[{}]", panic_kind(&p)), &format!("{} | deep {:?} | {}", ["simple", "basic"][w], s, o), json!({"mode": "deep", "idx": d["idx"]}));
                }
            }
            _ => {}
        }
    }
    fn meta(&self, tier: Tier) -> Meta {
        let l = layout(tier);
        Meta {
            rule: format!("(a) the {} programs of the C01 corpora and every accepted input of the C03/C04 token corpora (K1, K2, K4, K5; lengths up to 5 in the quick tier, up to length 6 in the thorough tier); (b) {} boundary programs: every prefix/suffix operator on, and every binary operator (ranges, casts, concatenation, partial apply, conditionals included) between, 31 boundary literals (i32 limits, 31/32/33/64, huge float, empty and multi-byte text, empty bytes, symbol, symbol and identifier with a multi-byte name, unit, list, keyed list, range, concatenation, lists and concatenations holding text, bytes, symbols and lists, an empty list and an empty text made by casts), casts to the type of each literal, and index / apply / slice / slice-of-slice families over 6 container kinds x 10 boundary indexes (incl. +-1e300); each run to completion (step cap 2 000; 300 for token-corpus inputs, which include loops that never end) on both implementations under hosts {{none, declining, accepting}} (corpus programs: none and accepting in the quick tier, T4 loops without a host) with a mixed keyed/unkeyed list as input; (c) {} deep-data cases: pairs (left/right nested), lists and concatenations nested 10/100/1 000/5 000/50 000 deep built through the data API, each on a thread with a 2 MiB stack (the default of spawned threads), then Equal (self, copy), LessThan, casts to CharList/ByteList/Symbol, `.|`, clone_data as single instructions. Verdict: no panic unwinds, no abort, no hang (supervised). Non-trivial: every case; distinct by text / parameters.", l.programs, l.boundary, l.deep),
            assumptions: vec![
                "an Err returned by a step is acceptable; only unwinding, aborting and exceeding the wall budget are violations".into(),
                "a worker that aborts (stack overflow) or hangs is attributed to the in-flight element by the supervisor and confirmed in a fresh process".into(),
            ],
            trusted_base: vec!["fw guard/watchdog/supervisor".into()],
            explanation: "bounded-exhaustive execution of programs and boundary operand combinations under a supervising watchdog".into(),
        }
    }
}
