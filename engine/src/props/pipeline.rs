//! Shared enumeration for C03 (totality), C04 (every token accounted for) and C05 (well-formed instruction
//! streams): token-class sequences, raw character strings, scaling families and the C01 program corpus, each
//! pushed through lex -> parse -> build on both data implementations.

use crate::ast::print;
use crate::fw::{guard, panic_kind, Ctx, Meta, Property, Tier};
use crate::props::c01::spaces;
use crate::subj::{build_g, lex_g, parse_g, BData, Fail, Host, SData, Subject};
use crate::val::{put, V};
use garnish_lang_compiler::build::BuildData;
use garnish_lang_compiler::lex::{LexerToken, TokenType};
use garnish_lang_compiler::parse::{Definition, ParseResult};
use garnish_lang_traits::{GarnishData, GarnishDataType, Instruction};
use serde_json::{json, Value};
use std::time::Instant;

pub const CLASSES: [(&str, &str); 32] = [
    ("num", "5"),
    ("ident", "a"),
    ("sym", ":s"),
    ("str", "\"t\""),
    ("val", "$"),
    ("unit", "()"),
    ("prefix", "--"),
    ("reapply", "^~"),
    ("suffix", "~~"),
    ("bin", "+"),
    ("pair", "="),
    ("comma", ","),
    ("cond", "?>"),
    ("else", "|>"),
    ("apply", "<~"),
    ("and", "&&"),
    ("dot", "."),
    ("lpar", "("),
    ("rpar", ")"),
    ("lbrace", "{"),
    ("rbrace", "}"),
    ("lbrack", "["),
    ("rbrack", "]"),
    ("blank", "\n\n"),
    ("nl", "\n"),
    ("semi", ";"),
    ("term", ";;"),
    ("prefixid", "f`"),
    ("suffixid", "`f"),
    ("infixid", "`f`"),
    ("annot", "@a"),
    ("lineannot", "@@x\n"),
];

/// the 17-class core used for length-4 sequences in the quick tier
pub const CORE: [usize; 17] = [0, 1, 4, 6, 7, 8, 9, 11, 12, 13, 17, 18, 19, 20, 21, 22, 23];

/// reduced alphabets for longer sequences (small-scope tiers): brackets of all three kinds, side-effect blocks, one
/// prefix / suffix / infix operator, the comma and the blank-line separator - the tokens whose handling in the parser
/// carries state from one token to the next (group stack, pending side-effect block, optional right operand)
pub const DEEP10: [usize; 10] = [0, 6, 8, 9, 11, 17, 18, 21, 22, 23];
pub const DEEP8: [usize; 8] = [0, 6, 9, 11, 17, 18, 21, 22];
pub const DEEP12: [usize; 12] = [0, 6, 8, 9, 11, 17, 18, 19, 20, 21, 22, 23];
/// K5: the tokens that make the builder emit jumps - conditionals, else, && - with a prefix and an infix operator,
/// groups and nested expressions
pub const JUMP10: [usize; 10] = [0, 6, 9, 12, 13, 15, 17, 18, 19, 20];
/// K6: length 7 (thorough: 8) without spaces: number, prefix, suffix and infix operator, parentheses, side-effect
/// brackets, blank line
pub const TIGHT9: [usize; 9] = [0, 6, 8, 9, 17, 18, 21, 22, 23];
/// one token per class the parser distinguishes (value, prefix, suffix, left-to-right, right-to-left and optional
/// binary operator, the three bracket kinds, blank line), without spaces
pub const TIGHT13: [usize; 13] = [0, 6, 8, 9, 10, 11, 17, 18, 19, 20, 21, 22, 23];

/// K8: escape sequences in quoted literals at the boundaries of what they can denote
pub fn escape_texts() -> &'static Vec<String> {
    static T: std::sync::OnceLock<Vec<String>> = std::sync::OnceLock::new();
    T.get_or_init(make_escape_texts)
}

fn make_escape_texts() -> Vec<String> {
    let mut v = vec![];
    let codes = ["", "0", "41", "7F", "80", "7FF", "800", "D7FF", "D800", "DBFF", "DC00", "DFFF", "E000", "FFFF", "10000", "10FFFF", "110000", "FFFFFF", "FFFFFFFF", "100000000", "G", "-1", " 41", "41 "];
    for q in ["\"", "'", "\"\"\"", "\'\'\'"] {
        for c in codes {
            v.push(format!("{}\\u{{{}}}{}", q, c, q));
            v.push(format!("{}a\\u{{{}}}b{}", q, c, q));
        }
        for e in ["\\", "\\\\", "\\n", "\\t", "\\r", "\\0", "\\q", "\\u", "\\u{", "\\u}", "\\u{41", "\\x41", "\\\"", "\\'"] {
            v.push(format!("{}{}{}", q, e, q));
            v.push(format!("{}{}a{}", q, e, q));
        }
    }
    for n in ["''300''", "''-1''", "''256''", "''255 0''", "''1.5''", "''0x''", "''016_ff''", "''99999999999''", "'' ''", "''a''"] {
        v.push(n.to_string());
    }
    // jump-heavy programs: long chains of logical operators, else-chains and nested expressions (more jump-table
    // entries than instructions early in the build), with short and long constants
    for n in 2..=9usize {
        for (op, atom) in [("&&", "1"), ("||", "a"), ("&&", "\"abcdefgh\""), ("||", ":sym")] {
            let items: Vec<String> = (0..n).map(|k| if k % 2 == 0 { atom.to_string() } else { format!("{}", k) }).collect();
            v.push(items.join(&format!(" {} ", op)));
            v.push(format!("a {} {}", op, items.join(&format!(" {} ", op))));
        }
        let arms: Vec<String> = (0..n).map(|k| format!("c{} ?> \"value number {}\"", k, k)).collect();
        v.push(format!("{} |> 0", arms.join(" |> ")));
        v.push((0..n).map(|k| format!("{{ {} + $ }}", k)).collect::<Vec<_>>().join(" "));
        v.push((0..n).map(|k| format!(":k{} = {{ $ && {} }}", k, k)).collect::<Vec<_>>().join(", "));
    }
    // names with multi-byte characters (byte length differs from character count) in every position a name can take
    for t in ["é", ":é", "5 + é", "é + 5", "é.é", "é é", "é €uro", ":é = é", "\"é\" é", "é`5", "5`é", "5`é`5", "{ é } <~ é", "é ?> é |> é", "é && é", "aé", ":aé€b", "é1 é2"] {
        v.push(t.to_string());
    }
    for n in ["99999999999", "1e400", "1.0e400", "0.0e0", "036_zz", "037_1", "01_1", "02_2", "0_", "1_", "1__2", "1.2.3", "1..2", ".5", "5.", "1e", "1e+", "0b1", "0x1f"] {
        v.push(n.to_string());
    }
    v
}


pub const ALPHABET: [&str; 43] = [
    "1", "a", "_", ":", ".", " ", "\t", "\n", "\r", "\"", "'", "\\", "@", "`", "$", "?", "!", "~", "<", ">", "=", "+", "-", "|", "&", "^", "#", "%", "*", "/", "(", ")", "{",
    "}", "[", "]", ",", ";", "é", "§", "😀", "\u{c}", "\0",
];

#[derive(Clone, Debug)]
pub enum Item {
    /// source text + description
    Text(String, String),
    /// scaling family: name, unit text, repetitions, prefix, suffix
    Scale(String, usize),
    /// program of the C01 corpus (accepted by construction)
    Program(String),
}

struct Seg {
    name: &'static str,
    count: u64,
}

fn pow(b: u64, e: u32) -> u64 {
    b.pow(e)
}

fn segs(tier: Tier, with_programs: bool) -> &'static Vec<Seg> {
    // computed once per (tier, with_programs): this is called for every element
    static CACHE: [std::sync::OnceLock<Vec<Seg>>; 4] = [std::sync::OnceLock::new(), std::sync::OnceLock::new(), std::sync::OnceLock::new(), std::sync::OnceLock::new()];
    let slot = (if tier == Tier::Quick { 0 } else { 2 }) + if with_programs { 1 } else { 0 };
    CACHE[slot].get_or_init(|| make_segs(tier, with_programs))
}

fn make_segs(tier: Tier, with_programs: bool) -> Vec<Seg> {
    let n = CLASSES.len() as u64;
    let a = ALPHABET.len() as u64;
    let mut v = vec![
        Seg { name: "k1-len1", count: n },
        Seg { name: "k1-len2", count: n * n * 2 },
        Seg { name: "k1-len3", count: n * n * n * 4 },
        Seg { name: "k1-len4", count: tier.pick(pow(17, 4) * 8, pow(n, 4) * 8) },
        Seg { name: "k2-len1", count: a },
        Seg { name: "k2-len2", count: a * a },
        Seg { name: "k2-len3", count: a * a * a },
        Seg { name: "k2-len4", count: tier.pick(0, a * a * a * a) },
        Seg { name: "k3-scale", count: (families().len() * SCALES.len()) as u64 },
        Seg { name: "k4-len5", count: tier.pick(pow(10, 5) * 16, pow(12, 5) * 16) },
        Seg { name: "k5-len5", count: pow(10, 5) * 16 },
        Seg { name: "k5-len6", count: tier.pick(0, pow(10, 6) * 32) },
        Seg { name: "k4-len6", count: tier.pick(pow(8, 6) * 32, pow(10, 6) * 32) },
        Seg { name: "k4-len7", count: tier.pick(0, pow(8, 7) * 64) },
        Seg { name: "k8-escapes", count: escape_texts().len() as u64 },
        Seg { name: "k6-len6-tight", count: pow(13, 6) },
        Seg { name: "k6-len7-tight", count: tier.pick(pow(9, 7), pow(13, 7)) },
        Seg { name: "k6-len8-tight", count: tier.pick(0, pow(9, 8)) },
    ];
    if with_programs {
        let s = spaces(tier);
        v.push(Seg { name: "programs", count: s.total() });
    }
    v
}

pub const SCALES: [usize; 5] = [64, 128, 256, 512, 1024];

/// (name, prefix, repeated unit, suffix)
pub fn families() -> Vec<(&'static str, &'static str, &'static str, &'static str)> {
    vec![
        ("add-chain", "1", " + 1", ""),
        ("space-list", "1", " 1", ""),
        ("comma-list", "1", ", 1", ""),
        ("pair-chain", "1", " = 1", ""),
        ("access-chain", "a", ".a", ""),
        ("prefix-run", "", "--", "1"),
        ("suffix-run", "f", "~~", ""),
        ("open-parens", "", "(", "1"),
        ("nested-parens", "", "(", "1*"), // closes added below
        ("nested-braces", "", "{", "1*"),
        ("nested-brackets", "1 ", "[", "1*"),
        ("else-chain", "", "c ?> v |> ", "d"),
        ("and-chain", "a", " && a", ""),
        ("blank-lines", "1", "\n\n1", ""),
        ("blank-run", "1", "\n\n", "1"),
        ("semi-chain", "1", " ; 1", ""),
        ("annotation-run", "1", " @a", ""),
        ("line-annotations", "", "@@ x\n", "1"),
        ("long-identifier", "", "a", ""),
        ("long-number", "", "1", ""),
        ("long-string", "\"", "a", "\""),
        ("long-bytes", "'", "a", "'"),
        ("quotes", "", "\"", ""),
        ("apply-chain", "f", " <~ 1", ""),
        ("applyto-chain", "1", " ~> f", ""),
        ("cond-nest", "", "c ?> ", "v"),
        ("mixed-ops", "1", " + 1 * 1", ""),
        ("unclosed-braces", "", "{", ""),
        ("close-parens", "", ")", ""),
        ("operators-only", "", "+", ""),
        ("terminators", "1", " ;;", ""),
        ("infix-apply", "1", " `f` 1", ""),
        ("prefix-apply", "", "f` ", "1"),
        ("suffix-apply", "1", " `f", ""),
        ("reapply-run", "", "^~ ", "1"),
        ("symbols", ":a", " :a", ""),
        ("dots", "1", ".", ""),
        ("spaces", "1", " ", "1"),
        ("tabs-newlines", "1", "\t\n", "1"),
        ("multibyte", "\"", "é😀", "\""),
    ]
}

fn scale_text(fi: usize, n: usize) -> String {
    let (_, pre, unit, suf) = families()[fi];
    let mut s = String::from(pre);
    for _ in 0..n {
        s.push_str(unit);
    }
    if let Some(body) = suf.strip_suffix('*') {
        s.push_str(body);
        let close = match unit {
            "(" => ")",
            "{" => "}",
            "[" => "]",
            _ => "",
        };
        for _ in 0..n {
            s.push_str(close);
        }
    } else {
        s.push_str(suf);
    }
    s
}

fn k1_text(len: u32, mut i: u64, alphabet: &[usize]) -> (String, String) {
    let n = alphabet.len() as u64;
    let joins = i % (1u64 << (len - 1));
    i /= 1u64 << (len - 1);
    let mut cls = vec![];
    for _ in 0..len {
        cls.push(alphabet[(i % n) as usize]);
        i /= n;
    }
    cls.reverse();
    let mut text = String::new();
    let mut desc = String::new();
    for (k, c) in cls.iter().enumerate() {
        if k > 0 {
            if (joins >> (k - 1)) & 1 == 1 {
                text.push(' ');
                desc.push(' ');
            } else {
                desc.push('+');
            }
        }
        text.push_str(CLASSES[*c].1);
        desc.push_str(CLASSES[*c].0);
    }
    (text, desc)
}

fn k2_text(len: u32, mut i: u64) -> String {
    let n = ALPHABET.len() as u64;
    let mut cs = vec![];
    for _ in 0..len {
        cs.push(ALPHABET[(i % n) as usize]);
        i /= n;
    }
    cs.reverse();
    cs.concat()
}

/// number of leading items (all segments before the K4 length-6 tier); used by checks that execute the accepted
/// inputs and keep the longest tier for their thorough run
pub fn total_before_len6(tier: Tier) -> u64 {
    total_before(tier, "k4-len6")
}

/// number of leading items up to (not including) the named segment
pub fn total_before(tier: Tier, name: &str) -> u64 {
    segs(tier, false).iter().take_while(|s| s.name != name).map(|s| s.count).sum()
}

pub fn total(tier: Tier, with_programs: bool) -> u64 {
    segs(tier, with_programs).iter().map(|s| s.count).sum()
}

pub fn item(tier: Tier, with_programs: bool, mut idx: u64) -> Item {
    let all: Vec<usize> = (0..CLASSES.len()).collect();
    for s in segs(tier, with_programs) {
        if idx >= s.count {
            idx -= s.count;
            continue;
        }
        return match s.name {
            "k1-len1" => {
                let (t, d) = k1_text(1, idx, &all);
                Item::Text(t, d)
            }
            "k1-len2" => {
                let (t, d) = k1_text(2, idx, &all);
                Item::Text(t, d)
            }
            "k1-len3" => {
                let (t, d) = k1_text(3, idx, &all);
                Item::Text(t, d)
            }
            "k1-len4" => {
                let (t, d) = if tier == Tier::Quick { k1_text(4, idx, &CORE) } else { k1_text(4, idx, &all) };
                Item::Text(t, d)
            }
            "k4-len5" => {
                let (t, d) = if tier == Tier::Quick { k1_text(5, idx, &DEEP10) } else { k1_text(5, idx, &DEEP12) };
                Item::Text(t, d)
            }
            "k5-len5" => {
                let (t, d) = k1_text(5, idx, &JUMP10);
                Item::Text(t, d)
            }
            "k5-len6" => {
                let (t, d) = k1_text(6, idx, &JUMP10);
                Item::Text(t, d)
            }
            "k8-escapes" => Item::Text(escape_texts()[idx as usize].clone(), "escapes".into()),
            "k6-len6-tight" => {
                let (t, d) = k1_text(6, idx << 5, &TIGHT13);
                Item::Text(t, d)
            }
            "k6-len7-tight" => {
                // joins = 0: the index is multiplied by 2^6 so that k1_text reads "no space anywhere"
                let (t, d) = if tier == Tier::Quick { k1_text(7, idx << 6, &TIGHT9) } else { k1_text(7, idx << 6, &TIGHT13) };
                Item::Text(t, d)
            }
            "k6-len8-tight" => {
                let (t, d) = k1_text(8, idx << 7, &TIGHT9);
                Item::Text(t, d)
            }
            "k4-len6" => {
                let (t, d) = if tier == Tier::Quick { k1_text(6, idx, &DEEP8) } else { k1_text(6, idx, &DEEP10) };
                Item::Text(t, d)
            }
            "k4-len7" => {
                let (t, d) = k1_text(7, idx, &DEEP8);
                Item::Text(t, d)
            }
            "k2-len1" => Item::Text(k2_text(1, idx), "chars".into()),
            "k2-len2" => Item::Text(k2_text(2, idx), "chars".into()),
            "k2-len3" => Item::Text(k2_text(3, idx), "chars".into()),
            "k2-len4" => Item::Text(k2_text(4, idx), "chars".into()),
            "k3-scale" => {
                let fi = idx as usize / SCALES.len();
                let n = SCALES[idx as usize % SCALES.len()];
                Item::Scale(format!("{}x{}", families()[fi].0, n), fi * 10000 + n)
            }
            _ => {
                let (c, i) = crate::props::c01::locate(tier, idx);
                Item::Program(print(&c.program(i)).unwrap_or_default())
            }
        };
    }
    Item::Text(String::new(), "none".into())
}

pub fn item_text(it: &Item) -> String {
    match it {
        Item::Text(t, _) => t.clone(),
        Item::Scale(_, code) => scale_text(code / 10000, code % 10000),
        Item::Program(s) => s.clone(),
    }
}

// ---------------------------------------------------------------------------------------------
// structural checker (C04)

#[derive(Debug, Clone, PartialEq)]
pub struct Malformed(pub String);

/// Shape of the child relation followed from the root - what `build`, which follows child links only, will meet.
#[derive(Clone, Copy, PartialEq, Debug)]
pub enum ChildWalk {
    /// every node reached once: build terminates whatever the parent links say
    Tree,
    /// a node is reached twice but there is no cycle: build terminates (and emits that part twice)
    Shared,
    /// a child link leads back to an ancestor: build never terminates
    Cyclic,
}

pub fn child_walk(pr: &ParseResult) -> ChildWalk {
    let nodes = pr.get_nodes();
    let n = nodes.len();
    if n == 0 || pr.get_root() >= n {
        return ChildWalk::Tree;
    }
    // iterative depth-first search with colours: 0 = unseen, 1 = on the current path, 2 = finished
    let mut colour = vec![0u8; n];
    let mut shared = false;
    let mut stack: Vec<(usize, u8)> = vec![(pr.get_root(), 0)];
    while let Some((i, phase)) = stack.pop() {
        if phase == 1 {
            colour[i] = 2;
            continue;
        }
        match colour[i] {
            1 => return ChildWalk::Cyclic,
            2 => {
                shared = true;
                continue;
            }
            _ => {}
        }
        colour[i] = 1;
        stack.push((i, 1));
        for c in [nodes[i].get_left(), nodes[i].get_right()].into_iter().flatten() {
            if c < n {
                stack.push((c, 0));
            }
        }
    }
    if shared { ChildWalk::Shared } else { ChildWalk::Tree }
}

/// tree shape: links agree, no sharing, no cycle, every node reachable from the root exactly once
pub fn check_tree(pr: &ParseResult) -> Result<Vec<usize>, Malformed> {
    let nodes = pr.get_nodes();
    if nodes.is_empty() {
        return Ok(vec![]);
    }
    let n = nodes.len();
    let root = pr.get_root();
    if root >= n {
        return Err(Malformed("root-out-of-range".into()));
    }
    if nodes[root].get_parent().is_some() {
        return Err(Malformed("root-has-parent".into()));
    }
    for (i, nd) in nodes.iter().enumerate() {
        for (side, c) in [("left", nd.get_left()), ("right", nd.get_right())] {
            if let Some(c) = c {
                if c >= n {
                    return Err(Malformed(format!("dangling-{}-child", side)));
                }
                if nodes[c].get_parent() != Some(i) {
                    return Err(Malformed(format!("{}-child-parent-link-disagrees", side)));
                }
                if c == i {
                    return Err(Malformed("self-child".into()));
                }
            }
        }
        if let (Some(l), Some(r)) = (nd.get_left(), nd.get_right()) {
            if l == r {
                return Err(Malformed("same-node-is-both-children".into()));
            }
        }
        if let Some(p) = nd.get_parent() {
            if p >= n {
                return Err(Malformed("dangling-parent".into()));
            }
            if nodes[p].get_left() != Some(i) && nodes[p].get_right() != Some(i) {
                return Err(Malformed("parent-does-not-list-child".into()));
            }
        }
    }
    // in-order walk with an explicit stack, detecting revisits
    let mut seen = vec![false; n];
    let mut order = vec![];
    let mut stack: Vec<(usize, bool)> = vec![(root, false)];
    while let Some((i, expanded)) = stack.pop() {
        if expanded {
            order.push(i);
            continue;
        }
        if seen[i] {
            return Err(Malformed("node-shared-or-on-cycle".into()));
        }
        seen[i] = true;
        if let Some(r) = nodes[i].get_right() {
            stack.push((r, false));
        }
        stack.push((i, true));
        if let Some(l) = nodes[i].get_left() {
            stack.push((l, false));
        }
        if order.len() + stack.len() > 4 * n + 8 {
            return Err(Malformed("walk-does-not-terminate".into()));
        }
    }
    for (i, s) in seen.iter().enumerate() {
        if !*s {
            // a separator the parser dropped as redundant may stay behind in the node array, fully detached
            let nd = &nodes[i];
            let detached = nd.get_parent().is_none() && nd.get_left().is_none() && nd.get_right().is_none();
            let redundant = is_significant(nd.get_lex_token().get_token_type()) == Some(false);
            if !(detached && redundant) {
                return Err(Malformed("node-unreachable-from-root".into()));
            }
        }
    }
    Ok(order)
}

fn is_significant(t: TokenType) -> Option<bool> {
    // Some(true) = must appear exactly once, Some(false) = may be dropped (redundant separator), None = never a node
    match t {
        TokenType::Whitespace | TokenType::Annotation | TokenType::LineAnnotation | TokenType::EndGroup | TokenType::EndExpression | TokenType::EndSideEffect => None,
        TokenType::Subexpression | TokenType::ExpressionSeparator => Some(false),
        _ => Some(true),
    }
}

/// the in-order walk lists exactly the significant tokens in source order
pub fn check_tokens(pr: &ParseResult, tokens: &[LexerToken], order: &[usize]) -> Result<(), Malformed> {
    let nodes = pr.get_nodes();
    let walk: Vec<(usize, usize, String)> = order
        .iter()
        .filter(|i| nodes[**i].get_definition() != Definition::List)
        .map(|i| {
            let t = nodes[*i].get_lex_token();
            (t.get_line(), t.get_column(), t.get_text().clone())
        })
        .collect();
    let mut wi = 0;
    for t in tokens {
        let sig = match is_significant(t.get_token_type()) {
            None => continue,
            Some(s) => s,
        };
        let here = (t.get_line(), t.get_column(), t.get_text().clone());
        if wi < walk.len() && walk[wi] == here {
            wi += 1;
        } else if sig {
            // either missing or out of order
            let later = walk[wi.min(walk.len())..].iter().any(|w| *w == here);
            let earlier = walk[..wi.min(walk.len())].iter().any(|w| *w == here);
            return Err(Malformed(if later || earlier { "tokens-out-of-source-order".into() } else { format!("token-lost[{:?}]", t.get_token_type()) }));
        }
    }
    if wi != walk.len() {
        return Err(Malformed("node-without-token-or-duplicated".into()));
    }
    Ok(())
}

fn needs_instruction(d: Definition) -> bool {
    !matches!(d, Definition::Group | Definition::ElseJump | Definition::Drop)
}

/// every value and operator node is attributed at least one instruction
pub fn check_attribution<D: GarnishData>(pr: &ParseResult, bd: &BuildData<D>) -> Result<(), Malformed> {
    let nodes = pr.get_nodes();
    let mut hit = vec![false; nodes.len()];
    for m in bd.instruction_metadata() {
        if let Some(i) = m.get_parse_node_index() {
            if i < hit.len() {
                hit[i] = true;
            }
        }
    }
    for (i, nd) in nodes.iter().enumerate() {
        let d = nd.get_definition();
        if !needs_instruction(d) || hit[i] {
            continue;
        }
        // a dropped redundant separator left behind fully detached is not part of the tree
        if i != pr.get_root() && nd.get_parent().is_none() && nd.get_left().is_none() && nd.get_right().is_none() && is_significant(nd.get_lex_token().get_token_type()) == Some(false) {
            continue;
        }
        if d == Definition::List || d == Definition::CommaList {
            // inner node of a flattened list chain
            if let Some(p) = nd.get_parent() {
                if nodes[p].get_definition() == d {
                    continue;
                }
            }
        }
        let class = if d.is_value_like() { "value".to_string() } else { format!("{:?}", d) };
        return Err(Malformed(format!("no-instruction-for[{}]", class)));
    }
    Ok(())
}

// ---------------------------------------------------------------------------------------------
// instruction stream checker (C05)

#[derive(Clone, Copy, PartialEq)]
enum Operand {
    None,
    DataAny,
    DataSymbol,
    Jump,
    Count,
}

fn operand_kind(i: Instruction) -> Operand {
    use Instruction::*;
    match i {
        Put => Operand::DataAny,
        Resolve => Operand::DataSymbol,
        JumpTo | JumpIfTrue | JumpIfFalse | And | Or | Reapply => Operand::Jump,
        MakeList => Operand::Count,
        _ => Operand::None,
    }
}

pub struct Before {
    pub instr: usize,
    pub jumps: usize,
    pub data: usize,
}

pub fn snapshot<D: GarnishData<Size = usize>>(d: &D) -> Before {
    Before { instr: d.get_instruction_len(), jumps: d.get_jump_table_len(), data: d.get_data_len() }
}

pub fn check_stream<D: Subject>(d: &D, before: &Before, bd: &BuildData<D>, node_count: usize) -> Result<(), Malformed> {
    let n = d.get_instruction_len();
    let jl = d.get_jump_table_len();
    let dl = d.get_data_len();
    let emitted = n - before.instr;
    if bd.instruction_metadata().len() != emitted {
        return Err(Malformed("metadata-count-differs-from-instructions".into()));
    }
    for m in bd.instruction_metadata() {
        if let Some(i) = m.get_parse_node_index() {
            if i >= node_count {
                return Err(Malformed("metadata-names-missing-node".into()));
            }
        }
    }
    let own_jump = |j: usize| j >= before.jumps && j < jl;
    // entry
    if !(own_jump(*bd.jump_index()) || (node_count == 0 && emitted == 1)) {
        return Err(Malformed("entry-jump-index-not-own".into()));
    }
    let mut leaders: Vec<usize> = vec![];
    for j in before.jumps..jl {
        match d.get_from_jump_table(j) {
            Some(t) => {
                if t < before.instr || t >= n {
                    return Err(Malformed(if t == 0 && before.instr > 0 { "unpatched-jump-placeholder".into() } else { "jump-entry-outside-own-instructions".into() }));
                }
                leaders.push(t);
            }
            None => return Err(Malformed("jump-entry-unreadable".into())),
        }
    }
    for pc in before.instr..n {
        let (ins, arg) = match d.get_instruction(pc) {
            Some(x) => x,
            None => return Err(Malformed("instruction-unreadable".into())),
        };
        match (operand_kind(ins), arg) {
            (Operand::None, None) => {}
            (Operand::None, Some(_)) => return Err(Malformed(format!("unexpected-operand[{:?}]", ins))),
            (_, None) => return Err(Malformed(format!("missing-operand[{:?}]", ins))),
            (Operand::DataAny, Some(a)) => {
                if a >= dl {
                    return Err(Malformed("data-operand-out-of-range".into()));
                }
                match d.get_data_type(a) {
                    Ok(GarnishDataType::Invalid) | Err(_) => return Err(Malformed("data-operand-not-a-value".into())),
                    Ok(GarnishDataType::Expression) => {
                        let j = d.get_expression(a).map_err(|_| Malformed("expression-unreadable".into()))?;
                        if !own_jump(j) {
                            return Err(Malformed("expression-value-names-foreign-jump-entry".into()));
                        }
                    }
                    Ok(_) => {}
                }
            }
            (Operand::DataSymbol, Some(a)) => {
                if a >= dl {
                    return Err(Malformed("data-operand-out-of-range".into()));
                }
                if d.get_data_type(a).ok() != Some(GarnishDataType::Symbol) {
                    return Err(Malformed("resolve-operand-not-a-symbol".into()));
                }
            }
            (Operand::Jump, Some(j)) => {
                if !own_jump(j) {
                    return Err(Malformed(format!("jump-operand-not-own-entry[{:?}]", ins)));
                }
            }
            (Operand::Count, Some(_)) => {}
        }
    }
    // every straight-line run ends in EndExpression or JumpTo: the instruction before a block leader, and the last one
    let is_term = |pc: usize| matches!(d.get_instruction(pc), Some((Instruction::EndExpression, _)) | Some((Instruction::JumpTo, _)));
    if emitted > 0 && !is_term(n - 1) {
        return Err(Malformed("last-instruction-not-a-terminator".into()));
    }
    leaders.sort();
    leaders.dedup();
    // A run starts at a *block entry*: the build's entry point, the target of a conditional jump (JumpIfTrue,
    // JumpIfFalse, And, Or - the out-of-line arm / right operand) and the body of a nested expression (an
    // Expression value). The instruction before a block entry must be a terminator, otherwise the previous run
    // falls through into it. A jump entry that is only the operand of JumpTo is a join point inside a run (reached
    // by falling through as well) and is not a run start.
    let mut block_entries: Vec<(usize, &'static str)> = vec![];
    if own_jump(*bd.jump_index()) {
        block_entries.push((*bd.jump_index(), "entry"));
    }
    for pc in before.instr..n {
        if let Some((ins, Some(j))) = d.get_instruction(pc) {
            if matches!(ins, Instruction::JumpIfTrue | Instruction::JumpIfFalse | Instruction::And | Instruction::Or) && own_jump(j) {
                block_entries.push((j, "branch"));
            }
        }
    }
    for a in before.data..dl {
        if d.get_data_type(a).ok() == Some(GarnishDataType::Expression) {
            if let Ok(j) = d.get_expression(a) {
                if own_jump(j) {
                    block_entries.push((j, "expression"));
                }
            }
        }
    }
    for (j, what) in block_entries {
        if let Some(t) = d.get_from_jump_table(j) {
            if t > before.instr && t < n && !is_term(t - 1) {
                return Err(Malformed(format!("run-falls-through-into-{}-block", what)));
            }
        }
    }
    Ok(())
}

// ---------------------------------------------------------------------------------------------
// running one item

pub struct Outcome {
    pub stage_fail: Option<Fail>,       // first Err/panic in lex/parse/build(simple)/build(basic) - panics are C03
    pub c04: Option<Malformed>,
    pub cyclic: bool,                   // the child relation from the root has a cycle: build was not run
    pub c05: Option<(String, Malformed)>,
    pub accepted: bool,
    pub ms: f64,
}

fn preload<D: Subject>(d: &mut D) {
    for _ in 0..7 {
        let _ = d.push_instruction(Instruction::Invalid, None);
    }
    for k in 0..3 {
        let _ = d.push_to_jump_table(k);
    }
    for k in 0..5 {
        let _ = put(d, &V::Int(1000 + k));
    }
}

fn build_and_check<D: Subject>(pr: &ParseResult, pre: bool, o: &mut Outcome, want_c05: bool) -> Result<(), Fail> {
    build_and_check_in::<D>(pr, pre, false, o, want_c05)
}

fn build_and_check_in<D: Subject>(pr: &ParseResult, pre: bool, tight: bool, o: &mut Outcome, want_c05: bool) -> Result<(), Fail> {
    let mut d = if tight { D::fresh_tight(Host::none()) } else { D::fresh(Host::none()) };
    if pre {
        preload(&mut d);
    }
    let before = snapshot(&d);
    let bd = build_g(pr, &mut d)?;
    if o.c04.is_none() && !pre {
        if let Err(m) = check_attribution(pr, &bd) {
            o.c04 = Some(m);
        }
    }
    if want_c05 && o.c05.is_none() {
        match guard(|| check_stream(&d, &before, &bd, pr.get_nodes().len())) {
            Ok(Ok(())) => {}
            Ok(Err(m)) => o.c05 = Some((format!("{}{}{}", D::NAME, if pre { "+preloaded" } else { "" }, if tight { "+tight-storage" } else { "" }), m)),
            Err(p) => o.c05 = Some((D::NAME.to_string(), Malformed(format!("checker-panic[{}]", p)))),
        }
    }
    Ok(())
}

pub fn run_text(text: &str, want_c05: bool) -> Outcome {
    let t0 = Instant::now();
    let mut o = Outcome { stage_fail: None, c04: None, cyclic: false, c05: None, accepted: false, ms: 0.0 };
    let r = (|| -> Result<(), Fail> {
        let toks = lex_g(text)?;
        let pr = parse_g(&toks)?;
        // structure first: a malformed tree is never handed to build (it may not terminate)
        match check_tree(&pr) {
            Err(m) => {
                o.c04 = Some(m);
                // a result whose child relation is cyclic is never handed to build (it would not return; C03 reports
                // it); one with orphan nodes, disagreeing parent links, shared or out-of-range children is built under
                // the panic guard to see what build makes of it
                if child_walk(&pr) == ChildWalk::Cyclic {
                    o.cyclic = true;
                    return Ok(());
                }
            }
            Ok(order) => {
                if let Err(m) = check_tokens(&pr, &toks, &order) {
                    o.c04 = Some(m);
                }
            }
        }
        build_and_check::<SData>(&pr, false, &mut o, want_c05)?;
        build_and_check::<BData>(&pr, false, &mut o, want_c05)?;
        if want_c05 {
            build_and_check::<SData>(&pr, true, &mut o, want_c05)?;
            build_and_check::<BData>(&pr, true, &mut o, want_c05)?;
            // BasicGarnishData whose blocks have different tiny sizes and grow cell by cell (heap re-laid out on every push)
            build_and_check_in::<BData>(&pr, true, true, &mut o, want_c05)?;
        }
        o.accepted = true;
        Ok(())
    })();
    if let Err(f) = r {
        o.stage_fail = Some(f);
    }
    o.ms = t0.elapsed().as_secs_f64() * 1000.0;
    o
}

fn canonical_token(t: &LexerToken) -> Option<&'static str> {
    match t.get_token_type() {
        TokenType::Number | TokenType::Identifier | TokenType::Symbol | TokenType::CharList | TokenType::ByteList | TokenType::UnitLiteral | TokenType::Value | TokenType::True | TokenType::False => Some("1"),
        TokenType::Whitespace => Some(" "),
        TokenType::Subexpression => Some("\n\n"),
        TokenType::Annotation | TokenType::LineAnnotation => Some("@a"),
        _ => None,
    }
}

/// token-level reduction (delete a token / replace a token by the canonical token of its class) followed by the
/// character-level one; keeps the same failure kind
pub fn shrink_text(text: &str, classify: &dyn Fn(&str) -> Option<String>, kind: &str) -> String {
    let mut cur_text = text.to_string();
    let mut budget = 600;
    'tok: loop {
        let toks = match lex_g(&cur_text) {
            Ok(t) => t,
            Err(_) => break,
        };
        let texts: Vec<String> = toks.iter().map(|t| t.get_text().clone()).collect();
        if texts.concat() != cur_text {
            break; // lossy lexing: fall back to characters
        }
        for i in 0..toks.len() {
            if budget == 0 {
                break 'tok;
            }
            budget -= 1;
            let mut cand = texts.clone();
            cand.remove(i);
            let s = cand.concat();
            if classify(&s).as_deref() == Some(kind) {
                cur_text = s;
                continue 'tok;
            }
        }
        // a contiguous run of tokens at once (an operand with its operator, a bracketed operand); short inputs only
        if toks.len() <= 12 {
            for len in 2..toks.len() {
                for i in 0..=(toks.len() - len) {
                    if budget == 0 {
                        break 'tok;
                    }
                    budget -= 1;
                    let mut cand = texts.clone();
                    cand.drain(i..i + len);
                    let s = cand.concat();
                    if classify(&s).as_deref() == Some(kind) {
                        cur_text = s;
                        continue 'tok;
                    }
                }
            }
        }
        // a contiguous run of tokens replaced by the canonical atom (`{}` -> `1`, `(1+1)` -> `1`)
        if toks.len() <= 12 {
            for len in 2..=toks.len() {
                for i in 0..=(toks.len() - len) {
                    if budget == 0 {
                        break 'tok;
                    }
                    budget -= 1;
                    let mut cand = texts.clone();
                    cand.drain(i..i + len);
                    cand.insert(i, "1".to_string());
                    let s = cand.concat();
                    if s.len() < cur_text.len() && classify(&s).as_deref() == Some(kind) {
                        cur_text = s;
                        continue 'tok;
                    }
                }
            }
        }
        // two tokens at once (a bracket pair, an operator with its operand); short inputs only
        if toks.len() <= 12 {
            for i in 0..toks.len() {
                for j in (i + 1)..toks.len() {
                    if budget == 0 {
                        break 'tok;
                    }
                    budget -= 1;
                    let mut cand = texts.clone();
                    cand.remove(j);
                    cand.remove(i);
                    let s = cand.concat();
                    if classify(&s).as_deref() == Some(kind) {
                        cur_text = s;
                        continue 'tok;
                    }
                }
            }
        }
        // an operator replaced by the canonical binary operator
        for i in 0..toks.len() {
            let t = toks[i].get_token_type();
            let is_plain = canonical_token(&toks[i]).is_some()
                || matches!(t, TokenType::StartGroup | TokenType::EndGroup | TokenType::StartExpression | TokenType::EndExpression | TokenType::StartSideEffect | TokenType::EndSideEffect | TokenType::PlusSign);
            if !is_plain {
                if budget == 0 {
                    break 'tok;
                }
                budget -= 1;
                let mut cand = texts.clone();
                cand[i] = "+".to_string();
                let s = cand.concat();
                if s != cur_text && classify(&s).as_deref() == Some(kind) {
                    cur_text = s;
                    continue 'tok;
                }
            }
        }
        for i in 0..toks.len() {
            if let Some(c) = canonical_token(&toks[i]) {
                if texts[i] != c {
                    if budget == 0 {
                        break 'tok;
                    }
                    budget -= 1;
                    let mut cand = texts.clone();
                    cand[i] = c.to_string();
                    let s = cand.concat();
                    if classify(&s).as_deref() == Some(kind) {
                        cur_text = s;
                        continue 'tok;
                    }
                }
            }
        }
        break;
    }
    let mut cur: Vec<char> = cur_text.chars().collect();
    let mut budget = 300;
    'outer: loop {
        for i in 0..cur.len() {
            if budget == 0 {
                break 'outer;
            }
            budget -= 1;
            let mut cand = cur.clone();
            cand.remove(i);
            let s: String = cand.iter().collect();
            if classify(&s).as_deref() == Some(kind) {
                cur = cand;
                continue 'outer;
            }
        }
        break;
    }
    cur.iter().collect()
}

pub fn show(s: &str) -> String {
    s.replace('\n', "\\n").replace('\t', "\\t").replace('\r', "\\r")
}

// ---------------------------------------------------------------------------------------------
// C03

pub struct C03;

fn c03_kind(text: &str) -> Option<String> {
    c03_kind_o(&run_text(text, false))
}

fn c03_kind_o(o: &Outcome) -> Option<String> {
    match (&o.stage_fail, &o.c04) {
        (Some(Fail::Panic(stage, m)), _) => Some(format!("panic-{}[{}]", stage, panic_kind(m))),
        // a child link that leads back to an ancestor makes build run forever: parse must not return such a result
        (_, Some(Malformed(m))) if o.cyclic => Some(format!("parse-returns-unbuildable-tree[cycle; {}]", m)),
        _ => None,
    }
}

impl Property for C03 {
    fn id(&self) -> &'static str {
        "C03"
    }
    fn level(&self) -> &'static str {
        "exploration"
    }
    fn size(&self, tier: Tier) -> u64 {
        total(tier, true)
    }
    fn describe(&self, tier: Tier, idx: u64) -> String {
        show(&item_text(&item(tier, true, idx)))
    }
    fn crash_is_violation(&self) -> bool {
        true
    }
    fn crash_signature(&self, tier: Tier, idx: u64, kind: &str) -> (String, String, Value) {
        let text = item_text(&item(tier, true, idx));
        (format!("{}-in-pipeline", kind), show(&text).chars().take(80).collect(), json!({"text": text, "idx": idx}))
    }
    fn budget_ms(&self) -> u64 {
        4000
    }
    fn run(&self, tier: Tier, idx: u64, cx: &mut Ctx) {
        let it = item(tier, true, idx);
        let text = item_text(&it);
        cx.eval();
        let o = run_text(&text, false);
        if let Item::Scale(name, code) = &it {
            // polynomial time: blunt bound, normal values are milliseconds
            let n = code % 10000;
            let limit = 50.0 + 3.0 * (n as f64) * (n as f64) / 1000.0; // ms: 3 us per n^2 + 50 ms
            cx.count("scale_runs", 1);
            if o.ms > limit {
                // confirm once more before calling it slow (loaded machine)
                let o2 = run_text(&text, false);
                if o2.ms > limit {
                    cx.violation("slow-super-quadratic", &name.split('x').next().unwrap_or("").to_string(), json!({"family": name, "ms": o2.ms, "limit_ms": limit, "text_len": text.len()}));
                }
            }
        }
        if o.accepted {
            cx.count("accepted", 1);
        }
        if let Some(kind) = c03_kind_o(&o) {
            let w = if text.len() <= 64 { shrink_text(&text, &c03_kind, &kind) } else { text.chars().take(64).collect() };
            cx.violation(&kind, &show(&w), json!({"text": w, "first_seen": text}));
        }
        if o.stage_fail.is_some() || o.accepted {
            cx.nontrivial(&text);
        }
        cx.sample_at(50_021, || json!({"text": show(&text), "accepted": o.accepted}));
    }
    fn replay(&self, d: &Value, cx: &mut Ctx) {
        let text = d["text"].as_str().unwrap_or("").to_string();
        if let Some(kind) = c03_kind(&text) {
            cx.violation(&kind, &show(&text), json!({"text": text}));
        }
    }
    fn meta(&self, tier: Tier) -> Meta {
        Meta {
            rule: format!("K1: every sequence of 32 token classes (one representative spelling each: values, prefix/suffix/binary operators, brackets, separators, apply-by-identifier forms, annotations) of length <= 3 with every choice of 'nothing or one space' between neighbours, length 4 over {}; K2: every string over a 43-symbol alphabet (one per lexer character class plus 2-, 2- and 4-byte characters, form feed and NUL) of length <= {}; K3: 40 scaling families at 64..1024 repetitions; K4 (small-scope tiers, every spacing choice as in K1): length 5 over {} classes, length 6 over {} classes{} drawn from number, prefix, suffix and infix operator, comma, blank line and the three bracket kinds; K6: without spaces, length 6 over 13 classes (one per class the parser distinguishes: value, prefix, suffix, left-to-right / right-to-left / optional binary operator, three bracket kinds, blank line), length 7 over 9 of them (thorough: all 13, and length 8 over 9); K8: escape sequences and number spellings at the boundaries of what literals can denote, and jump-heavy programs (chains of 2-9 logical operators, else-chain arms, nested expressions); K5: length 5{} over the 10 jump-making classes (number, prefix and infix operator, ?>, |>, &&, parentheses, braces); the well-formed programs of the C01 corpora. Each input goes through lex, parse, a structural tree check, then build into SimpleGarnishData and BasicGarnishData. Verdict: no stage panics, aborts, overflows the stack or exceeds its wall budget (supervisor-confirmed), parse never returns a result whose child links contain a cycle (build would not terminate on it - such a result is not handed to build; results with orphan, shared or out-of-range children are built under the panic guard), K3 time <= 50 ms + 3 us * n^2. Non-trivial = input that gets past lex; distinct by text.", tier.pick("a 17-class core", "all 32 classes"), tier.pick(3, 4), tier.pick(10, 12), tier.pick(8, 10), tier.pick("", ", length 7 over 8 classes,"), tier.pick("", " and 6")),
            assumptions: vec![
                "a parse result whose child links contain a cycle is reported as a totality violation without executing build on it (build follows child links with a work stack and cannot terminate on a cycle)".into(),
                "the polynomial-time clause is checked only as a blunt quadratic wall-clock bound on 40 repeat families; a change of exponent below that is not detected".into(),
                "random long soups are replaced by the exhaustive short tiers and the scaling families".into(),
            ],
            trusted_base: vec!["engine/src/props/pipeline.rs check_tree".into(), "fw watchdog / supervisor".into()],
            explanation: "bounded-exhaustive enumeration of token-class sequences and character strings through the whole compile pipeline under a watchdog".into(),
        }
    }
}

// ---------------------------------------------------------------------------------------------
// C04

pub struct C04;

fn c04_kind(text: &str) -> Option<String> {
    c04_kind_o(&run_text(text, false))
}

fn c04_kind_o(o: &Outcome) -> Option<String> {
    // in domain only when parse and build accept; trees that are unbuildable belong to C03
    match (&o.c04, o.accepted) {
        (Some(Malformed(m)), true) => Some(m.clone()),
        _ => None,
    }
}

impl Property for C04 {
    fn id(&self) -> &'static str {
        "C04"
    }
    fn level(&self) -> &'static str {
        "exploration"
    }
    fn size(&self, tier: Tier) -> u64 {
        total(tier, true)
    }
    fn describe(&self, tier: Tier, idx: u64) -> String {
        show(&item_text(&item(tier, true, idx)))
    }
    fn budget_ms(&self) -> u64 {
        4000
    }
    fn crash_is_violation(&self) -> bool {
        // hangs/aborts are C03's verdict; here they are skipped but must not stop the run
        true
    }
    fn crash_signature(&self, tier: Tier, idx: u64, kind: &str) -> (String, String, Value) {
        let text = item_text(&item(tier, true, idx));
        (format!("{}-while-checking", kind), show(&text).chars().take(80).collect(), json!({"text": text, "idx": idx}))
    }
    fn run(&self, tier: Tier, idx: u64, cx: &mut Ctx) {
        let it = item(tier, true, idx);
        if matches!(it, Item::Scale(..)) {
            return;
        }
        let text = item_text(&it);
        cx.eval();
        let o = run_text(&text, false);
        if o.accepted {
            cx.count("accepted", 1);
            cx.nontrivial(&text);
        }
        if let Some(kind) = c04_kind_o(&o) {
            let w = if text.len() <= 64 { shrink_text(&text, &c04_kind, &kind) } else { text.clone() };
            cx.violation(&kind, &show(&w), json!({"text": w, "first_seen": text}));
        }
        cx.sample_at(50_021, || json!({"text": show(&text), "accepted": o.accepted}));
    }
    fn replay(&self, d: &Value, cx: &mut Ctx) {
        let text = d["text"].as_str().unwrap_or("").to_string();
        if let Some(kind) = c04_kind(&text) {
            cx.violation(&kind, &show(&text), json!({"text": text}));
        }
    }
    fn meta(&self, tier: Tier) -> Meta {
        let s = spaces(tier);
        Meta {
            rule: format!("the C03 corpora (token-class sequences, character strings) restricted to inputs that parse and build accept, plus the {} well-formed programs of the C01 corpora. Oracle (structure only): child/parent links agree, no node shared or on a cycle, every node reachable from the root once, the in-order walk (synthesised list nodes skipped) lists every significant token exactly once in source order (whitespace, annotations, closing brackets never; separators at most once), every value/operator node has at least one instruction attributed (groups, else-jumps and inner nodes of a flattened list chain exempt). Non-trivial = accepted input; distinct by text.", s.total()),
            assumptions: vec!["'redundant separators' = any blank-line / `;` token the parser chose to drop: separators are required to appear at most once, not exactly once".into()],
            trusted_base: vec!["engine/src/props/pipeline.rs check_tree/check_tokens/check_attribution".into()],
            explanation: "bounded-exhaustive enumeration with a structural oracle on ParseResult and BuildData".into(),
        }
    }
}

// ---------------------------------------------------------------------------------------------
// C05

pub struct C05;

fn c05_kind(text: &str) -> Option<String> {
    c05_kind_o(&run_text(text, true))
}

fn c05_kind_o(o: &Outcome) -> Option<String> {
    match (&o.c05, o.accepted) {
        (Some((which, Malformed(m))), true) => Some(format!("{}/{}", which, m)),
        _ => None,
    }
}

impl Property for C05 {
    fn id(&self) -> &'static str {
        "C05"
    }
    fn level(&self) -> &'static str {
        "exploration"
    }
    fn size(&self, tier: Tier) -> u64 {
        total(tier, true)
    }
    fn describe(&self, tier: Tier, idx: u64) -> String {
        show(&item_text(&item(tier, true, idx)))
    }
    fn budget_ms(&self) -> u64 {
        4000
    }
    fn crash_is_violation(&self) -> bool {
        true
    }
    fn crash_signature(&self, tier: Tier, idx: u64, kind: &str) -> (String, String, Value) {
        let text = item_text(&item(tier, true, idx));
        (format!("{}-while-checking", kind), show(&text).chars().take(80).collect(), json!({"text": text, "idx": idx}))
    }
    fn run(&self, tier: Tier, idx: u64, cx: &mut Ctx) {
        let it = item(tier, true, idx);
        if matches!(it, Item::Scale(..)) {
            return;
        }
        let text = item_text(&it);
        cx.eval();
        let o = run_text(&text, true);
        if o.accepted {
            cx.count("accepted", 1);
            cx.count("builds_checked", 5);
            cx.nontrivial(&text);
        }
        if let Some(kind) = c05_kind_o(&o) {
            let w = if text.len() <= 64 { shrink_text(&text, &c05_kind, &kind) } else { text.clone() };
            cx.violation(&kind, &show(&w), json!({"text": w, "first_seen": text}));
        }
        cx.sample_at(50_021, || json!({"text": show(&text), "accepted": o.accepted}));
    }
    fn replay(&self, d: &Value, cx: &mut Ctx) {
        let text = d["text"].as_str().unwrap_or("").to_string();
        if let Some(kind) = c05_kind(&text) {
            cx.violation(&kind, &show(&text), json!({"text": text}));
        }
    }
    fn meta(&self, tier: Tier) -> Meta {
        let s = spaces(tier);
        Meta {
            rule: format!("every input of the C03 corpora that the pipeline accepts plus the {} programs of the C01 corpora, each built five times: into a fresh SimpleGarnishData / BasicGarnishData, into objects pre-loaded with 7 foreign instructions, 3 jump entries and 5 constants, and into a pre-loaded BasicGarnishData whose storage blocks have different tiny sizes and grow one to three cells at a time. Oracle per instruction: operand present iff required, data operands in range and naming a value of the required kind, jump operands and expression values naming a jump entry appended by this build, every appended jump entry pointing at an instruction emitted by this build (a surviving 0 placeholder is foreign in the pre-loaded object), last instruction is EndExpression or JumpTo, the instruction before every block entry (build entry, target of JumpIfTrue/JumpIfFalse/And/Or, body of an expression value) is EndExpression or JumpTo, one metadata record per emitted instruction naming an existing node. Non-trivial = accepted input; distinct by text.", s.total()),
            assumptions: vec!["'every straight-line run ends in a terminator' is checked as: the stream's last instruction is a terminator and so is the instruction before every block entry (entry point, conditional-jump target, expression body); a jump entry used only by JumpTo is a join point inside a run".into()],
            trusted_base: vec!["engine/src/props/pipeline.rs check_stream, operand_kind table".into()],
            explanation: "bounded-exhaustive enumeration with a well-formedness oracle on the built instruction stream".into(),
        }
    }
}
