//! C13 - lexing is lossless, positions are exact, nothing is skipped.
//!
//! Bounded-exhaustive: every string over a 43-symbol alphabet (one representative per character class of
//! the lexer) up to a fixed length, longer strings over two reduced alphabets, and every ordered pair of
//! the 60 operator spellings in four layouts. Each string goes through the real `lex`; only an `Ok` result
//! is judged (the statement is conditional on success):
//!   * the token texts concatenated reproduce the input, no token is empty;
//!   * (input without `\r`) every token's line/column are those of its first character;
//!   * every operator-typed token spells its type and is the longest table spelling at that place;
//!   * every literal token has the shape of its class (this is what catches a silently absorbed character)
//!     and is not directly followed by a character that would have continued it;
//!   * every run of space/tab/newline with two or more newlines contains a `Subexpression` token.
//!
//! A failing input is reduced by a deterministic descent (delete a substring, replace a symbol or a substring
//! by an earlier alphabet symbol, keeping the same failure kind) to a locally minimal witness; the signature is
//! `kind :: witness`, so one defect gives a handful of signatures however many inputs it breaks.

use crate::fw::{guard, Ctx, Meta, Property, Tier};
use garnish_lang_compiler::lex::{lex, LexerToken, TokenType};
use serde_json::{json, Value};
use std::cell::RefCell;
use std::collections::HashMap;
use std::sync::OnceLock;

pub struct C13;

// ---------------------------------------------------------------------------------------------
// alphabets

/// one representative per character class of the lexer; the order is the "simpler than" order of the reducer
pub const SIGMA: [char; 43] = [
    '1', 'a', '_', ':', '.', ' ', '\t', '\n', '\r', '"', '\'', '\\', '@', '`', '$', '?', '!', '~', '<', '>', '=', '+', '-', '|', '&', '^', '#', '%',
    '*', '/', '(', ')', '{', '}', '[', ']', ',', ';', 'é', '§', '😀', '\u{c}', '\0',
];

/// 14-symbol core for the longer strings
pub const CORE: [char; 14] = ['1', 'a', '.', '_', ':', ' ', '\n', '"', '\'', '\\', '@', '+', '-', '§'];

/// 4-symbol literal alphabet (quote runs of any length, embedded quotes, line breaks inside literals)
pub const QUOTES: [char; 4] = ['a', '"', '\'', '\n'];

/// 7-symbol layout alphabet (blank lines, trailing blanks, newlines inside literals and annotations)
pub const LAYOUT: [char; 7] = ['1', ' ', '\t', '\n', '\r', '"', '@'];

/// The language's operator table: spelling -> token type (transcribed from the table handed to
/// `create_operator_tree` in `Lexer::new`; this is the reference the longest-match clause is judged against).
pub const TABLE: [(&str, TokenType); 60] = [
    ("+", TokenType::PlusSign),
    ("++", TokenType::AbsoluteValue),
    ("-", TokenType::Subtraction),
    ("--", TokenType::Opposite),
    ("*", TokenType::MultiplicationSign),
    ("**", TokenType::ExponentialSign),
    ("/", TokenType::Division),
    ("//", TokenType::IntegerDivision),
    ("%", TokenType::Remainder),
    ("!", TokenType::BitwiseNot),
    ("&", TokenType::BitwiseAnd),
    ("|", TokenType::BitwiseOr),
    ("^", TokenType::BitwiseXor),
    ("<<", TokenType::BitwiseLeftShift),
    (">>", TokenType::BitwiseRightShift),
    ("&&", TokenType::And),
    ("||", TokenType::Or),
    ("^^", TokenType::Xor),
    ("!!", TokenType::Not),
    ("??", TokenType::Tis),
    ("()", TokenType::UnitLiteral),
    ("{", TokenType::StartExpression),
    ("}", TokenType::EndExpression),
    ("(", TokenType::StartGroup),
    (")", TokenType::EndGroup),
    ("[", TokenType::StartSideEffect),
    ("]", TokenType::EndSideEffect),
    ("$", TokenType::Value),
    ("$?", TokenType::True),
    ("$!", TokenType::False),
    (",", TokenType::Comma),
    ("!>", TokenType::JumpIfFalse),
    ("?>", TokenType::JumpIfTrue),
    ("|>", TokenType::ElseJump),
    ("<~", TokenType::Apply),
    ("~>", TokenType::ApplyTo),
    ("~", TokenType::PartialApply),
    ("^~", TokenType::Reapply),
    ("~~", TokenType::EmptyApply),
    ("#", TokenType::TypeOf),
    ("~#", TokenType::TypeCast),
    ("#=", TokenType::TypeEqual),
    ("==", TokenType::Equality),
    ("!=", TokenType::Inequality),
    ("<", TokenType::LessThan),
    ("<=", TokenType::LessThanOrEqual),
    (">", TokenType::GreaterThan),
    (">=", TokenType::GreaterThanOrEqual),
    ("=", TokenType::Pair),
    (".", TokenType::Period),
    ("._", TokenType::RightInternal),
    ("_.", TokenType::LeftInternal),
    (".|", TokenType::LengthInternal),
    ("<>", TokenType::Concatenation),
    ("..", TokenType::Range),
    (">..", TokenType::StartExclusiveRange),
    ("..<", TokenType::EndExclusiveRange),
    (">..<", TokenType::ExclusiveRange),
    (";;", TokenType::ExpressionTerminator),
    (";", TokenType::ExpressionSeparator),
];

fn pack(s: &str) -> Option<u32> {
    let b = s.as_bytes();
    if b.is_empty() || b.len() > 4 || !s.is_ascii() {
        return None;
    }
    let mut k = 0u32;
    for x in b {
        k = (k << 8) | *x as u32;
    }
    Some(k)
}

struct Lookup {
    by_type: Vec<Option<&'static str>>,
    keys: Vec<u32>,
}

fn lookup() -> &'static Lookup {
    static L: OnceLock<Lookup> = OnceLock::new();
    L.get_or_init(|| {
        let mut by_type: Vec<Option<&'static str>> = vec![None; 256];
        let mut keys = vec![];
        for (s, t) in TABLE.iter() {
            by_type[*t as usize] = Some(*s);
            keys.push(pack(s).unwrap());
        }
        keys.sort();
        Lookup { by_type, keys }
    })
}

fn spelling_of(t: TokenType) -> Option<&'static str> {
    lookup().by_type[t as usize]
}

fn is_spelling(s: &str) -> bool {
    match pack(s) {
        Some(k) => lookup().keys.binary_search(&k).is_ok(),
        None => false,
    }
}

const MAX_SPELLING_CHARS: usize = 4;

// ---------------------------------------------------------------------------------------------
// oracle

#[derive(Clone, Debug)]
pub struct Fault {
    pub kind: String,
    pub expected: String,
    pub got: String,
}

#[derive(Clone, Copy, Debug, PartialEq)]
pub enum Outcome {
    Ok(usize),
    Err,
    Panic,
}

fn is_ws(c: char) -> bool {
    // form feed is layout too; like the carriage return, whether it counts as a line break is not settled
    c == ' ' || c == '\t' || c == '\n' || c == '\r' || c == '\u{c}'
}

/// column unit of the lexer under test, calibrated on one input: Some(0) characters, Some(1) bytes, Some(2) UTF-16
/// units; None when the calibration input does not lex as expected (then every unit is accepted per token)
fn column_unit() -> Option<u8> {
    static U: std::sync::OnceLock<Option<u8>> = std::sync::OnceLock::new();
    *U.get_or_init(|| {
        let toks = crate::fw::guard(|| garnish_lang_compiler::lex::lex("\"é😀\" 1")).ok()?.ok()?;
        let first = toks.first()?.get_column();
        let last = toks.iter().find(|t| t.get_text() == "1")?.get_column();
        // the text before `1` is: quote, é, 😀, quote, space
        match last.checked_sub(first)? {
            5 => Some(0),
            9 => Some(1),
            6 => Some(2),
            _ => None,
        }
    })
}

fn is_ident_char(c: char) -> bool {
    c.is_alphanumeric() || c == '_' || c == ':'
}

fn is_operator_char(c: char) -> bool {
    TABLE.iter().any(|(s, _)| s.contains(c))
}

/// can `c` start or continue some token outside a literal/annotation body
fn is_token_char(c: char) -> bool {
    is_ws(c) || is_ident_char(c) || is_operator_char(c) || c == '"' || c == '\'' || c == '@' || c == '`'
}

fn quoted_shape(text: &str, q: char) -> bool {
    let total = text.chars().count();
    let lead = text.chars().take_while(|c| *c == q).count();
    if lead == total {
        // only quotes: the empty list, or an opening and a closing run of three or more
        return total == 2 || total >= 6;
    }
    if lead == 0 || lead == 2 {
        // two quotes are the empty list and nothing else
        return false;
    }
    let trail = text.chars().rev().take_while(|c| *c == q).count();
    if trail < lead || total < 2 * lead {
        return false;
    }
    if lead == 1 {
        // single-quoted form: the first quote after the opening one closes the literal
        let inner: Vec<char> = text.chars().collect();
        return !inner[1..total - 1].contains(&q);
    }
    true
}

/// does `text` have the shape of a token of (non-operator) class `t`
fn shape_ok(t: TokenType, text: &str) -> bool {
    let mut cs = text.chars();
    match t {
        TokenType::Number => {
            let first = cs.next().unwrap_or(' ');
            (first.is_numeric() || first == '.')
                && text.chars().all(|c| c.is_alphanumeric() || c == '_' || c == '.')
                && text.chars().filter(|c| *c == '.').count() <= 1
                && text.chars().any(|c| c.is_numeric())
        }
        TokenType::Identifier => text.chars().all(is_ident_char),
        TokenType::Symbol => text.starts_with(':') && text.chars().all(is_ident_char),
        TokenType::PrefixIdentifier => text.ends_with('`') && text[..text.len() - 1].chars().all(is_ident_char), // '`' is one byte
        TokenType::SuffixIdentifier => text.starts_with('`') && text[1..].chars().all(is_ident_char),
        TokenType::InfixIdentifier => text.len() >= 2 && text.starts_with('`') && text.ends_with('`') && text[1..text.len() - 1].chars().all(is_ident_char),
        TokenType::CharList => quoted_shape(text, '"'),
        TokenType::ByteList => quoted_shape(text, '\''),
        TokenType::Whitespace => text.chars().all(is_ws),
        // a separator made of layout is a blank line: it holds at least two newlines
        TokenType::Subexpression => text.chars().all(is_ws) && text.chars().filter(|c| *c == '\n' || *c == '\r' || *c == '\u{c}').count() >= 2, // (how a carriage return or form feed counts is not settled)
        TokenType::Annotation => text.starts_with('@') && text[1..].chars().all(|c| c.is_alphanumeric() || c == '_'),
        TokenType::LineAnnotation => {
            let n = text.chars().count();
            text.starts_with("@@") && !text.chars().take(n - 1).any(|c| c == '\n')
        }
        TokenType::Unknown => false,
        _ => true,
    }
}

fn esc(s: &str) -> String {
    format!("{:?}", s)
}

fn show_tokens(toks: &[LexerToken]) -> String {
    let mut out = String::from("[");
    for (i, t) in toks.iter().enumerate() {
        if i > 0 {
            out.push_str(", ");
        }
        out.push_str(&format!("{:?} {} @{}:{}", t.get_token_type(), esc(t.get_text()), t.get_line(), t.get_column()));
    }
    out.push(']');
    out
}

fn push_fault(out: &mut Vec<Fault>, kind: String, expected: String, got: String) {
    if !out.iter().any(|f| f.kind == kind) {
        out.push(Fault { kind, expected, got });
    }
}

/// Judge one `Ok` result. At most one fault per kind.
pub fn judge(input: &str, toks: &[LexerToken]) -> Vec<Fault> {
    let mut out: Vec<Fault> = vec![];

    // --- no empty token
    if let Some(i) = toks.iter().position(|t| t.get_text().is_empty()) {
        push_fault(&mut out, "empty-token".into(), "every token has at least one character".into(), format!("token #{} of {} is empty", i, show_tokens(toks)));
    }

    // --- lossless: spans by exact concatenation, else by in-order alignment
    let mut spans: Vec<(usize, usize)> = Vec::with_capacity(toks.len());
    let mut off = 0usize;
    let mut exact = true;
    for t in toks {
        let tx = t.get_text().as_str();
        if input[off..].starts_with(tx) {
            spans.push((off, off + tx.len()));
            off += tx.len();
        } else {
            exact = false;
            break;
        }
    }
    if exact && off != input.len() {
        exact = false;
    }
    let mut aligned = exact;
    if !exact {
        // align: each token at its earliest occurrence at or after the end of the previous one
        spans.clear();
        let mut off = 0usize;
        let mut ok = true;
        for t in toks {
            let tx = t.get_text().as_str();
            match input[off..].find(tx) {
                Some(p) => {
                    spans.push((off + p, off + p + tx.len()));
                    off = off + p + tx.len();
                }
                None => {
                    ok = false;
                    break;
                }
            }
        }
        aligned = ok;
        let concat: String = toks.iter().map(|t| t.get_text().as_str()).collect();
        if !ok {
            push_fault(
                &mut out,
                "lossy[token text not in the input in order]".into(),
                format!("token texts concatenate to {}", esc(input)),
                format!("{} from {}", esc(&concat), show_tokens(toks)),
            );
        } else {
            // first dropped character
            let mut pos = 0usize;
            let mut dropped: Option<char> = None;
            for (s, e) in &spans {
                if *s > pos {
                    dropped = input[pos..].chars().next();
                    break;
                }
                pos = *e;
            }
            if dropped.is_none() && pos < input.len() {
                dropped = input[pos..].chars().next();
            }
            let class = match dropped {
                Some(c) if is_ws(c) => "whitespace",
                Some(c) if !is_token_char(c) => "character that starts no token",
                Some(_) => "token character",
                None => "nothing",
            };
            push_fault(
                &mut out,
                format!("lossy[dropped {}]", class),
                format!("token texts concatenate to {}", esc(input)),
                format!("{} from {}", esc(&concat), show_tokens(toks)),
            );
        }
    }

    // --- class shapes and operator spellings (independent of where the token sits)
    for (ti, t) in toks.iter().enumerate() {
        let tt = t.get_token_type();
        let tx = t.get_text().as_str();
        if tx.is_empty() {
            continue;
        }
        // a separator directly after a comment line: the comment's own line break is the first half of the blank line
        if tt == TokenType::Subexpression && ti > 0 && toks[ti - 1].get_token_type() == TokenType::LineAnnotation && toks[ti - 1].get_text().ends_with('\n') {
            if tx.chars().all(is_ws) && tx.chars().any(|c| c == '\n' || c == '\r' || c == '\u{c}') {
                continue;
            }
        }
        match spelling_of(tt) {
            Some(sp) => {
                if sp != tx {
                    push_fault(
                        &mut out,
                        "operator-text-is-not-its-spelling".into(),
                        format!("a {:?} token has the text {}", tt, esc(sp)),
                        format!("{} in {}", esc(tx), show_tokens(toks)),
                    );
                }
            }
            None => {
                if !shape_ok(tt, tx) {
                    push_fault(
                        &mut out,
                        format!("shape[{:?}]", tt),
                        format!("the text of a {:?} token has the shape of that class (no foreign character absorbed)", tt),
                        format!("{} in {}", esc(tx), show_tokens(toks)),
                    );
                }
            }
        }
    }

    if !aligned {
        return out;
    }

    // --- longest match
    for (i, t) in toks.iter().enumerate() {
        let tt = t.get_token_type();
        let tx = t.get_text().as_str();
        let (s, e) = spans[i];
        if tx.is_empty() {
            continue;
        }
        if spelling_of(tt).is_some() {
            // a longer table spelling starting at the same place
            let rest = &input[s..];
            let n_tok = tx.chars().count();
            let mut end = 0usize;
            for (k, (bi, c)) in rest.char_indices().enumerate() {
                if k >= MAX_SPELLING_CHARS {
                    break;
                }
                end = bi + c.len_utf8();
                if k + 1 > n_tok && is_spelling(&rest[..end]) {
                    push_fault(
                        &mut out,
                        "operator-not-longest-match".into(),
                        format!("the longest table spelling at this place, {}", esc(&rest[..end])),
                        format!("{:?} {} in {}", tt, esc(tx), show_tokens(toks)),
                    );
                    break;
                }
            }
            let _ = end;
        } else if exact {
            // a literal directly followed by a character that continues it (the period is left out: float/period rule)
            let next = input[e..].chars().next();
            let cont = match (tt, next) {
                (TokenType::Number, Some(c)) => c.is_alphanumeric() || c == '_',
                (TokenType::Identifier, Some(c)) | (TokenType::Symbol, Some(c)) | (TokenType::SuffixIdentifier, Some(c)) => is_ident_char(c),
                _ => false,
            };
            if cont {
                push_fault(
                    &mut out,
                    format!("literal-not-longest-match[{:?}]", tt),
                    format!("the {:?} token extends over the following {:?}", tt, next.unwrap()),
                    format!("{} in {}", esc(tx), show_tokens(toks)),
                );
            }
        }
    }

    // --- positions (only exact decompositions, only input without carriage returns)
    if exact && !input.contains('\r') && !input.contains('\u{c}') {
        let mut line = 0usize;
        let mut col_c = 0usize; // characters
        let mut col_b = 0usize; // bytes
        let mut col_u = 0usize; // utf-16 units
        let mut pos = 0usize;
        let mut dline: Option<usize> = None;
        let mut dcol: Option<usize> = None;
        for (i, t) in toks.iter().enumerate() {
            let (s, _) = spans[i];
            for c in input[pos..s].chars() {
                if c == '\n' {
                    line += 1;
                    col_c = 0;
                    col_b = 0;
                    col_u = 0;
                } else {
                    col_c += 1;
                    col_b += c.len_utf8();
                    col_u += c.len_utf16();
                }
            }
            pos = s;
            // base 0 or base 1, the same for every token of the input
            let gl = t.get_line();
            let line_ok = match dline {
                None => {
                    if gl == line || gl == line + 1 {
                        dline = Some(gl - line);
                        true
                    } else {
                        false
                    }
                }
                Some(d) => gl == line + d,
            };
            if !line_ok {
                push_fault(
                    &mut out,
                    "position-line".into(),
                    format!("token #{} {} starts on line {} (number of newlines before it)", i, esc(t.get_text()), line),
                    format!("line {} in {}", gl, show_tokens(toks)),
                );
                break;
            }
            let gc = t.get_column();
            // the unit the lexer counts columns in is calibrated once (characters, bytes or UTF-16 units are all
            // accepted, but it has to be one unit for every token of every input)
            let cols: Vec<usize> = match column_unit() {
                Some(0) => vec![col_c],
                Some(1) => vec![col_b],
                Some(_) => vec![col_u],
                None => vec![col_c, col_b, col_u],
            };
            let col_ok = match dcol {
                None => {
                    let mut found = None;
                    for d in [0usize, 1] {
                        if cols.iter().any(|c| gc == c + d) {
                            found = Some(d);
                            break;
                        }
                    }
                    dcol = found;
                    found.is_some()
                }
                Some(d) => cols.iter().any(|c| gc == c + d),
            };
            if !col_ok {
                push_fault(
                    &mut out,
                    "position-column".into(),
                    format!("token #{} {} starts at column {} (characters since the last newline)", i, esc(t.get_text()), col_c),
                    format!("column {} in {}", gc, show_tokens(toks)),
                );
                break;
            }
        }
    }

    // --- a blank line separates sub-expressions
    if input.bytes().filter(|b| *b == b'\n').count() >= 2 {
        // bytes covered by literal / annotation tokens do not count as layout
        let mut masked = vec![false; input.len() + 1];
        for (i, t) in toks.iter().enumerate() {
            if matches!(t.get_token_type(), TokenType::CharList | TokenType::ByteList | TokenType::Annotation | TokenType::LineAnnotation) {
                for b in spans[i].0..spans[i].1 {
                    masked[b] = true;
                }
                // the line break that ends a comment line is layout: together with a following line break it forms
                // a blank line
                if t.get_token_type() == TokenType::LineAnnotation && t.get_text().ends_with('\n') {
                    masked[spans[i].1 - 1] = false;
                }
            }
        }
        let mut run_start: Option<usize> = None;
        let mut newlines = 0usize;
        let check_run = |rs: usize, re: usize, newlines: usize, out: &mut Vec<Fault>| {
            if newlines >= 2 {
                let has = toks.iter().enumerate().any(|(i, t)| t.get_token_type() == TokenType::Subexpression && spans[i].0 < re && spans[i].1 > rs);
                if !has {
                    push_fault(
                        out,
                        "blank-line-without-subexpression".into(),
                        format!("the blank-line run {} is covered by a Subexpression token", esc(&input[rs..re])),
                        show_tokens(toks),
                    );
                }
            }
        };
        for (bi, c) in input.char_indices() {
            let layout = (c == ' ' || c == '\t' || c == '\n') && !masked[bi];
            if layout {
                if run_start.is_none() {
                    run_start = Some(bi);
                    newlines = 0;
                }
                if c == '\n' {
                    newlines += 1;
                }
            } else if let Some(rs) = run_start.take() {
                check_run(rs, bi, newlines, &mut out);
            }
        }
        if let Some(rs) = run_start.take() {
            check_run(rs, input.len(), newlines, &mut out);
        }
    }

    out
}

/// Run the real lexer on `input` and judge the result.
pub fn examine(input: &str) -> (Outcome, Vec<Fault>) {
    match guard(|| lex(input)) {
        Err(_) => (Outcome::Panic, vec![]),
        Ok(Err(_)) => (Outcome::Err, vec![]),
        Ok(Ok(toks)) => {
            let f = judge(input, &toks);
            (Outcome::Ok(toks.len()), f)
        }
    }
}

fn fails_with(input: &str, kind: &str) -> bool {
    examine(input).1.iter().any(|f| f.kind == kind)
}

// ---------------------------------------------------------------------------------------------
// reduction to a locally minimal witness

thread_local! {
    static MEMO: RefCell<HashMap<(String, String), String>> = RefCell::new(HashMap::new());
}

fn rank(c: char) -> usize {
    SIGMA.iter().position(|x| *x == c).unwrap_or(SIGMA.len())
}

fn fails_chars(cand: &[char], kind: &str) -> bool {
    let s: String = cand.iter().collect();
    fails_with(&s, kind)
}

/// first kind-preserving reduction of `cur`, in this order:
///  1. delete a substring (shortest first, leftmost first);
///  2. replace every occurrence of one symbol by an earlier alphabet symbol;
///  3. replace a substring by one alphabet symbol (for a one-character substring: an earlier symbol).
/// Every step makes the string shorter or, at equal length, smaller in alphabet order, so the descent ends.
fn reduce_once(cur: &[char], kind: &str) -> Option<Vec<char>> {
    let n = cur.len();
    for len in 1..n {
        for i in 0..=(n - len) {
            let mut cand: Vec<char> = Vec::with_capacity(n - len);
            cand.extend_from_slice(&cur[..i]);
            cand.extend_from_slice(&cur[i + len..]);
            if fails_chars(&cand, kind) {
                return Some(cand);
            }
        }
    }
    let mut present: Vec<char> = cur.to_vec();
    present.sort_by_key(|c| rank(*c));
    present.dedup();
    for x in present.iter().rev() {
        let r = rank(*x);
        for sym in SIGMA.iter().take(r) {
            let cand: Vec<char> = cur.iter().map(|c| if c == x { *sym } else { *c }).collect();
            if fails_chars(&cand, kind) {
                return Some(cand);
            }
        }
    }
    for len in (1..=n).rev() {
        for i in 0..=(n - len) {
            let limit = if len == 1 { rank(cur[i]) } else { SIGMA.len() };
            for sym in SIGMA.iter().take(limit) {
                let mut cand: Vec<char> = Vec::with_capacity(n - len + 1);
                cand.extend_from_slice(&cur[..i]);
                cand.push(*sym);
                cand.extend_from_slice(&cur[i + len..]);
                if fails_chars(&cand, kind) {
                    return Some(cand);
                }
            }
        }
    }
    None
}

pub fn canonical_witness(input: &str, kind: &str) -> String {
    let mut path: Vec<String> = vec![];
    let mut cur: Vec<char> = input.chars().collect();
    let result: String;
    loop {
        let s: String = cur.iter().collect();
        let hit = MEMO.with(|m| m.borrow().get(&(kind.to_string(), s.clone())).cloned());
        if let Some(w) = hit {
            result = w;
            break;
        }
        match reduce_once(&cur, kind) {
            Some(next) => {
                path.push(s);
                cur = next;
            }
            None => {
                path.push(s.clone());
                result = s;
                break;
            }
        }
    }
    MEMO.with(|m| {
        let mut m = m.borrow_mut();
        if m.len() > 400_000 {
            m.clear();
        }
        for p in path {
            m.insert((kind.to_string(), p), result.clone());
        }
    });
    result
}

// ---------------------------------------------------------------------------------------------
// one case

fn check_input(cx: &mut Ctx, input: &str, space: &str, count_nontrivial: bool, only_kind: Option<&str>) {
    cx.eval();
    let (outcome, faults) = examine(input);
    match outcome {
        Outcome::Ok(n) => {
            cx.count("lex_ok", 1);
            cx.count("tokens_judged", n as u64);
            if n >= 2 && count_nontrivial {
                cx.count("nontrivial", 1);
            }
        }
        Outcome::Err => cx.count("lex_err", 1),
        Outcome::Panic => cx.count("lex_panic_not_judged", 1),
    }
    if faults.is_empty() {
        return;
    }
    cx.count("failing_inputs", 1);
    for f in faults {
        if let Some(k) = only_kind {
            if k != f.kind {
                continue;
            }
        }
        let w = canonical_witness(input, &f.kind);
        // expected/got are reported for the reduced witness when it differs from the input
        let (exp, got) = if w != input {
            match examine(&w).1.into_iter().find(|x| x.kind == f.kind) {
                Some(x) => (x.expected, x.got),
                None => (f.expected.clone(), f.got.clone()),
            }
        } else {
            (f.expected.clone(), f.got.clone())
        };
        cx.violation(
            &f.kind,
            &esc(&w),
            json!({
                "input": input,
                "witness": w,
                "kind": f.kind,
                "space": space,
                "shown": format!("lex({}) [first failing input of this signature]; reduced witness lex({})", esc(input), esc(&w)),
                "expected": exp,
                "got": got,
            }),
        );
    }
}

// ---------------------------------------------------------------------------------------------
// index space

#[derive(Clone, Copy)]
struct Seg {
    name: &'static str,
    alphabet: &'static [char],
    /// prefix lengths lo..=hi
    lo: u32,
    hi: u32,
    /// every element appends all suffixes of exactly this length
    suffix: u32,
}

fn pow(n: u64, k: u32) -> u64 {
    n.pow(k)
}

impl Seg {
    fn elements(&self) -> u64 {
        if self.name == "pairs" {
            return TABLE.len() as u64;
        }
        let n = self.alphabet.len() as u64;
        (self.lo..=self.hi).map(|k| pow(n, k)).sum()
    }
    fn prefix(&self, mut idx: u64) -> Vec<char> {
        let n = self.alphabet.len() as u64;
        let mut len = self.lo;
        while idx >= pow(n, len) {
            idx -= pow(n, len);
            len += 1;
        }
        let mut v = vec![' '; len as usize];
        for i in (0..len as usize).rev() {
            v[i] = self.alphabet[(idx % n) as usize];
            idx /= n;
        }
        v
    }
}

fn segments(tier: Tier) -> Vec<Seg> {
    let full_len: u32 = tier.pick(4, 5);
    let core_len: u32 = tier.pick(6, 7);
    let layout_len: u32 = tier.pick(7, 8);
    let quotes_len: u32 = tier.pick(11, 13);
    vec![
        // all strings of length <= full_len: prefix of length 0..full_len-1 + one symbol (the empty string rides on element 0)
        Seg { name: "full", alphabet: &SIGMA, lo: 0, hi: full_len - 1, suffix: 1 },
        // core strings of length full_len+1 ..= core_len
        Seg { name: "core", alphabet: &CORE, lo: full_len - 1, hi: core_len - 2, suffix: 2 },
        // layout strings of length full_len+1 ..= layout_len
        Seg { name: "layout", alphabet: &LAYOUT, lo: full_len - 2, hi: layout_len - 3, suffix: 3 },
        // literal strings of length core_len+1 ..= quotes_len
        Seg { name: "quotes", alphabet: &QUOTES, lo: core_len - 3, hi: quotes_len - 4, suffix: 4 },
        Seg { name: "pairs", alphabet: &[], lo: 0, hi: 0, suffix: 0 },
    ]
}

fn locate(segs: &[Seg], mut idx: u64) -> Option<(Seg, u64)> {
    for s in segs {
        let n = s.elements();
        if idx < n {
            return Some((*s, idx));
        }
        idx -= n;
    }
    None
}

fn all_in(s: &[char], alphabet: &[char]) -> bool {
    s.iter().all(|c| alphabet.contains(c))
}

fn run_strings(seg: &Seg, tier: Tier, prefix: &[char], cx: &mut Ctx) {
    let core_len = tier.pick(6usize, 7usize);
    let n = seg.alphabet.len();
    let k = seg.suffix as usize;
    let total = n.pow(k as u32);
    let mut chars: Vec<char> = prefix.to_vec();
    chars.resize(prefix.len() + k, ' ');
    let mut s = String::with_capacity(4 * chars.len());
    for j in 0..total {
        let mut x = j;
        for p in (0..k).rev() {
            chars[prefix.len() + p] = seg.alphabet[x % n];
            x /= n;
        }
        // a string enumerated by an earlier segment is not counted twice
        let dup = match seg.name {
            "layout" => chars.len() <= core_len && all_in(&chars, &CORE),
            "quotes" => chars.len() <= core_len,
            _ => false,
        };
        if dup {
            continue;
        }
        s.clear();
        s.extend(chars.iter());
        check_input(cx, &s, seg.name, true, None);
    }
}

const PAIR_LAYOUTS: [(&str, &str, &str); 4] = [("", "", ""), ("", " ", ""), ("", "\n", ""), ("a", "", "1")];

fn run_pairs(tier: Tier, i: usize, cx: &mut Ctx) {
    let full_len = tier.pick(4usize, 5usize);
    let (s1, t1) = TABLE[i];
    // the spelling alone is one token of its table type
    cx.eval();
    if let Ok(Ok(toks)) = guard(|| lex(s1)) {
        if !(toks.len() == 1 && toks[0].get_token_type() == t1 && toks[0].get_text() == s1) {
            cx.violation(
                "spelling-alone-is-not-its-table-type",
                &esc(s1),
                json!({"input": s1, "witness": s1, "kind": "spelling-alone-is-not-its-table-type", "space": "pairs",
                       "shown": format!("lex({})", esc(s1)), "expected": format!("one {:?} token", t1), "got": show_tokens(&toks)}),
            );
        }
    }
    for (s2, _) in TABLE.iter() {
        for (pre, mid, post) in PAIR_LAYOUTS.iter() {
            let s = format!("{}{}{}{}{}", pre, s1, mid, s2, post);
            let n = s.chars().count();
            let dup = n <= full_len; // every character of a spelling is in the alphabet
            check_input(cx, &s, "pairs", !dup, None);
        }
    }
}

impl Property for C13 {
    fn id(&self) -> &'static str {
        "C13"
    }
    fn level(&self) -> &'static str {
        "exploration"
    }
    fn budget_ms(&self) -> u64 {
        // every subject call is guarded and `lex` is a single pass over the characters; the generous budget
        // only keeps a loaded machine from turning a slow element into a restart
        30_000
    }
    fn size(&self, tier: Tier) -> u64 {
        segments(tier).iter().map(|s| s.elements()).sum()
    }
    fn describe(&self, tier: Tier, idx: u64) -> String {
        match locate(&segments(tier), idx) {
            Some((s, i)) if s.name == "pairs" => format!("pairs: {} x every spelling x 4 layouts", esc(TABLE[i as usize].0)),
            Some((s, i)) => {
                let p: String = s.prefix(i).iter().collect();
                format!("{}: {} + every {}-symbol suffix", s.name, esc(&p), s.suffix)
            }
            None => "none".into(),
        }
    }
    fn run(&self, tier: Tier, idx: u64, cx: &mut Ctx) {
        let segs = segments(tier);
        let (seg, i) = match locate(&segs, idx) {
            Some(x) => x,
            None => return,
        };
        if seg.name == "pairs" {
            run_pairs(tier, i as usize, cx);
            return;
        }
        let prefix = seg.prefix(i);
        if seg.name == "full" && prefix.is_empty() {
            check_input(cx, "", seg.name, true, None);
        }
        run_strings(&seg, tier, &prefix, cx);
        cx.sample_at(9973, || {
            let p: String = prefix.iter().collect();
            let shown = format!("{}{}", p, seg.alphabet[0]);
            let r = match guard(|| lex(&shown)) {
                Ok(Ok(t)) => show_tokens(&t),
                Ok(Err(e)) => format!("Err({})", e),
                Err(p) => format!("panic {}", p),
            };
            json!(format!("lex({}) = {}", esc(&shown), r))
        });
    }
    fn replay(&self, d: &Value, cx: &mut Ctx) {
        let input = match d["input"].as_str() {
            Some(s) => s.to_string(),
            None => return,
        };
        let kind = d["kind"].as_str().map(|s| s.to_string());
        if kind.as_deref() == Some("spelling-alone-is-not-its-table-type") {
            if let Some(i) = TABLE.iter().position(|(s, _)| *s == input) {
                let (s1, t1) = TABLE[i];
                if let Ok(Ok(toks)) = guard(|| lex(s1)) {
                    if !(toks.len() == 1 && toks[0].get_token_type() == t1 && toks[0].get_text() == s1) {
                        cx.violation("spelling-alone-is-not-its-table-type", &esc(s1), d.clone());
                    }
                }
            }
            return;
        }
        check_input(cx, &input, d["space"].as_str().unwrap_or("replay"), false, kind.as_deref());
    }
    fn meta(&self, tier: Tier) -> Meta {
        let full_len = tier.pick(4, 5);
        let core_len = tier.pick(6, 7);
        let layout_len = tier.pick(7, 8);
        Meta {
            rule: format!(
                "every string of length <= {} over the 43-symbol alphabet (one representative per lexer character class: 1 a _ : . space tab LF CR form-feed NUL \" ' \\ @ ` $ and the 23 operator constituents ? ! ~ < > = + - | & ^ # % * / ( ) {{ }} [ ] , ; plus the 2-byte letter e-acute, the 2-byte non-token character section-sign and a 4-byte emoji); every string of length {}..={} over the 14-symbol core (1 a . _ : space LF \" ' \\ @ + - section-sign); every string of length {}..={} over the 7-symbol layout alphabet (1 space tab LF CR \" @) not already in the core space; every string up to length 11 (thorough: 13) over the 4-symbol literal alphabet (a \" ' LF); every ordered pair of the 60 operator spellings tight, separated by a space, separated by a newline, and between an identifier and a number; each spelling alone. Each string is lexed by the real `lex`; Ok results are judged (lossless, non-empty, positions, operator spelling and longest match, class shape, blank-line separator), Err results are only counted. A case is non-trivial when `lex` returned Ok with at least two tokens; the enumerated strings are pairwise distinct by construction (overlaps between the spaces are skipped), so the count is of distinct cases.",
                full_len,
                full_len + 1,
                core_len,
                full_len + 1,
                layout_len
            ),
            assumptions: vec![
                "only Ok results are judged: the statement is conditional on `lex` succeeding; an Err is never a violation here, and a panic of `lex` is counted (lex_panic_not_judged) but left to the totality property".into(),
                "'a character that cannot start or continue any token makes lex fail' is checked through its consequence for Ok results: the character must be inside some token (lossless) and no token class admits it (class shape)".into(),
                "positions: line = number of LF before the token's first character, column = distance from the last LF counted in characters, bytes or UTF-16 units - whichever the lexer uses on the calibration input \"é😀\" 1, the same unit for every token of every input -, base 0 or base 1 accepted as long as one base is used for every token of the input; inputs containing CR or form feed are not judged for positions; inputs that are not lossless are not judged for positions".into(),
                "operator table = the 60 spellings handed to create_operator_tree in Lexer::new (transcribed); longest match for an operator token = no longer table spelling starts at the same character. A literal is only required not to be directly followed by a character of its own class (digit/letter/underscore after a number; identifier character after an identifier, symbol or suffix identifier); '.digits' after a value may be Period+Number or a float, both accepted (float/period rule)".into(),
                "class shapes are the widest the code admits: numbers = letters, digits, underscores and at most one period, starting with a digit or period; identifiers/symbols = letters, digits, '_' and ':'; char/byte lists = N quotes ... N quotes with N = 1 or N >= 3, or exactly two quotes; whitespace and sub-expression tokens = space, tab, LF, CR only; annotations = '@' + letters/digits/underscore; line annotations = '@@' up to and including one LF".into(),
                "blank line = a maximal run of space/tab/LF characters, outside char lists, byte lists and annotations, that contains at least two LF; it must contain the start of at least one Subexpression token. Runs broken by CR, or whose first LF ends a line annotation, are not judged. A Subexpression token where there is no blank line is not judged (statement silent)".into(),
                "characters are covered by one representative per lexer class; strings longer than the stated bounds are not covered; the 'random longer strings' clause of the quantifier is replaced by the longer reduced-alphabet spaces (no sampling)".into(),
            ],
            trusted_base: vec![
                "engine/src/props/c13.rs: TABLE (transcription of the operator table), shape_ok, judge".into(),
                "std str::find / char_indices for the alignment of token texts with the input".into(),
            ],
            explanation: "bounded-exhaustive enumeration of input strings through the real lexer; every successful result is compared with what the input itself dictates (concatenation, offsets, operator table, class shapes, blank-line runs); failing inputs are reduced to locally minimal witnesses which name the signature".into(),
        }
    }
}
