//! C15 - stored values read back unchanged, however the store grows.
//!
//! Explicit-state search over the real data objects against a reference model of independent growable
//! tables. Five parts (segments of the element index space):
//!
//! * `hist`     - BasicGarnishData: ALL histories up to the tier depth (quick 7; thorough 8, and 9 for four
//!                uniform configurations) over the 9-operation alphabet (push_instruction, push_to_jump_table,
//!                parse_add_symbol, push_to_expression_symbol_block, add_number, push_to_custom_data_block,
//!                push_register, push_value_stack, push_frame) for every storage configuration (initial sizes
//!                0/1/2, growth +1 / +2 / x2 where it can make progress); full read-back through the public
//!                getters after every transition; clone-per-transition DFS, no deduplication. At inner states
//!                the commuting pairs of operations are executed in both orders and the objects compared with
//!                `==` (path independence - a coverage counter, not a verdict).
//! * `lattice`  - BasicGarnishData: states merged by per-block element counts (6 operations, one per heap
//!                block). For every count vector with sum <= N (quick 14, thorough 22) the canonical
//!                representative is built, every outgoing transition executed and read back, and all 15
//!                operation pairs are compared in both orders.
//! * `periodic` - BasicGarnishData with the default settings (10, +10) and two small configurations: every
//!                word of length <= 3 (thorough 4) over the 9 operations repeated to a long history
//!                (deterministic stand-in for "random long histories with default settings").
//! * `simple`   - SimpleGarnishData: all histories over its 8 operations, same model and read-back.
//! * `intern`   - SimpleGarnishData: all add sequences over 18 near-equal constants interleaved with
//!                non-interned adds (pair, list, concatenation): equal constant => same address, different
//!                constant => different address, every address keeps reading back its value.
//!
//! A failing history is shrunk greedily (drop one operation at a time while the signature stays the same)
//! before it is reported; an element stops after FAIL_CAP failing transitions.

use crate::fw::{guard, panic_kind, Ctx, Meta, Property, Tier};
use crate::subj::{Host, SData, Subject};
use crate::val::{self, get, put, short_err, V, GD};
use garnish_lang_simple_data::{
    symbol_value, BasicData, BasicDataCompanion, BasicDataCustom, BasicGarnishData, DataError, ReallocationStrategy, SimpleDataType, SimpleGarnishData,
    SimpleNumber, StorageSettings,
};
use garnish_lang_traits::{GarnishData, GarnishDataType, Instruction};
use serde_json::{json, Value};
use std::cell::Cell;
use std::collections::BTreeMap;
use std::sync::OnceLock;

pub struct C15;

// ---------------------------------------------------------------------------------------------
// subjects: both implementations with a custom payload type so that custom data can vary

#[derive(Copy, Clone, PartialOrd, PartialEq, Eq, Debug, Hash)]
pub struct Cu(pub u32);
impl SimpleDataType for Cu {}
impl BasicDataCustom for Cu {}

#[derive(Clone, Debug, PartialEq, Eq, PartialOrd, Default)]
pub struct Co;
impl BasicDataCompanion<Cu> for Co {
    fn resolve(_: &mut BasicGarnishData<Cu, Self>, _: u64) -> Result<bool, DataError> {
        Ok(false)
    }
    fn apply(_: &mut BasicGarnishData<Cu, Self>, _: usize, _: usize) -> Result<bool, DataError> {
        Ok(false)
    }
    fn defer_op(_: &mut BasicGarnishData<Cu, Self>, _: Instruction, _: (GarnishDataType, usize), _: (GarnishDataType, usize)) -> Result<bool, DataError> {
        Ok(false)
    }
}

type BStore = BasicGarnishData<Cu, Co>;
type SStore = SimpleGarnishData<Cu, ()>;

#[derive(Clone, Copy, PartialEq, Eq, Debug)]
enum Table {
    Instr,
    Jump,
    Sym,
    SymName,
    RawSym,
    ExprSym,
    Val,
    Custom,
    Reg,
    Value,
    Frame,
}

impl Table {
    fn name(self) -> &'static str {
        match self {
            Table::Instr => "instructions",
            Table::Jump => "jump table",
            Table::Sym => "symbol values (parse_add_symbol)",
            Table::SymName => "symbol names (parse_add_symbol)",
            Table::RawSym => "symbol table block",
            Table::ExprSym => "expression symbols",
            Table::Val => "data values",
            Table::Custom => "custom data",
            Table::Reg => "registers",
            Table::Value => "value stack",
            Table::Frame => "frames",
        }
    }
}

trait Store: GD + Clone {
    const NAME: &'static str;
    fn st_sym_name(&self, sym: u64) -> Result<Option<String>, String>;
    fn st_push_raw_sym(&mut self, sym: u64, value: usize) -> Result<(), DataError>;
    fn st_raw_syms(&self) -> Result<Vec<(u64, usize)>, String>;
    fn st_push_exprsym(&mut self, sym: u64, value: usize) -> Result<(), DataError>;
    fn st_get_exprsym(&self, sym: u64) -> Result<Option<usize>, String>;
    fn st_push_custom(&mut self, c: Cu) -> Result<usize, DataError>;
    fn st_get_custom(&self, addr: usize) -> Option<Cu>;
    fn st_add_text(&mut self, s: &str) -> Result<usize, DataError>;
    /// total allocated capacity (0 when the implementation does not expose one)
    fn st_alloc(&self) -> usize;
    fn st_same(&self, o: &Self) -> bool;
    /// coarse label of the storage area a model table lives in (used in signatures)
    fn st_block(t: Table) -> &'static str;
    /// a fresh object (Basic: with the given storage configuration)
    fn st_root(cfg: Option<&Cfg>) -> Option<Self>;
}

impl Store for BStore {
    const NAME: &'static str = "basic";
    fn st_sym_name(&self, sym: u64) -> Result<Option<String>, String> {
        self.get_symbol_string(sym).map_err(|e| val::short_err(&e))
    }
    fn st_push_raw_sym(&mut self, sym: u64, value: usize) -> Result<(), DataError> {
        self.push_to_symbol_table_block(sym, value)
    }
    fn st_raw_syms(&self) -> Result<Vec<(u64, usize)>, String> {
        let mut out = vec![];
        for i in 0..self.symbol_table_size() {
            out.push(self.get_from_symbol_table_block_ensure_index(i).map_err(|e| val::short_err(&e))?);
        }
        Ok(out)
    }
    fn st_push_exprsym(&mut self, sym: u64, value: usize) -> Result<(), DataError> {
        self.push_to_expression_symbol_block(sym, value)
    }
    fn st_get_exprsym(&self, sym: u64) -> Result<Option<usize>, String> {
        self.get_symbol_expression(sym).map_err(|e| val::short_err(&e))
    }
    fn st_push_custom(&mut self, c: Cu) -> Result<usize, DataError> {
        self.push_to_custom_data_block(c)
    }
    fn st_get_custom(&self, addr: usize) -> Option<Cu> {
        self.get_from_custom_data_block(addr)
    }
    fn st_add_text(&mut self, s: &str) -> Result<usize, DataError> {
        let start = self.push_to_data_block(BasicData::CharList(s.chars().count()))?;
        for c in s.chars() {
            self.push_to_data_block(BasicData::Char(c))?;
        }
        Ok(start)
    }
    fn st_alloc(&self) -> usize {
        self.total_allocated_size()
    }
    fn st_same(&self, o: &Self) -> bool {
        self == o
    }
    fn st_block(t: Table) -> &'static str {
        match t {
            Table::Instr => "instruction block",
            Table::Jump => "jump table block",
            Table::RawSym | Table::SymName => "symbol table block",
            Table::ExprSym => "expression symbol block",
            Table::Custom => "custom data block",
            Table::Sym | Table::Val | Table::Reg | Table::Value | Table::Frame => "data block",
        }
    }
    fn st_root(cfg: Option<&Cfg>) -> Option<Self> {
        cfg.and_then(|c| c.make().ok())
    }
}

impl Store for SStore {
    const NAME: &'static str = "simple";
    fn st_sym_name(&self, sym: u64) -> Result<Option<String>, String> {
        Ok(self.get_symbols().get(&sym).cloned())
    }
    fn st_push_raw_sym(&mut self, _: u64, _: usize) -> Result<(), DataError> {
        Err(DataError::from("not part of the simple alphabet".to_string()))
    }
    fn st_raw_syms(&self) -> Result<Vec<(u64, usize)>, String> {
        Ok(vec![])
    }
    fn st_push_exprsym(&mut self, _: u64, _: usize) -> Result<(), DataError> {
        Err(DataError::from("not part of the simple alphabet".to_string()))
    }
    fn st_get_exprsym(&self, _: u64) -> Result<Option<usize>, String> {
        Ok(None)
    }
    fn st_push_custom(&mut self, c: Cu) -> Result<usize, DataError> {
        self.add_custom(c)
    }
    fn st_get_custom(&self, addr: usize) -> Option<Cu> {
        self.get_custom(addr).ok()
    }
    fn st_add_text(&mut self, s: &str) -> Result<usize, DataError> {
        self.start_char_list()?;
        for c in s.chars() {
            self.add_to_char_list(c)?;
        }
        self.end_char_list()
    }
    fn st_alloc(&self) -> usize {
        0
    }
    fn st_same(&self, _: &Self) -> bool {
        true
    }
    fn st_block(t: Table) -> &'static str {
        match t {
            Table::Instr => "instructions",
            Table::Jump => "jump table",
            Table::Sym | Table::SymName | Table::RawSym | Table::ExprSym => "symbols",
            Table::Val | Table::Custom => "data",
            Table::Reg => "registers",
            Table::Value => "value stack",
            Table::Frame => "frames",
        }
    }
    fn st_root(_: Option<&Cfg>) -> Option<Self> {
        Some(SimpleGarnishData::new_custom())
    }
}

// ---------------------------------------------------------------------------------------------
// storage configurations (Basic)

#[derive(Clone, Copy, PartialEq, Eq, Debug)]
enum Pol {
    F(usize),
    M(usize),
}

impl Pol {
    fn show(self) -> String {
        match self {
            Pol::F(n) => format!("+{}", n),
            Pol::M(n) => format!("x{}", n),
        }
    }
    fn parse(s: &str) -> Option<Pol> {
        let n: usize = s.get(1..)?.parse().ok()?;
        match s.as_bytes().first()? {
            b'+' => Some(Pol::F(n)),
            b'x' => Some(Pol::M(n)),
            _ => None,
        }
    }
    fn strategy(self) -> ReallocationStrategy {
        match self {
            Pol::F(n) => ReallocationStrategy::FixedSize(n),
            Pol::M(n) => ReallocationStrategy::Multiplicative(n),
        }
    }
}

/// blocks in heap order: instruction, jump table, symbol table, expression symbol, data, custom
#[derive(Clone, PartialEq, Eq, Debug)]
struct Cfg {
    default: bool,
    sizes: [usize; 6],
    pols: [Pol; 6],
}

impl Cfg {
    fn uniform(sizes: [usize; 6], p: Pol) -> Cfg {
        Cfg { default: false, sizes, pols: [p; 6] }
    }
    fn library_default() -> Cfg {
        Cfg { default: true, sizes: [10; 6], pols: [Pol::F(10); 6] }
    }
    /// "growth settings that can make progress": every block's next size is larger than its size
    fn makes_progress(&self) -> bool {
        (0..6).all(|i| match self.pols[i] {
            Pol::F(n) => n >= 1,
            Pol::M(k) => k >= 2 && self.sizes[i] >= 1,
        })
    }
    fn show(&self) -> String {
        if self.default {
            return "default settings (10, +10)".to_string();
        }
        let s: Vec<String> = self.sizes.iter().map(|x| x.to_string()).collect();
        let p: Vec<String> = self.pols.iter().map(|x| x.show()).collect();
        format!("sizes[{}] growth[{}]", s.join(","), p.join(","))
    }
    fn to_json(&self) -> Value {
        json!({"default": self.default, "sizes": self.sizes.to_vec(), "growth": self.pols.iter().map(|p| p.show()).collect::<Vec<_>>()})
    }
    fn from_json(v: &Value) -> Option<Cfg> {
        if v.get("default").and_then(|x| x.as_bool()) == Some(true) {
            return Some(Cfg::library_default());
        }
        let s = v.get("sizes")?.as_array()?;
        let g = v.get("growth")?.as_array()?;
        if s.len() != 6 || g.len() != 6 {
            return None;
        }
        let mut sizes = [0usize; 6];
        let mut pols = [Pol::F(1); 6];
        for i in 0..6 {
            sizes[i] = s[i].as_u64()? as usize;
            pols[i] = Pol::parse(g[i].as_str()?)?;
        }
        Some(Cfg { default: false, sizes, pols })
    }
    fn make(&self) -> Result<BStore, String> {
        let r = guard(|| {
            if self.default {
                BasicGarnishData::new(Co)
            } else {
                let s = |i: usize| StorageSettings::new(self.sizes[i], usize::MAX, self.pols[i].strategy());
                BasicGarnishData::new_with_settings(s(0), s(1), s(2), s(3), s(4), s(5), Co)
            }
        });
        match r {
            Err(p) => Err(format!("panic: {}", p)),
            Ok(Err(e)) => Err(val::short_err(&e)),
            Ok(Ok(d)) => Ok(d),
        }
    }
}

fn size_profiles() -> Vec<[usize; 6]> {
    let mut v = vec![[0; 6], [1; 6], [2; 6]];
    // the two blocks adjacent to the data block vary independently, the rest at 1
    for e in 0..3 {
        for c in 0..3 {
            if e == 1 && c == 1 {
                continue;
            }
            v.push([1, 1, 1, e, 1, c]);
        }
    }
    // the data block itself differs from its neighbours
    v.push([1, 1, 1, 1, 0, 1]);
    v.push([1, 1, 1, 1, 2, 1]);
    v
}

/// four uniform configurations (all blocks alike: 0/+1, 1/+1, 1/x2, 2/+2) are explored one level deeper in the thorough tier
fn is_core(c: &Cfg) -> bool {
    let uniform = !c.default && c.sizes.iter().all(|s| *s == c.sizes[0]) && c.pols.iter().all(|p| *p == c.pols[0]);
    uniform && matches!((c.sizes[0], c.pols[0]), (0, Pol::F(1)) | (1, Pol::F(1)) | (1, Pol::M(2)) | (2, Pol::F(2)))
}

fn hist_configs(tier: Tier) -> Vec<Cfg> {
    let mut out = vec![];
    for s in size_profiles() {
        for p in [Pol::F(1), Pol::F(2), Pol::M(2)] {
            out.push(Cfg::uniform(s, p));
        }
    }
    if tier == Tier::Thorough {
        // mixed policies: the data block grows differently from the others
        for s in [[1usize; 6], [2; 6]] {
            let mut a = Cfg::uniform(s, Pol::F(1));
            a.pols[4] = Pol::M(2);
            out.push(a);
            let mut b = Cfg::uniform(s, Pol::M(2));
            b.pols[4] = Pol::F(1);
            out.push(b);
            out.push(Cfg { default: false, sizes: s, pols: [Pol::F(1), Pol::F(2), Pol::M(2), Pol::F(1), Pol::F(2), Pol::M(2)] });
        }
    }
    out.retain(|c| c.makes_progress());
    out
}

fn lattice_configs(tier: Tier) -> Vec<Cfg> {
    let mut v = hist_configs(tier);
    v.push(Cfg::library_default());
    v
}

fn periodic_configs() -> Vec<Cfg> {
    vec![Cfg::library_default(), Cfg::uniform([1; 6], Pol::M(2)), Cfg::uniform([0; 6], Pol::F(1))]
}

// ---------------------------------------------------------------------------------------------
// operations, payloads, reference model

#[derive(Clone, Copy, PartialEq, Eq, Debug)]
enum Op {
    I,
    J,
    /// parse_add_symbol: symbol table + symbol value and name text in the data block
    Y,
    E,
    N,
    C,
    R,
    V,
    F,
    /// push_to_symbol_table_block directly (lattice alphabet: touches only the symbol table block)
    S,
    /// lattice alphabet: the m-th data operation is number / register / value / frame / text by m % 5
    D,
    T,
}

impl Op {
    fn name(self) -> &'static str {
        match self {
            Op::I => "push_instruction",
            Op::J => "push_to_jump_table",
            Op::Y => "parse_add_symbol",
            Op::E => "push_to_expression_symbol_block",
            Op::N => "add_number",
            Op::C => "push_custom",
            Op::R => "push_register",
            Op::V => "push_value_stack",
            Op::F => "push_frame",
            Op::S => "push_to_symbol_table_block",
            Op::D => "data-op",
            Op::T => "add_char_list",
        }
    }
    fn short(self) -> &'static str {
        match self {
            Op::I => "I",
            Op::J => "J",
            Op::Y => "Y",
            Op::E => "E",
            Op::N => "N",
            Op::C => "C",
            Op::R => "R",
            Op::V => "V",
            Op::F => "F",
            Op::S => "S",
            Op::D => "D",
            Op::T => "T",
        }
    }
    /// lands in the data block of BasicGarnishData (such operations do not commute with each other)
    fn is_data(self) -> bool {
        matches!(self, Op::Y | Op::N | Op::R | Op::V | Op::F | Op::D | Op::T)
    }
    fn table(self) -> Table {
        match self {
            Op::I => Table::Instr,
            Op::J => Table::Jump,
            Op::Y => Table::Sym,
            Op::E => Table::ExprSym,
            Op::N | Op::T | Op::D => Table::Val,
            Op::C => Table::Custom,
            Op::R => Table::Reg,
            Op::V => Table::Value,
            Op::F => Table::Frame,
            Op::S => Table::RawSym,
        }
    }
}

const HIST: [Op; 9] = [Op::I, Op::J, Op::Y, Op::E, Op::N, Op::C, Op::R, Op::V, Op::F];
const LATTICE: [Op; 6] = [Op::I, Op::J, Op::S, Op::E, Op::D, Op::C];
const SIMPLE: [Op; 8] = [Op::I, Op::J, Op::Y, Op::N, Op::C, Op::R, Op::V, Op::F];
const DATA_CYCLE: [Op; 5] = [Op::N, Op::R, Op::V, Op::F, Op::T];

fn alphabet(name: &str) -> Option<&'static [Op]> {
    match name {
        "hist" => Some(&HIST),
        "lattice" => Some(&LATTICE),
        "simple" => Some(&SIMPLE),
        _ => None,
    }
}

fn show_hist(alpha: &[Op], h: &[u8]) -> String {
    // run-length encoded so that long periodic histories stay readable
    let mut out: Vec<String> = vec![];
    let mut i = 0;
    while i < h.len() {
        let mut j = i;
        while j < h.len() && h[j] == h[i] {
            j += 1;
        }
        let s = alpha.get(h[i] as usize).map(|o| o.short()).unwrap_or("?");
        if j - i > 1 { out.push(format!("{}*{}", s, j - i)) } else { out.push(s.to_string()) }
        i = j;
    }
    out.join(" ")
}

#[derive(Clone, Debug)]
enum Entry {
    I(usize, Instruction, Option<usize>),
    J(usize, usize),
    /// (returned address, index of the name in family 0)
    Y(usize, usize),
    S(u64, usize),
    E(u64, usize),
    Val(usize, V),
    C(usize, u32),
    R(usize, usize),
    V(usize),
    F(usize),
}

#[derive(Clone, Debug)]
struct Ent {
    cycle: bool,
    e: Entry,
}

#[derive(Clone, Default)]
struct Model {
    instrs: Vec<(usize, Instruction, Option<usize>)>,
    jumps: Vec<(usize, usize)>,
    syms: Vec<(usize, usize)>,
    rawsyms: Vec<(u64, usize)>,
    exprsyms: Vec<(u64, usize)>,
    vals: Vec<(usize, V)>,
    customs: Vec<(usize, u32)>,
    regs: Vec<(usize, usize)>,
    values: Vec<usize>,
    frames: Vec<usize>,
    dcount: usize,
    log: Vec<(u8, bool)>,
}

impl Model {
    fn push(&mut self, ent: Ent) {
        let code = match ent.e {
            Entry::I(a, i, x) => {
                self.instrs.push((a, i, x));
                0
            }
            Entry::J(a, v) => {
                self.jumps.push((a, v));
                1
            }
            Entry::Y(a, n) => {
                self.syms.push((a, n));
                2
            }
            Entry::S(s, v) => {
                self.rawsyms.push((s, v));
                3
            }
            Entry::E(s, v) => {
                self.exprsyms.push((s, v));
                4
            }
            Entry::Val(a, v) => {
                self.vals.push((a, v));
                5
            }
            Entry::C(a, c) => {
                self.customs.push((a, c));
                6
            }
            Entry::R(i, v) => {
                self.regs.push((i, v));
                7
            }
            Entry::V(v) => {
                self.values.push(v);
                8
            }
            Entry::F(v) => {
                self.frames.push(v);
                9
            }
        };
        if ent.cycle {
            self.dcount += 1;
        }
        self.log.push((code, ent.cycle));
    }
    fn pop(&mut self) {
        if let Some((code, cycle)) = self.log.pop() {
            match code {
                0 => {
                    self.instrs.pop();
                }
                1 => {
                    self.jumps.pop();
                }
                2 => {
                    self.syms.pop();
                }
                3 => {
                    self.rawsyms.pop();
                }
                4 => {
                    self.exprsyms.pop();
                }
                5 => {
                    self.vals.pop();
                }
                6 => {
                    self.customs.pop();
                }
                7 => {
                    self.regs.pop();
                }
                8 => {
                    self.values.pop();
                }
                _ => {
                    self.frames.pop();
                }
            }
            if cycle {
                self.dcount -= 1;
            }
        }
    }
    fn total(&self) -> usize {
        self.log.len()
    }
    /// an address for a register / value-stack cell to refer to: an existing stored value when there is one
    fn target(&self, k: usize) -> usize {
        let n = self.vals.len() + self.syms.len();
        if n == 0 {
            return k % 3; // unit / false / true in SimpleGarnishData, unchecked in BasicGarnishData
        }
        let j = k % n;
        if j < self.vals.len() { self.vals[j].0 } else { self.syms[j - self.vals.len()].0 }
    }
}

fn instr_payload(k: usize) -> (Instruction, Option<usize>) {
    let ins = [Instruction::Put, Instruction::Add, Instruction::JumpIfTrue, Instruction::EndExpression, Instruction::Apply][k % 5];
    (ins, if k % 2 == 0 { Some(3000 + k) } else { None })
}

fn sym_text(k: usize) -> String {
    // every third name holds multi-byte characters (byte length differs from character count)
    if k % 3 == 2 { format!("sé€{}", k) } else if k % 2 == 0 { format!("s{}", k) } else { format!("sym{}", k) }
}

/// (name, symbol value) of the k-th symbol of a family: 0 = parse_add_symbol names, 1 = raw symbol table, 2 = expression symbols
fn sym_of(family: usize, k: usize) -> (&'static str, u64) {
    static T: OnceLock<Vec<Vec<(String, u64)>>> = OnceLock::new();
    let t = T.get_or_init(|| {
        (0..3)
            .map(|f| {
                (0..1024)
                    .map(|k| {
                        let n = match f {
                            0 => sym_text(k),
                            1 => format!("r{}", k),
                            _ => format!("e{}", k),
                        };
                        let v = symbol_value(&n);
                        (n, v)
                    })
                    .collect()
            })
            .collect()
    });
    let e = &t[family][k % 1024];
    (e.0.as_str(), e.1)
}

fn num_payload(k: usize) -> SimpleNumber {
    if k % 2 == 0 { SimpleNumber::Integer(100 + k as i32) } else { SimpleNumber::Float(k as f64 + 0.5) }
}

#[derive(Clone, Debug)]
struct Fail {
    class: String,
    table: Table,
    what: String,
    expected: String,
    got: String,
}

impl Fail {
    fn push_err(t: Table, op: Op, e: &DataError) -> Fail {
        Fail { class: "push-err".into(), table: t, what: format!("{} returned Err", op.name()), expected: "Ok".into(), got: val::short_err(e) }
    }
    fn mismatch(t: Table, what: String, expected: String, got: String) -> Fail {
        let class = if got.contains("err:") || got.starts_with("Err") { "readback-err" } else { "readback-mismatch" };
        Fail { class: class.into(), table: t, what, expected, got }
    }
}

/// Execute one operation on the real object; returns the model entry (the model itself is not touched).
fn apply<D: Store>(d: &mut D, m: &Model, op: Op) -> Result<Ent, Fail> {
    let plain = |e: Entry| Ent { cycle: false, e };
    Ok(match op {
        Op::I => {
            let (ins, x) = instr_payload(m.instrs.len());
            let a = d.push_instruction(ins, x).map_err(|e| Fail::push_err(Table::Instr, op, &e))?;
            plain(Entry::I(a, ins, x))
        }
        Op::J => {
            // push_to_jump_table returns nothing: the entry's address is the table length before the push
            // (the convention the bytecode builder relies on)
            let a = d.get_jump_table_len();
            let v = 1000 + 7 * m.jumps.len();
            d.push_to_jump_table(v).map_err(|e| Fail::push_err(Table::Jump, op, &e))?;
            plain(Entry::J(a, v))
        }
        Op::Y => {
            let k = m.syms.len();
            let a = d.parse_add_symbol(sym_of(0, k).0).map_err(|e| Fail::push_err(Table::Sym, op, &e))?;
            plain(Entry::Y(a, k))
        }
        Op::S => {
            let k = m.rawsyms.len();
            let s = sym_of(1, k).1;
            let v = 40 + k;
            d.st_push_raw_sym(s, v).map_err(|e| Fail::push_err(Table::RawSym, op, &e))?;
            plain(Entry::S(s, v))
        }
        Op::E => {
            let k = m.exprsyms.len();
            let s = sym_of(2, k).1;
            let v = 500 + k;
            d.st_push_exprsym(s, v).map_err(|e| Fail::push_err(Table::ExprSym, op, &e))?;
            plain(Entry::E(s, v))
        }
        Op::N => {
            let n = num_payload(m.vals.len());
            let a = d.add_number(n).map_err(|e| Fail::push_err(Table::Val, op, &e))?;
            plain(Entry::Val(a, val::num_to_v(n)))
        }
        Op::T => {
            let t = format!("t{}", m.vals.len());
            let a = d.st_add_text(&t).map_err(|e| Fail::push_err(Table::Val, op, &e))?;
            plain(Entry::Val(a, V::str(&t)))
        }
        Op::C => {
            let c = 9000 + m.customs.len() as u32;
            let a = d.st_push_custom(Cu(c)).map_err(|e| Fail::push_err(Table::Custom, op, &e))?;
            plain(Entry::C(a, c))
        }
        Op::R => {
            // push_register returns nothing: the register's index is the register count before the push
            let i = d.get_register_len();
            let v = m.target(m.regs.len());
            d.push_register(v).map_err(|e| Fail::push_err(Table::Reg, op, &e))?;
            plain(Entry::R(i, v))
        }
        Op::V => {
            let v = m.target(m.values.len() + 1);
            d.push_value_stack(v).map_err(|e| Fail::push_err(Table::Value, op, &e))?;
            plain(Entry::V(v))
        }
        Op::F => {
            let v = 200 + m.frames.len();
            d.push_frame(v).map_err(|e| Fail::push_err(Table::Frame, op, &e))?;
            plain(Entry::F(v))
        }
        Op::D => {
            let sub = DATA_CYCLE[m.dcount % DATA_CYCLE.len()];
            let mut e = apply(d, m, sub)?;
            e.cycle = true;
            e
        }
    })
}

/// Every element of every model table reads back equal at its address through the public getters.
fn check<D: Store>(d: &D, m: &Model, cur: &Cell<Table>) -> Result<(), Fail> {
    cur.set(Table::Instr);
    for (a, ins, x) in &m.instrs {
        let got = d.get_instruction(*a);
        if got != Some((*ins, *x)) {
            return Err(Fail::mismatch(Table::Instr, format!("get_instruction({})", a), format!("{:?}", Some((ins, x))), format!("{:?}", got)));
        }
    }
    cur.set(Table::Jump);
    for (a, v) in &m.jumps {
        let got = d.get_from_jump_table(*a);
        if got != Some(*v) {
            return Err(Fail::mismatch(Table::Jump, format!("get_from_jump_table({})", a), format!("{:?}", Some(v)), format!("{:?}", got)));
        }
    }
    cur.set(Table::Sym);
    for (a, k) in &m.syms {
        let (name, sv) = sym_of(0, *k);
        let want = V::Sym(sv);
        let got = val::get(d, *a);
        if got != want {
            return Err(Fail::mismatch(Table::Sym, format!("symbol value of {:?} at address {}", name, a), want.show(), got.show()));
        }
        cur.set(Table::SymName);
        let s = d.st_sym_name(sv);
        cur.set(Table::Sym);
        if !matches!(&s, Ok(Some(x)) if x == name) {
            return Err(Fail::mismatch(Table::SymName, format!("name of symbol {:?}", name), format!("{:?}", name), format!("{:?}", s)));
        }
    }
    if !m.rawsyms.is_empty() && m.syms.is_empty() {
        cur.set(Table::RawSym);
        let mut want = m.rawsyms.clone();
        want.sort();
        match d.st_raw_syms() {
            Ok(mut got) => {
                got.sort();
                if got != want {
                    return Err(Fail::mismatch(Table::RawSym, "entries of the symbol table block".into(), format!("{:?}", want), format!("{:?}", got)));
                }
            }
            Err(e) => return Err(Fail::mismatch(Table::RawSym, "entries of the symbol table block".into(), format!("{:?}", want), format!("Err({})", e))),
        }
    }
    cur.set(Table::ExprSym);
    for (s, v) in &m.exprsyms {
        let got = d.st_get_exprsym(*s);
        if got != Ok(Some(*v)) {
            return Err(Fail::mismatch(Table::ExprSym, format!("get_symbol_expression({:x})", s), format!("{:?}", Some(v)), format!("{:?}", got)));
        }
    }
    cur.set(Table::Val);
    for (a, v) in &m.vals {
        let got = val::get(d, *a);
        if got != *v {
            return Err(Fail::mismatch(Table::Val, format!("value at address {}", a), v.show(), got.show()));
        }
    }
    cur.set(Table::Custom);
    for (a, c) in &m.customs {
        let got = d.st_get_custom(*a);
        if got != Some(Cu(*c)) {
            return Err(Fail::mismatch(Table::Custom, format!("custom value at {}", a), format!("{:?}", Some(Cu(*c))), format!("{:?}", got)));
        }
    }
    cur.set(Table::Reg);
    for (i, v) in &m.regs {
        let got = d.get_register(*i);
        if got != Some(*v) {
            return Err(Fail::mismatch(Table::Reg, format!("get_register({})", i), format!("{:?}", Some(v)), format!("{:?}", got)));
        }
    }
    cur.set(Table::Value);
    if let Some(top) = m.values.last() {
        let got = d.get_current_value();
        if got != Some(*top) {
            return Err(Fail::mismatch(Table::Value, "get_current_value()".into(), format!("{:?}", Some(top)), format!("{:?}", got)));
        }
    }
    if m.values.len() >= 2 || !m.frames.is_empty() {
        // deeper stack cells are only readable by popping: done on a clone
        let mut c = d.clone();
        for (depth, v) in m.values.iter().rev().enumerate() {
            let got = c.pop_value_stack();
            if got != Some(*v) {
                return Err(Fail::mismatch(Table::Value, format!("pop_value_stack() #{} on a clone", depth + 1), format!("{:?}", Some(v)), format!("{:?}", got)));
            }
        }
        cur.set(Table::Frame);
        for (depth, v) in m.frames.iter().rev().enumerate() {
            let got = c.pop_frame();
            match got {
                Ok(Some(x)) if x == *v => {}
                Ok(o) => return Err(Fail::mismatch(Table::Frame, format!("pop_frame() #{} on a clone", depth + 1), format!("{:?}", Some(v)), format!("{:?}", o))),
                Err(e) => {
                    return Err(Fail::mismatch(Table::Frame, format!("pop_frame() #{} on a clone", depth + 1), format!("{:?}", Some(v)), format!("Err({})", val::short_err(&e))))
                }
            }
        }
    }
    Ok(())
}

/// Panic text -> stable short kind: first line only (a DataError's Debug form may carry a backtrace), 90 chars, digits folded.
fn short_panic(p: &str) -> String {
    let (msg, loc) = p.rsplit_once(" @ ").unwrap_or((p, ""));
    let first: String = msg.lines().next().unwrap_or("").chars().take(90).collect();
    panic_kind(&format!("{} @ {}", first.trim_end(), loc))
}

/// DataError captures a backtrace when RUST_BACKTRACE is set, which makes every error value slow and its
/// Debug text environment dependent; switch library backtraces off for this worker process.
fn quiet_backtraces() {
    static ONCE: std::sync::Once = std::sync::Once::new();
    ONCE.call_once(|| unsafe { std::env::set_var("RUST_LIB_BACKTRACE", "0") });
}

/// clone + operation + full read-back, all guarded. The model is left unchanged.
fn step<D: Store>(d: &D, m: &mut Model, op: Op) -> Result<(D, Ent), Fail> {
    let stage = Cell::new(0u8);
    let cur = Cell::new(op.table());
    let pushed = Cell::new(false);
    let r = guard(|| -> Result<(D, Ent), Fail> {
        let mut c = d.clone();
        stage.set(1);
        let ent = apply(&mut c, m, op)?;
        stage.set(2);
        m.push(ent.clone());
        pushed.set(true);
        check(&c, m, &cur)?;
        Ok((c, ent))
    });
    if pushed.get() {
        m.pop();
    }
    match r {
        Ok(x) => x,
        Err(p) => {
            let st = ["clone", "push", "readback"][stage.get() as usize];
            Err(Fail {
                class: format!("{}-panic[{}]", st, short_panic(&p)),
                table: cur.get(),
                what: format!("{} during {}", st, op.name()),
                expected: "no panic".into(),
                got: p.lines().next().unwrap_or("").chars().take(300).collect(),
            })
        }
    }
}

/// clone + operation without read-back (used for the commutation diamonds and for building roots)
fn quiet<D: Store>(d: &D, m: &Model, op: Op) -> Option<(D, Ent)> {
    guard(|| {
        let mut c = d.clone();
        apply(&mut c, m, op).ok().map(|e| (c, e))
    })
    .ok()
    .flatten()
}

#[derive(Default)]
struct Stats {
    states: u64,
    transitions: u64,
    growth: u64,
    diamonds: u64,
    diamond_mismatch: u64,
    fails: u64,
}

/// an element stops exploring after this many failing transitions (keeps a badly broken tree fast)
const FAIL_CAP: u64 = 100;

struct Found {
    kind: String,
    witness: String,
    detail: Value,
    count: u64,
}

struct Walk {
    part: &'static str,
    alpha_name: &'static str,
    alphabet: &'static [Op],
    cfg: Option<Cfg>,
    /// compare commuting pairs at states with at least this many levels left (0 = never)
    diamond: usize,
    stats: Stats,
    found: BTreeMap<String, Found>,
    mismatch_sample: Option<Value>,
}

impl Walk {
    fn new(part: &'static str, alpha_name: &'static str, cfg: Option<Cfg>, diamond: usize) -> Walk {
        Walk { part, alpha_name, alphabet: alphabet(alpha_name).unwrap(), cfg, diamond, stats: Stats::default(), found: BTreeMap::new(), mismatch_sample: None }
    }
    fn cfg_show(&self) -> String {
        self.cfg.as_ref().map(|c| c.show()).unwrap_or_else(|| "-".into())
    }
    fn sig_of<D: Store>(f: &Fail) -> (String, String) {
        (f.class.clone(), format!("{}: {}", D::NAME, D::st_block(f.table)))
    }
    /// first failing step of a fixed history on a fresh object
    fn first_failure<D: Store>(&self, hist: &[u8]) -> Option<(Fail, usize)> {
        let mut d = D::st_root(self.cfg.as_ref())?;
        let mut m = Model::default();
        for (j, &oi) in hist.iter().enumerate() {
            let op = *self.alphabet.get(oi as usize)?;
            match step(&d, &mut m, op) {
                Ok((c, ent)) => {
                    m.push(ent);
                    d = c;
                }
                Err(f) => return Some((f, j)),
            }
        }
        None
    }
    /// greedy one-operation-at-a-time shrinking that keeps the signature
    fn minimise<D: Store>(&self, f: &Fail, hist: &[u8]) -> (Fail, Vec<u8>) {
        let want = Self::sig_of::<D>(f);
        let mut best_f = f.clone();
        let mut best: Vec<u8> = hist.to_vec();
        if best.len() > 40 {
            return (best_f, best);
        }
        let mut changed = true;
        while changed {
            changed = false;
            let mut i = 0;
            while i < best.len() {
                let mut cand = best.clone();
                cand.remove(i);
                match self.first_failure::<D>(&cand) {
                    Some((cf, j)) if Self::sig_of::<D>(&cf) == want => {
                        cand.truncate(j + 1);
                        best = cand;
                        best_f = cf;
                        changed = true;
                    }
                    _ => i += 1,
                }
            }
        }
        (best_f, best)
    }
    fn report<D: Store>(&mut self, f: &Fail, hist: &[u8], _op: Op) {
        self.stats.fails += 1;
        let (kind, witness) = Self::sig_of::<D>(f);
        let sig = format!("{} :: {}", kind, witness);
        if let Some(old) = self.found.get_mut(&sig) {
            old.count += 1;
            return;
        }
        let (f, hist) = self.minimise::<D>(f, hist);
        let op = hist.last().and_then(|o| self.alphabet.get(*o as usize)).map(|o| o.name()).unwrap_or("-");
        let detail = json!({
            "part": self.part, "impl": D::NAME, "alphabet": self.alpha_name,
            "config": self.cfg.as_ref().map(|c| c.to_json()),
            "history": hist.clone(),
            "shown": format!("{} [{}] history: {}", D::NAME, self.cfg_show(), show_hist(self.alphabet, &hist)),
            "table": f.table.name(), "last_op": op, "what": f.what,
            "expected": f.expected, "got": f.got,
        });
        self.found.insert(sig, Found { kind, witness, detail, count: 1 });
    }
    fn flush(&mut self, cx: &mut Ctx) {
        for (_, f) in std::mem::take(&mut self.found) {
            cx.violation(&f.kind, &f.witness, f.detail);
            for _ in 1..f.count.min(10_000) {
                cx.violation(&f.kind, &f.witness, Value::Null);
            }
        }
        let s = &self.stats;
        cx.count("states", s.states);
        cx.count("transitions", s.transitions);
        cx.count("traces_validated", s.transitions);
        cx.count("evaluations", s.transitions);
        cx.count("nontrivial", s.growth);
        cx.count(&format!("{}_states", self.part), s.states);
        cx.count(&format!("{}_transitions", self.part), s.transitions);
        if s.diamonds > 0 {
            cx.count("path_independence_comparisons", s.diamonds);
        }
        if s.diamond_mismatch > 0 {
            cx.count("path_independence_mismatches", s.diamond_mismatch);
            if let Some(v) = self.mismatch_sample.take() {
                cx.sample(v);
            }
        }
        self.stats = Stats::default();
    }
}

/// All outgoing transitions of (d, m) are executed and checked; recursion into every successful child
/// (`canon == None`) or only into the canonical ones (operation index >= canon; merged-state search).
fn explore<D: Store>(w: &mut Walk, d: &D, m: &mut Model, hist: &mut Vec<u8>, left: usize, canon: Option<usize>) {
    if left == 0 || w.stats.fails >= FAIL_CAP {
        return;
    }
    let n = w.alphabet.len();
    let before = d.st_alloc();
    let nonempty = m.total() > 0;
    let mut kids: Vec<Option<(D, Ent)>> = Vec::with_capacity(n);
    for oi in 0..n {
        let op = w.alphabet[oi];
        hist.push(oi as u8);
        w.stats.transitions += 1;
        match step(d, m, op) {
            Ok((c, ent)) => {
                if nonempty && (c.st_alloc() != before || before == 0) {
                    w.stats.growth += 1;
                }
                if canon.map_or(true, |cf| oi >= cf) {
                    w.stats.states += 1;
                }
                kids.push(Some((c, ent)));
            }
            Err(f) => {
                w.report::<D>(&f, hist, op);
                kids.push(None);
            }
        }
        hist.pop();
    }
    if w.diamond >= 2 && left >= w.diamond {
        for a in 0..n {
            for b in a + 1..n {
                let (oa, ob) = (w.alphabet[a], w.alphabet[b]);
                if oa.is_data() && ob.is_data() {
                    continue;
                }
                if let (Some((ca, _)), Some((cb, _))) = (&kids[a], &kids[b]) {
                    // payloads of commuting operations do not depend on each other's model entry
                    if let (Some((x, _)), Some((y, _))) = (quiet(ca, m, ob), quiet(cb, m, oa)) {
                        w.stats.diamonds += 1;
                        if !x.st_same(&y) {
                            w.stats.diamond_mismatch += 1;
                            if w.mismatch_sample.is_none() {
                                w.mismatch_sample = Some(json!(format!(
                                    "path-independence mismatch: {} [{}] after {}: {} then {} != {} then {}",
                                    D::NAME, w.cfg_show(), show_hist(w.alphabet, hist), oa.short(), ob.short(), ob.short(), oa.short()
                                )));
                            }
                        }
                    }
                }
            }
        }
    }
    if left < 2 {
        return;
    }
    for oi in 0..n {
        if let Some(cf) = canon {
            if oi < cf {
                continue;
            }
        }
        if w.stats.fails >= FAIL_CAP {
            return;
        }
        if let Some((c, ent)) = kids[oi].take() {
            m.push(ent);
            hist.push(oi as u8);
            explore(w, &c, m, hist, left - 1, canon.map(|_| oi));
            hist.pop();
            m.pop();
        }
    }
}

/// Run a fixed history with a check after every step. `owner(j)` says whether step j is counted/reported here.
fn run_prefix<D: Store>(w: &mut Walk, root: D, prefix: &[u8], owner: impl Fn(usize) -> bool) -> Option<(D, Model, Vec<u8>)> {
    let mut m = Model::default();
    let mut d = root;
    let mut hist: Vec<u8> = vec![];
    for (j, &oi) in prefix.iter().enumerate() {
        let op = *w.alphabet.get(oi as usize)?;
        hist.push(oi);
        let own = owner(j);
        let before = d.st_alloc();
        if own {
            w.stats.transitions += 1;
        }
        match step(&d, &mut m, op) {
            Ok((c, ent)) => {
                if own {
                    w.stats.states += 1;
                    if m.total() > 0 && (c.st_alloc() != before || before == 0) {
                        w.stats.growth += 1;
                    }
                }
                m.push(ent);
                d = c;
            }
            Err(f) => {
                if own {
                    w.report::<D>(&f, &hist, op);
                }
                return None;
            }
        }
    }
    Some((d, m, hist))
}

fn decode(mut code: u64, base: u64, len: usize) -> Vec<u8> {
    let mut v = vec![0u8; len];
    for i in (0..len).rev() {
        v[i] = (code % base) as u8;
        code /= base;
    }
    v
}

// ---------------------------------------------------------------------------------------------
// interning part (SimpleGarnishData)

#[derive(Clone, Copy, Debug, PartialEq)]
enum K {
    Unit,
    True,
    Int(i32),
    Float(f64),
    Char(char),
    Byte(u8),
    Str(&'static str),
    Bytes(&'static [u8]),
    Sym(&'static str),
    Expr(usize),
    Ext(usize),
    Type(GarnishDataType),
}

const CONSTS: [K; 18] = [
    K::Unit,
    K::True,
    K::Int(1),
    K::Float(1.0),
    K::Int(0),
    K::Float(0.0),
    K::Float(-0.0),
    K::Char('a'),
    K::Str("a"),
    K::Sym("a"),
    K::Expr(1),
    K::Ext(1),
    K::Byte(1),
    K::Bytes(&[1]),
    K::Type(GarnishDataType::Number),
    K::Type(GarnishDataType::Char),
    K::Byte(97),
    K::Int(97),
];
/// non-interned adds: pair, list, concatenation of the two most recent values
const N_EXTRA: usize = 3;
const INTERN_OPS: usize = CONSTS.len() + N_EXTRA;

impl K {
    fn v(self) -> V {
        match self {
            K::Unit => V::Unit,
            K::True => V::True,
            K::Int(i) => V::Int(i),
            K::Float(f) => V::Float(f),
            K::Char(c) => V::Char(c),
            K::Byte(b) => V::Byte(b),
            K::Str(s) => V::str(s),
            K::Bytes(b) => V::Bytes(b.to_vec()),
            K::Sym(s) => V::Sym(symbol_value(s)),
            K::Expr(n) => V::Expr(n),
            K::Ext(n) => V::External(n),
            K::Type(t) => V::Type(t),
        }
    }
    fn class(self) -> &'static str {
        match self {
            K::Unit => "Unit",
            K::True => "True",
            K::Int(_) => "Number(integer)",
            K::Float(_) => "Number(float)",
            K::Char(_) => "Char",
            K::Byte(_) => "Byte",
            K::Str(_) => "CharList",
            K::Bytes(_) => "ByteList",
            K::Sym(_) => "Symbol",
            K::Expr(_) => "Expression",
            K::Ext(_) => "External",
            K::Type(_) => "Type",
        }
    }
    fn show(self) -> String {
        match self {
            K::Expr(n) => format!("expression({})", n),
            K::Sym(s) => format!("symbol({})", s),
            k => k.v().show(),
        }
    }
    /// scalar constants must be interned; for char/byte lists the statement is read leniently
    fn strict(self) -> bool {
        !matches!(self, K::Str(_) | K::Bytes(_))
    }
    fn is_float_zero(self) -> bool {
        matches!(self, K::Float(f) if f == 0.0)
    }
}

fn intern_op_name(oi: usize) -> String {
    if oi < CONSTS.len() { CONSTS[oi].show() } else { ["pair", "list", "concatenation"][oi - CONSTS.len()].to_string() }
}

fn show_intern_hist(h: &[u8]) -> String {
    h.iter().map(|o| intern_op_name(*o as usize)).collect::<Vec<_>>().join(", ")
}

#[derive(Clone, Default)]
struct IModel {
    /// (address, expected value, Some(constant index) for interned constants)
    entries: Vec<(usize, V, Option<usize>)>,
}

struct IFail {
    kind: String,
    witness: String,
    what: String,
    expected: String,
    got: String,
}

fn expr_eq(v: &V, d: &SData, a: usize) -> bool {
    // val's V compares expressions as "some expression"; here the table index matters
    match v {
        V::Expr(n) => d.get_expression(a).ok() == Some(*n),
        _ => true,
    }
}

fn intern_step(d: &mut SData, m: &mut IModel, oi: usize) -> Result<(), IFail> {
    let last2 = |m: &IModel| -> ((usize, V), (usize, V)) {
        let n = m.entries.len();
        let g = |i: usize| if i < n { (m.entries[n - 1 - i].0, m.entries[n - 1 - i].1.clone()) } else { (0usize, V::Unit) };
        (g(1), g(0))
    };
    let err = |w: String, e: &DataError| IFail { kind: "push-err".into(), witness: format!("simple: {}", w), what: "add returned Err".into(), expected: "Ok".into(), got: val::short_err(e) };
    if oi < CONSTS.len() {
        let k = CONSTS[oi];
        let v = k.v();
        let a = val::put(d, &v).map_err(|e| err(k.class().to_string(), &e))?;
        let prev = m.entries.iter().find(|e| e.2 == Some(oi)).map(|e| e.0);
        if let Some(p) = prev {
            if a == p {
                // equal constant, same address
            } else if k.strict() {
                return Err(IFail {
                    kind: "equal-constant-new-address".into(),
                    witness: format!("simple: {}", k.class()),
                    what: format!("adding {} again", k.show()),
                    expected: format!("address {}", p),
                    got: format!("address {}", a),
                });
            }
        }
        if prev != Some(a) {
            // a new address: it must not be the address of a different value
            for (ea, ev, ek) in &m.entries {
                if *ea != a {
                    continue;
                }
                let same_zero = ek.map_or(false, |j| CONSTS[j].is_float_zero()) && k.is_float_zero();
                if *ek == Some(oi) || same_zero {
                    continue;
                }
                let other = ek.map(|j| CONSTS[j].class().to_string()).unwrap_or_else(|| format!("{:?}", ev.type_of()));
                let mut pair = [k.class().to_string(), other];
                pair.sort();
                return Err(IFail {
                    kind: "different-constant-same-address".into(),
                    witness: format!("simple: {} / {}", pair[0], pair[1]),
                    what: format!("adding {} while address {} holds {}", k.show(), a, ev.show()),
                    expected: "a different address".into(),
                    got: format!("address {}", a),
                });
            }
            m.entries.push((a, v, Some(oi)));
        }
    } else {
        let ((a1, v1), (a2, v2)) = last2(m);
        let (a, v, name) = match oi - CONSTS.len() {
            0 => (d.add_pair((a1, a2)), V::Pair(Box::new(v1), Box::new(v2)), "Pair"),
            1 => (val::put_list(d, &[a1, a2]), V::List(vec![v1, v2]), "List"),
            _ => (d.add_concatenation(a1, a2), V::Concat(Box::new(v1), Box::new(v2)), "Concatenation"),
        };
        let a = a.map_err(|e| err(name.to_string(), &e))?;
        m.entries.push((a, v, None));
    }
    for (a, v, k) in &m.entries {
        let got = val::get(d, *a);
        if got != *v || !expr_eq(v, d, *a) {
            let class = k.map(|j| CONSTS[j].class().to_string()).unwrap_or_else(|| format!("{:?}", v.type_of()));
            return Err(IFail {
                kind: if got.show().contains("err:") { "readback-err".into() } else { "readback-mismatch".into() },
                witness: format!("simple: data ({})", class),
                what: format!("value at address {}", a),
                expected: v.show(),
                got: got.show(),
            });
        }
    }
    Ok(())
}

struct IWalk {
    stats: Stats,
    found: BTreeMap<String, Found>,
}

fn first_intern_failure(hist: &[u8]) -> Option<(IFail, usize)> {
    let mut d = <SData as Subject>::fresh(Host::none());
    let mut m = IModel::default();
    for (j, &oi) in hist.iter().enumerate() {
        if oi as usize >= INTERN_OPS {
            return None;
        }
        let r = guard(|| intern_step(&mut d, &mut m, oi as usize));
        match r {
            Ok(Ok(())) => {}
            Ok(Err(f)) => return Some((f, j)),
            Err(p) => {
                return Some((
                    IFail { kind: format!("panic[{}]", short_panic(&p)), witness: format!("simple: {}", intern_op_name(oi as usize)), what: "add or read-back panicked".into(), expected: "no panic".into(), got: p },
                    j,
                ))
            }
        }
    }
    None
}

impl IWalk {
    fn report(&mut self, f: IFail, hist: &[u8]) {
        self.stats.fails += 1;
        let sig = format!("{} :: {}", f.kind, f.witness);
        if let Some(old) = self.found.get_mut(&sig) {
            old.count += 1;
            return;
        }
        // greedy shrinking that keeps the signature
        let mut best: Vec<u8> = hist.to_vec();
        let mut f = f;
        let mut changed = true;
        while changed {
            changed = false;
            let mut i = 0;
            while i < best.len() {
                let mut cand = best.clone();
                cand.remove(i);
                match first_intern_failure(&cand) {
                    Some((cf, j)) if format!("{} :: {}", cf.kind, cf.witness) == sig => {
                        cand.truncate(j + 1);
                        best = cand;
                        f = cf;
                        changed = true;
                    }
                    _ => i += 1,
                }
            }
        }
        let detail = json!({"part": "intern", "impl": "simple", "history": best.clone(), "shown": format!("simple, adds in order: {}", show_intern_hist(&best)),
            "what": f.what, "expected": f.expected, "got": f.got});
        self.found.insert(sig, Found { kind: f.kind, witness: f.witness, detail, count: 1 });
    }
    fn guarded_step(&mut self, d: &SData, m: &IModel, oi: usize, hist: &[u8]) -> Option<(SData, IModel)> {
        self.stats.transitions += 1;
        let r = guard(|| {
            let mut c = d.clone();
            let mut cm = m.clone();
            intern_step(&mut c, &mut cm, oi).map(|_| (c, cm))
        });
        match r {
            Ok(Ok(x)) => {
                self.stats.states += 1;
                if m.entries.iter().any(|e| e.2 == Some(oi)) {
                    self.stats.growth += 1; // re-adding a constant that is already stored
                }
                Some(x)
            }
            Ok(Err(f)) => {
                self.report(f, hist);
                None
            }
            Err(p) => {
                self.report(
                    IFail { kind: format!("panic[{}]", short_panic(&p)), witness: format!("simple: {}", intern_op_name(oi)), what: "add or read-back panicked".into(), expected: "no panic".into(), got: p },
                    hist,
                );
                None
            }
        }
    }
    fn explore(&mut self, d: &SData, m: &IModel, hist: &mut Vec<u8>, left: usize) {
        if left == 0 {
            return;
        }
        for oi in 0..INTERN_OPS {
            if self.stats.fails >= FAIL_CAP {
                return;
            }
            hist.push(oi as u8);
            if let Some((c, cm)) = self.guarded_step(d, m, oi, hist) {
                self.explore(&c, &cm, hist, left - 1);
            }
            hist.pop();
        }
    }
    fn flush(&mut self, cx: &mut Ctx) {
        for (_, f) in std::mem::take(&mut self.found) {
            cx.violation(&f.kind, &f.witness, f.detail);
            for _ in 1..f.count.min(10_000) {
                cx.violation(&f.kind, &f.witness, Value::Null);
            }
        }
        let s = &self.stats;
        cx.count("states", s.states);
        cx.count("transitions", s.transitions);
        cx.count("traces_validated", s.transitions);
        cx.count("evaluations", s.transitions);
        cx.count("nontrivial", s.growth);
        cx.count("intern_states", s.states);
        cx.count("intern_transitions", s.transitions);
        self.stats = Stats::default();
    }
}

fn run_intern(prefix: &[u8], depth: usize, owner: impl Fn(usize) -> bool, cx: &mut Ctx) {
    let mut w = IWalk { stats: Stats::default(), found: BTreeMap::new() };
    // steps of the prefix owned by another element are executed with a throw-away recorder
    let mut scratch = IWalk { stats: Stats::default(), found: BTreeMap::new() };
    let mut d = <SData as Subject>::fresh(Host::none());
    let mut m = IModel::default();
    let mut hist: Vec<u8> = vec![];
    for (j, &oi) in prefix.iter().enumerate() {
        if oi as usize >= INTERN_OPS {
            return;
        }
        hist.push(oi);
        let rec = if owner(j) { &mut w } else { &mut scratch };
        match rec.guarded_step(&d, &m, oi as usize, &hist) {
            Some((c, cm)) => {
                d = c;
                m = cm;
            }
            None => {
                w.flush(cx);
                return;
            }
        }
    }
    if depth > prefix.len() {
        w.explore(&d, &m, &mut hist, depth - prefix.len());
    }
    w.flush(cx);
}

// ---------------------------------------------------------------------------------------------
// plan: segments of the element index space

struct Plan {
    hist_cfgs: Vec<Cfg>,
    hist_depth: usize,
    /// depth for the core configurations (all blocks alike)
    hist_depth_core: usize,
    hist_k: usize,
    /// path-independence diamonds at states with at least this many levels left
    hist_diamond_left: usize,
    lat_cfgs: Vec<Cfg>,
    lat_n: usize,
    lat_roots: Vec<(usize, usize, usize)>,
    per_cfgs: Vec<Cfg>,
    per_words: Vec<Vec<u8>>,
    per_len: usize,
    sim_depth: usize,
    sim_k: usize,
    int_depth: usize,
    int_k: usize,
}

impl Plan {
    fn build(tier: Tier) -> Plan {
        let lat_n = tier.pick(14, 22);
        let mut lat_roots = vec![];
        for i in 0..=lat_n {
            for j in 0..=lat_n - i {
                for s in 0..=lat_n - i - j {
                    lat_roots.push((i, j, s));
                }
            }
        }
        let mut per_words = vec![];
        for len in 1..=tier.pick(3usize, 4usize) {
            for code in 0..9u64.pow(len as u32) {
                per_words.push(decode(code, 9, len));
            }
        }
        Plan {
            hist_cfgs: hist_configs(tier),
            hist_depth: tier.pick(7, 8),
            hist_depth_core: tier.pick(7, 9),
            hist_k: tier.pick(3, 4),
            hist_diamond_left: 3,
            lat_cfgs: lattice_configs(tier),
            lat_n,
            lat_roots,
            per_cfgs: periodic_configs(),
            per_words,
            per_len: tier.pick(72, 160),
            sim_depth: tier.pick(6, 8),
            sim_k: tier.pick(2, 3),
            int_depth: tier.pick(4, 5),
            int_k: 2,
        }
    }
    fn get(tier: Tier) -> &'static Plan {
        static Q: OnceLock<Plan> = OnceLock::new();
        static T: OnceLock<Plan> = OnceLock::new();
        match tier {
            Tier::Quick => Q.get_or_init(|| Plan::build(Tier::Quick)),
            Tier::Thorough => T.get_or_init(|| Plan::build(Tier::Thorough)),
        }
    }
    fn depth_of(&self, c: &Cfg) -> usize {
        if is_core(c) { self.hist_depth_core } else { self.hist_depth }
    }
    fn segments(&self) -> Vec<(&'static str, u64)> {
        vec![
            ("hist", self.hist_cfgs.len() as u64 * 9u64.pow(self.hist_k as u32)),
            ("lattice", (self.lat_cfgs.len() * self.lat_roots.len()) as u64),
            ("periodic", (self.per_cfgs.len() * self.per_words.len()) as u64),
            ("simple", 8u64.pow(self.sim_k as u32)),
            ("intern", (INTERN_OPS as u64).pow(self.int_k as u32)),
            ("internpair", pair_pool().len() as u64),
            ("convert", (conv_sources().len() * CONVERSIONS.len()) as u64),
        ]
    }
    fn locate(&self, mut idx: u64) -> (&'static str, u64) {
        for (n, c) in self.segments() {
            if idx < c {
                return (n, idx);
            }
            idx -= c;
        }
        ("none", 0)
    }
}


// ---------------------------------------------------------------------------------------------
// interning, pairwise part: a larger pool of near-equal scalar constants (same integer part, same fraction, same
// magnitude with opposite sign, neighbouring code points, equal numeric value in another type); every ordered pair
// (a, b) as the history add a, add b, add a, add b on a fresh SimpleGarnishData

fn pair_pool() -> Vec<V> {
    let mut v = vec![V::Unit, V::True, V::False];
    // -13291983 and 875770417 are the integers whose bytes spell the texts "1.5" and "1.24"-like float renderings
    for i in [0, 1, -1, 2, 97, 255, 256, 65536, i32::MAX, i32::MIN, i32::MAX - 1, 1 << 30, -(1 << 30), -13291983, -13357519, -13291982] {
        v.push(V::Int(i));
    }
    for f in [0.5, 1.0, 1.25, 1.5, 1.75, -1.5, -1.25, 2.0, 2.5, 2.25, 97.0, 97.5, 1.0e10, 1.0e10 + 2.0, 1.0e-10, 2.0e-10, 4294967296.0, 4294967297.0, 0.1, 0.30000000000000004, 0.3, f64::MAX, f64::MIN_POSITIVE] {
        v.push(V::Float(f));
    }
    for c in ['a', 'b', 'A', '\u{0}', '\u{1}', 'é', '\u{100}', '😀'] {
        v.push(V::Char(c));
    }
    for b in [0u8, 1, 97, 98, 255] {
        v.push(V::Byte(b));
    }
    for n in ["a", "b", "ab", "ba", "", "A"] {
        v.push(V::sym(n));
    }
    for n in [0usize, 1, 2, 97, 256] {
        v.push(V::Expr(n));
        v.push(V::External(n));
    }
    for t in [GarnishDataType::Unit, GarnishDataType::Number, GarnishDataType::Char, GarnishDataType::CharList, GarnishDataType::Byte, GarnishDataType::Symbol, GarnishDataType::List, GarnishDataType::Expression] {
        v.push(V::Type(t));
    }
    v
}

fn same_pool_value(a: &V, b: &V) -> bool {
    match (a, b) {
        (V::Expr(x), V::Expr(y)) => x == y,
        (V::Float(x), V::Float(y)) => x.to_bits() == y.to_bits(),
        (V::Int(x), V::Int(y)) => x == y,
        (V::Int(_), V::Float(_)) | (V::Float(_), V::Int(_)) => false,
        _ => a == b,
    }
}

fn pair_case(ai: usize, bi: usize) -> Option<(String, String, String)> {
    // Some((kind, witness, detail)) on failure
    let pool = pair_pool();
    let (a, b) = (&pool[ai], &pool[bi]);
    let r = guard(|| -> Result<Option<(String, String)>, String> {
        let mut d = SData::fresh(Host::none());
        let mut addrs = vec![];
        for v in [a, b, a, b] {
            addrs.push(put(&mut d, v).map_err(|e| short_err(&e))?);
        }
        let rb = |d: &SData, addr: usize, want: &V| -> bool {
            let got = get(d, addr);
            match (want, &got) {
                (V::Expr(n), V::Expr(_)) => d.get_expression(addr).ok() == Some(*n),
                (V::Float(x), V::Float(y)) => x.to_bits() == y.to_bits() || (x == y),
                _ => *want == got && want.type_of() == got.type_of(),
            }
        };
        for (k, v) in [a, b, a, b].iter().enumerate() {
            if !rb(&d, addrs[k], v) {
                return Ok(Some(("constant-reads-back-differently".into(), format!("add #{} of {} reads back {}", k, v.show(), get(&d, addrs[k]).show()))));
            }
        }
        if addrs[0] != addrs[2] || addrs[1] != addrs[3] {
            return Ok(Some(("equal-constant-new-address".into(), format!("addresses {:?}", addrs))));
        }
        if !same_pool_value(a, b) && addrs[0] == addrs[1] {
            return Ok(Some(("different-constants-share-address".into(), format!("both at address {}", addrs[0]))));
        }
        Ok(None)
    });
    let class = |v: &V| format!("{:?}", v.type_of());
    match r {
        Ok(Ok(None)) => None,
        Ok(Ok(Some((kind, det)))) => Some((kind, format!("simple: {} then {}", class(a), class(b)), format!("{} then {}: {}", a.show(), b.show(), det))),
        Ok(Err(e)) => Some(("add-err".into(), format!("simple: {} then {}", class(a), class(b)), format!("{} then {}: {}", a.show(), b.show(), e))),
        Err(p) => Some((format!("panic[{}]", short_panic(&p)), format!("simple: {} then {}", class(a), class(b)), format!("{} then {}", a.show(), b.show()))),
    }
}

fn run_pair_row(ai: usize, cx: &mut Ctx) {
    let n = pair_pool().len();
    for bi in 0..n {
        cx.eval();
        cx.count("internpair_states", 4);
        cx.count("internpair_transitions", 4);
        cx.count("states", 4);
        cx.count("transitions", 4);
        cx.count("traces_validated", 1);
        match pair_case(ai, bi) {
            None => cx.nontrivial(("internpair", ai, bi)),
            Some((kind, witness, det)) => cx.violation(&kind, &witness, json!({"part": "internpair", "impl": "simple", "a": ai, "b": bi, "shown": det})),
        }
    }
}


// ---------------------------------------------------------------------------------------------
// conversions: add_char_list_from / add_byte_list_from / add_symbol_from / add_number_from store a NEW value derived
// from an existing one. For every source value of the pool below and each conversion, on both implementations: when
// the call returns Ok(address), that address holds a value of the target type (unit allowed for a failed number
// conversion), the source still reads back unchanged, and both survive further adds. Err results are not judged
// (a conversion may be unavailable); the content of the converted value is judged by C14 / C08 where they apply.

fn conv_sources() -> Vec<V> {
    vec![
        V::Unit,
        V::True,
        V::Int(65),
        V::Float(1.5),
        V::Char('a'),
        V::Byte(66),
        V::sym("ab"),
        V::str("12"),
        V::str("héllo"),
        V::Bytes(vec![1, 2]),
        V::List(vec![V::Int(1), V::str("x")]),
        V::Pair(Box::new(V::sym("k")), Box::new(V::Int(2))),
        V::Range(Box::new(V::Int(1)), Box::new(V::Int(3))),
        V::Concat(Box::new(V::Int(1)), Box::new(V::Int(2))),
        V::SymList(vec![val::SymPart::Sym(symbol_value("a")), val::SymPart::Sym(symbol_value("b"))]),
        // conversions that give up half way: a pair whose right side is a slice with a fractional range
        V::Pair(Box::new(V::Int(5)), Box::new(V::Slice(Box::new(V::str("abc")), Box::new(V::Range(Box::new(V::Float(0.5)), Box::new(V::Float(1.5))))))),
        V::List(vec![V::str("ab"), V::Slice(Box::new(V::str("abc")), Box::new(V::Range(Box::new(V::Float(0.5)), Box::new(V::Float(1.5)))))]),
    ]
}

const CONVERSIONS: [&str; 4] = ["add_char_list_from", "add_byte_list_from", "add_symbol_from", "add_number_from"];

fn conv_case<D: Subject + val::Adder>(si: usize, ci: usize, preload: usize) -> Option<(String, String)> {
    let srcs = conv_sources();
    let src = &srcs[si];
    let r = guard(|| -> Result<Option<(String, String)>, String> {
        let mut d = D::fresh(Host::none());
        for k in 0..preload {
            put(&mut d, &V::Int(1000 + k as i32)).map_err(|e| short_err(&e))?;
        }
        let a = match put(&mut d, src) {
            Ok(a) => a,
            Err(_) => return Ok(None),
        };
        let before = get(&d, a);
        let res = match ci {
            0 => d.add_char_list_from(a),
            1 => d.add_byte_list_from(a),
            2 => d.add_symbol_from(a),
            _ => d.add_number_from(a),
        };
        // whatever the conversion did, the next text constant is stored as written (no residue of a failed or
        // finished conversion) and an equal one is found again
        let probe = |d: &mut D| -> Result<Option<(String, String)>, String> {
            let t1 = put(d, &V::str("zq")).map_err(|e| short_err(&e))?;
            if get(d, t1) != V::str("zq") {
                return Ok(Some(("text-added-after-conversion-reads-back-differently".into(), format!("after {} of {}: \"zq\" reads back {}", CONVERSIONS[ci], src.show(), get(d, t1).show()))));
            }
            Ok(None)
        };
        let c = match res {
            Ok(c) => c,
            Err(_) => return probe(&mut d),
        };
        if let Some(x) = probe(&mut d)? {
            return Ok(Some(x));
        }
        let want: &[GarnishDataType] = match ci {
            0 => &[GarnishDataType::CharList],
            1 => &[GarnishDataType::ByteList],
            2 => &[GarnishDataType::Symbol],
            _ => &[GarnishDataType::Number, GarnishDataType::Unit],
        };
        let got = d.get_data_type(c).map_err(|e| short_err(&e))?;
        // converting a value that already has the target type may hand the same value back
        if !want.contains(&got) {
            return Ok(Some(("conversion-returns-address-of-another-type".into(), format!("{} of {} returned address {} holding a {:?} (source at {})", CONVERSIONS[ci], src.show(), c, got, a))));
        }
        let converted = get(&d, c);
        for k in 0..12 {
            put(&mut d, &V::Int(2000 + k)).map_err(|e| short_err(&e))?;
            put(&mut d, &V::str("pad")).map_err(|e| short_err(&e))?;
        }
        if get(&d, a) != before {
            return Ok(Some(("conversion-changed-its-source".into(), format!("{} of {}: source reads {}", CONVERSIONS[ci], src.show(), get(&d, a).show()))));
        }
        if get(&d, c) != converted {
            return Ok(Some(("converted-value-changed-after-later-adds".into(), format!("{} of {}: {} became {}", CONVERSIONS[ci], src.show(), converted.show(), get(&d, c).show()))));
        }
        Ok(None)
    });
    match r {
        Ok(Ok(x)) => x,
        Ok(Err(e)) => Some(("add-err".into(), e)),
        Err(p) => Some((format!("panic[{}]", short_panic(&p)), format!("{} of {}", CONVERSIONS[ci], src.show()))),
    }
}

fn run_conv_element(i: usize, cx: &mut Ctx) {
    let n = conv_sources().len();
    let (si, ci) = (i % n, i / n);
    for preload in [0usize, 3, 11] {
        for which in 0..2 {
            cx.eval();
            cx.count("states", 26);
            cx.count("transitions", 26);
            cx.count("traces_validated", 1);
            let r = if which == 0 { conv_case::<SData>(si, ci, preload) } else { conv_case::<crate::subj::BData>(si, ci, preload) };
            match r {
                None => cx.nontrivial(("convert", si, ci, preload, which)),
                Some((kind, det)) => cx.violation(
                    &kind,
                    &format!("{}: {} of a {:?}", ["simple", "basic"][which], CONVERSIONS[ci], conv_sources()[si].type_of()),
                    json!({"part": "convert", "impl": (["simple", "basic"][which]), "source": si, "conversion": ci, "preload": preload, "shown": det}),
                ),
            }
        }
    }
}

fn suffix_zero(p: &[u8], j: usize) -> bool {
    p[j + 1..].iter().all(|x| *x == 0)
}

fn run_hist_element(cfg: &Cfg, prefix: &[u8], depth: usize, diamond: usize, cx: &mut Ctx) {
    let mut w = Walk::new("hist", "hist", Some(cfg.clone()), diamond);
    match cfg.make() {
        Err(e) => {
            if prefix.iter().all(|x| *x == 0) {
                cx.violation("construct-err", &format!("basic: {}", if cfg.default { "default settings" } else { "new_with_settings" }), json!({"part":"hist","impl":"basic","alphabet":"hist","config": cfg.to_json(), "history": [], "shown": cfg.show(), "expected": "Ok", "got": e}));
            }
        }
        Ok(root) => {
            if prefix.iter().all(|x| *x == 0) {
                w.stats.states += 1; // the empty history
            }
            if let Some((d, mut m, mut hist)) = run_prefix(&mut w, root, prefix, |j| suffix_zero(prefix, j)) {
                explore(&mut w, &d, &mut m, &mut hist, depth - prefix.len(), None);
            }
        }
    }
    w.flush(cx);
}

fn run_lattice_element(cfg: &Cfg, root_counts: (usize, usize, usize), nmax: usize, cx: &mut Ctx) {
    let mut w = Walk::new("lattice", "lattice", Some(cfg.clone()), 2);
    if let Ok(root) = cfg.make() {
        let mut d = root;
        let mut m = Model::default();
        let mut hist: Vec<u8> = vec![];
        let ops: Vec<u8> = std::iter::repeat(0u8).take(root_counts.0).chain(std::iter::repeat(1u8).take(root_counts.1)).chain(std::iter::repeat(2u8).take(root_counts.2)).collect();
        let mut ok = true;
        for oi in ops {
            // the transitions on the way to the root are executed and checked by the elements owning their source states
            match quiet(&d, &m, LATTICE[oi as usize]) {
                Some((c, ent)) => {
                    m.push(ent);
                    d = c;
                    hist.push(oi);
                }
                None => {
                    ok = false;
                    break;
                }
            }
        }
        if ok {
            w.stats.states += 1;
            let used = root_counts.0 + root_counts.1 + root_counts.2;
            explore(&mut w, &d, &mut m, &mut hist, nmax - used, Some(3));
        }
    }
    w.flush(cx);
}

fn run_periodic_element(cfg: &Cfg, word: &[u8], len: usize, cx: &mut Ctx) {
    let mut w = Walk::new("periodic", "hist", Some(cfg.clone()), 0);
    if let Ok(root) = cfg.make() {
        let hist: Vec<u8> = (0..len).map(|i| word[i % word.len()]).collect();
        let _ = run_prefix(&mut w, root, &hist, |_| true);
    }
    w.flush(cx);
}

fn run_simple_element(prefix: &[u8], depth: usize, cx: &mut Ctx) {
    let mut w = Walk::new("simple", "simple", None, 0);
    let root: SStore = SimpleGarnishData::new_custom();
    if prefix.iter().all(|x| *x == 0) {
        w.stats.states += 1;
    }
    if let Some((d, mut m, mut hist)) = run_prefix(&mut w, root, prefix, |j| suffix_zero(prefix, j)) {
        explore(&mut w, &d, &mut m, &mut hist, depth - prefix.len(), None);
    }
    w.flush(cx);
}

impl Property for C15 {
    fn id(&self) -> &'static str {
        "C15"
    }
    fn level(&self) -> &'static str {
        "model_checking"
    }
    fn budget_ms(&self) -> u64 {
        4000
    }
    /// every call into the subject is guarded and all loops of this module are bounded, so a confirmed hang
    /// or abort of an element (budget 6 s in a fresh process for < 0.1 s of work) is a getter or push that does
    /// not return on a store it has corrupted
    fn crash_is_violation(&self) -> bool {
        true
    }
    fn crash_signature(&self, tier: Tier, idx: u64, kind: &str) -> (String, String, Value) {
        let (seg, _) = Plan::get(tier).locate(idx);
        let imp = if seg == "simple" || seg == "intern" { "simple" } else { "basic" };
        let d = self.describe(tier, idx);
        (format!("{}-in-element", kind), format!("{}: {}", imp, seg), json!({"crash": kind, "idx": idx, "element": d, "shown": d, "expected": "every push and read-back returns", "got": kind}))
    }
    fn size(&self, tier: Tier) -> u64 {
        Plan::get(tier).segments().iter().map(|s| s.1).sum()
    }
    fn describe(&self, tier: Tier, idx: u64) -> String {
        let p = Plan::get(tier);
        let (s, i) = p.locate(idx);
        match s {
            "hist" => {
                let per = 9u64.pow(p.hist_k as u32);
                let cfg = &p.hist_cfgs[(i / per) as usize];
                format!("hist basic [{}] all histories to depth {} extending {}", cfg.show(), p.depth_of(cfg), show_hist(&HIST, &decode(i % per, 9, p.hist_k)))
            }
            "lattice" => {
                let cfg = &p.lat_cfgs[i as usize / p.lat_roots.len()];
                let r = p.lat_roots[i as usize % p.lat_roots.len()];
                format!("lattice basic [{}] counts (I={},J={},S={},*,*,*) sum <= {}", cfg.show(), r.0, r.1, r.2, p.lat_n)
            }
            "periodic" => {
                let cfg = &p.per_cfgs[i as usize / p.per_words.len()];
                let wd = &p.per_words[i as usize % p.per_words.len()];
                format!("periodic basic [{}] word {} repeated to length {}", cfg.show(), show_hist(&HIST, wd), p.per_len)
            }
            "simple" => format!("simple all histories to depth {} extending {}", p.sim_depth, show_hist(&SIMPLE, &decode(i, 8, p.sim_k))),
            "convert" => format!("convert: {} of {}", CONVERSIONS[i as usize / conv_sources().len()], conv_sources()[i as usize % conv_sources().len()].show()),
            "internpair" => format!("internpair simple: {} then every constant of the pool", pair_pool()[i as usize].show()),
            "intern" => format!("intern simple all add sequences to length {} extending [{}]", p.int_depth, show_intern_hist(&decode(i, INTERN_OPS as u64, p.int_k))),
            _ => format!("none#{}", idx),
        }
    }
    fn run(&self, tier: Tier, idx: u64, cx: &mut Ctx) {
        quiet_backtraces();
        let p = Plan::get(tier);
        let (s, i) = p.locate(idx);
        match s {
            "hist" => {
                let per = 9u64.pow(p.hist_k as u32);
                let cfg = &p.hist_cfgs[(i / per) as usize];
                let prefix = decode(i % per, 9, p.hist_k);
                run_hist_element(cfg, &prefix, p.depth_of(cfg), p.hist_diamond_left, cx);
                cx.sample_at(per * 3 + 1, || json!(format!("basic [{}]: every history of length <= {} over {{I,J,Y,E,N,C,R,V,F}} starting with {}", cfg.show(), p.depth_of(cfg), show_hist(&HIST, &prefix))));
            }
            "lattice" => {
                let cfg = &p.lat_cfgs[i as usize / p.lat_roots.len()];
                let r = p.lat_roots[i as usize % p.lat_roots.len()];
                run_lattice_element(cfg, r, p.lat_n, cx);
            }
            "periodic" => {
                let cfg = &p.per_cfgs[i as usize / p.per_words.len()];
                let wd = &p.per_words[i as usize % p.per_words.len()];
                run_periodic_element(cfg, wd, p.per_len, cx);
            }
            "simple" => run_simple_element(&decode(i, 8, p.sim_k), p.sim_depth, cx),
            "internpair" => run_pair_row(i as usize, cx),
            "convert" => run_conv_element(i as usize, cx),
            "intern" => {
                let prefix = decode(i, INTERN_OPS as u64, p.int_k);
                run_intern(&prefix, p.int_depth, |j| suffix_zero(&prefix, j), cx);
                if prefix.iter().all(|x| *x == 0) {
                    cx.count("states", 1);
                }
            }
            _ => {}
        }
    }
    fn replay(&self, d: &Value, cx: &mut Ctx) {
        quiet_backtraces();
        if let (Some(kind), Some(idx)) = (d["crash"].as_str(), d["idx"].as_u64()) {
            // a hang cannot be replayed in-process: run the element in a watched worker process
            let exe = match std::env::current_exe() {
                Ok(e) => e,
                Err(_) => return,
            };
            let out = std::process::Command::new(exe).args(["worker", "C15", cx.tier.name(), "--single", &idx.to_string(), "--budget", "6000"]).output();
            if let Ok(o) = out {
                let text = String::from_utf8_lossy(&o.stdout);
                let machinery = o.status.code() == Some(2);
                if text.contains("\"t\":\"hang\"") || (!o.status.success() && !machinery) {
                    let (k, w, det) = self.crash_signature(cx.tier, idx, kind);
                    cx.violation(&k, &w, det);
                }
            }
            return;
        }
        let hist: Vec<u8> = match d["history"].as_array() {
            Some(a) => a.iter().filter_map(|x| x.as_u64()).map(|x| x as u8).collect(),
            None => return,
        };
        let part = d["part"].as_str().unwrap_or("");
        if part == "convert" {
            let (si, ci, pre) = (d["source"].as_u64().unwrap_or(0) as usize, d["conversion"].as_u64().unwrap_or(0) as usize, d["preload"].as_u64().unwrap_or(0) as usize);
            if si < conv_sources().len() && ci < CONVERSIONS.len() {
                let r = if d["impl"].as_str() == Some("simple") { conv_case::<SData>(si, ci, pre) } else { conv_case::<crate::subj::BData>(si, ci, pre) };
                if let Some((kind, det)) = r {
                    cx.violation(&kind, &format!("{}: {} of a {:?}", d["impl"].as_str().unwrap_or(""), CONVERSIONS[ci], conv_sources()[si].type_of()), json!({"part": "convert", "shown": det}));
                }
            }
            return;
        }
        if part == "internpair" {
            let (ai, bi) = (d["a"].as_u64().unwrap_or(0) as usize, d["b"].as_u64().unwrap_or(0) as usize);
            if ai < pair_pool().len() && bi < pair_pool().len() {
                if let Some((kind, witness, det)) = pair_case(ai, bi) {
                    cx.violation(&kind, &witness, json!({"part": "internpair", "impl": "simple", "a": ai, "b": bi, "shown": det}));
                }
            }
            return;
        }
        if part == "intern" {
            run_intern(&hist, hist.len(), |_| true, cx);
            return;
        }
        let alpha_name: &'static str = match d["alphabet"].as_str().unwrap_or("") {
            "hist" => "hist",
            "lattice" => "lattice",
            "simple" => "simple",
            _ => return,
        };
        if d["impl"].as_str() == Some("simple") {
            let mut w = Walk::new("simple", alpha_name, None, 0);
            let root: SStore = SimpleGarnishData::new_custom();
            let _ = run_prefix(&mut w, root, &hist, |_| true);
            w.flush(cx);
        } else {
            let cfg = match Cfg::from_json(&d["config"]) {
                Some(c) => c,
                None => return,
            };
            let part: &'static str = match part {
                "lattice" => "lattice",
                "periodic" => "periodic",
                _ => "hist",
            };
            let mut w = Walk::new(part, alpha_name, Some(cfg.clone()), 0);
            match cfg.make() {
                Ok(root) => {
                    let _ = run_prefix(&mut w, root, &hist, |_| true);
                }
                Err(e) => cx.violation("construct-err", "basic: new_with_settings", json!({"config": cfg.to_json(), "got": e})),
            }
            w.flush(cx);
        }
    }
    fn meta(&self, tier: Tier) -> Meta {
        let p = Plan::get(tier);
        Meta {
            rule: format!(
                "hist: BasicGarnishData, {} storage configurations (initial sizes: all blocks 0/1/2; expression-symbol and custom blocks 0..2 independently and data block 0/2 with the rest at 1; growth +1, +2, x2{}; only configurations where every block can make progress), ALL histories of length <= {} ({} for the four uniform configurations 0/+1, 1/+1, 1/x2, 2/+2) over 9 operations (push_instruction, push_to_jump_table, parse_add_symbol, push_to_expression_symbol_block, add_number, push_to_custom_data_block, push_register, push_value_stack, push_frame), full read-back after every transition. \
                 lattice: {} configurations (the same + library default), every vector of per-block element counts with sum <= {} (6 operations, one per heap block; the data operation cycles number/register/value/frame/char-list), every outgoing transition of the canonical representative executed and read back, all 15 operation pairs compared in both orders. \
                 periodic: {} configurations (library default 10/+10, 1/x2, 0/+1), every word of length <= {} over the 9 operations repeated to length {}, read-back after every step. \
                 simple: SimpleGarnishData, all histories of length <= {} over its 8 operations. \
                 intern: SimpleGarnishData, all sequences of length <= {} over {} near-equal constants + pair/list/concatenation; convert: the four add_*_from conversions of 17 source values (two of which make the conversion fail half way; a text constant added afterwards must read back as written) on both implementations (returned address holds the target type, source and result survive later adds); internpair: every ordered pair of a pool of near-equal scalar constants (same integer part, same fraction, opposite sign, neighbouring code points, equal value in another type) added a, b, a, b. \
                 'states' = distinct histories (hist, periodic, simple, intern) or distinct count vectors (lattice); a transition is counted non-trivial when it changes the total allocated size of a non-empty store (Basic), adds to a non-empty store (Simple) or re-adds an already stored constant (intern).",
                p.hist_cfgs.len(),
                if tier == Tier::Thorough { " and three mixed per-block policies" } else { "" },
                p.hist_depth,
                p.hist_depth_core,
                p.lat_cfgs.len(),
                p.lat_n,
                p.per_cfgs.len(),
                tier.pick(3, 4),
                p.per_len,
                p.sim_depth,
                p.int_depth,
                CONSTS.len()
            ),
            assumptions: vec![
                "tables whose push returns nothing (jump table, registers) are addressed by the table length before the push (the convention the bytecode builder uses)".into(),
                "parse_add_symbol(name) stores the symbol symbol_value(name); it reads back through get_symbol at the returned address and its name through get_symbol_string (Basic) / get_symbols (Simple)".into(),
                "value-stack and frame cells below the top are read by popping on a clone of the object; the object under test is never popped".into(),
                "an Err or panic from an add/push under max_items = usize::MAX and a growth policy that can make progress is reported (the value cannot be read back)".into(),
                "configurations where some block cannot grow (Multiplicative on an initial size 0, FixedSize(0)) are excluded as the statement says".into(),
                "lengths of tables and reads outside the stored addresses are not judged (statement silent)".into(),
                "interning: Number, Char, Byte, Symbol, Expression, External, Type, Unit, True are constants that must return the same address when added again; for CharList and ByteList both the same and a fresh address are accepted; 0.0 and -0.0 may or may not share an address; any two other distinct constants (including Integer 1 / Float 1.0) must get different addresses".into(),
                "path independence (equal histories up to reordering of commuting operations give == objects) is not part of the statement: mismatches are only counted (path_independence_mismatches) because the lattice part merges states on that basis; with mismatches the lattice part still checks one real history per count vector".into(),
                "the statement's 'random long histories with default settings' is replaced by the deterministic periodic histories".into(),
            ],
            trusted_base: vec![
                "engine/src/props/c15.rs reference model (independent growable vectors) and payload functions".into(),
                "engine/src/val.rs get (read-back through the GarnishData getters)".into(),
                "derive(Clone) / derive(PartialEq) of BasicGarnishData and SimpleGarnishData".into(),
            ],
            explanation: "explicit-state exploration of the real data objects: every interleaving of add/push operations up to the stated depth, each transition executed on a clone and the whole store read back against a model of independent tables".into(),
        }
    }
}
