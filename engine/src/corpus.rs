//! Program corpora shared by C01, C04-C07, C10, C17-C20: grammars over the core language.

use crate::ast::*;
use crate::grammar::{number_nested, Grammar};
use crate::val::V;

pub struct Corpus {
    pub name: &'static str,
    g: Grammar,
    nt: usize,
    pub max: usize,
    total: u64,
    /// a corpus given as an explicit program list instead of a grammar
    fixed: Option<Vec<E>>,
    /// T7 is generated on demand (depth, atoms, codes of the programs kept by the filter): a materialised list of
    /// the depth-4 corpus took 2 GB in each of the 16 workers
    lazy7: Option<(usize, Vec<E>, Vec<u32>)>,
}

impl Corpus {
    fn new(name: &'static str, mut g: Grammar, nt: usize, max: usize) -> Corpus {
        g.prepare(max);
        let total = g.count_upto(nt, max) as u64;
        Corpus { name, g, nt, max, total, fixed: None, lazy7: None }
    }
    pub fn from_list(name: &'static str, list: Vec<E>) -> Corpus {
        Corpus { name, g: Grammar::new(1), nt: 0, max: 0, total: list.len() as u64, fixed: Some(list), lazy7: None }
    }
    pub fn len(&self) -> u64 {
        self.total
    }
    pub fn program(&self, i: u64) -> E {
        if let Some(list) = &self.fixed {
            return list[i as usize].clone();
        }
        if let Some((depth, atoms, codes)) = &self.lazy7 {
            let c = codes[i as usize] as usize;
            let mut e = T7_CX.with(|cx| nest7(cx, *depth, c / atoms.len(), &atoms[c % atoms.len()]));
            let mut k = 1;
            number_nested(&mut e, &mut k);
            return e;
        }
        let mut e = self.g.nth(self.nt, i as u128);
        let mut n = 1;
        number_nested(&mut e, &mut n);
        e
    }
    pub fn count_of_size(&self, n: usize) -> u64 {
        if self.fixed.is_some() || self.lazy7.is_some() {
            return if n == 0 { self.total } else { 0 };
        }
        self.g.count(self.nt, n) as u64
    }
}

pub const X: usize = 0; // expression
pub const B: usize = 1; // body (top level or inside { })

pub fn all_pre() -> Vec<PreOp> {
    vec![PreOp::Abs, PreOp::Opp, PreOp::BitNot, PreOp::Not, PreOp::Tis, PreOp::LeftInt]
}
pub fn all_suf() -> Vec<SufOp> {
    vec![SufOp::EmptyApply, SufOp::RightInt, SufOp::LenInt]
}
/// binary operators of the core language of C01
pub fn core_bin() -> Vec<BinOp> {
    use BinOp::*;
    vec![Add, Sub, Mul, Div, IntDiv, Rem, Pow, BitAnd, BitOr, BitXor, Shl, Shr, Lt, Le, Gt, Ge, Eq, Ne, And, Or, Xor, Pair, Access, Apply, ApplyTo, Semi]
}

pub fn typed_atoms() -> Vec<E> {
    vec![
        E::Int(0),
        E::Int(1),
        E::Int(3),
        E::Float("2.5".into()),
        E::Unit,
        E::True,
        E::False,
        E::Str("ab".into()),
        E::Sym("a".into()),
        E::Val,
        E::Ident("a".into()),
        E::Bytes("a".into()),
    ]
}

pub fn small_atoms() -> Vec<E> {
    vec![E::Int(1), E::Int(2), E::Val, E::Ident("a".into()), E::False]
}

fn add_unary_binary(g: &mut Grammar, nt: usize, kid: usize, pre: &[PreOp], suf: &[SufOp], bin: &[BinOp]) {
    for p in pre {
        let p = *p;
        g.add(nt, 1, vec![kid], Box::new(move |mut v| E::Pre(p, b(v.remove(0)))));
    }
    for s in suf {
        let s = *s;
        g.add(nt, 1, vec![kid], Box::new(move |mut v| E::Suf(s, b(v.remove(0)))));
    }
    for o in bin {
        let o = *o;
        g.add(nt, 1, vec![kid, kid], Box::new(move |mut v| {
            let l = v.remove(0);
            let r = v.remove(0);
            E::Bin(o, b(l), b(r))
        }));
    }
}

/// T1: every operator of the core language, at most one operator, 12 typed atoms
pub fn t1() -> Corpus {
    let mut g = Grammar::new(3);
    const A: usize = 2;
    for a in typed_atoms() {
        g.atom(A, a);
    }
    g.alias(X, A);
    add_unary_binary(&mut g, X, A, &all_pre(), &all_suf(), &core_bin());
    // property access and the list forms count as one operator too
    g.add(X, 1, vec![A], Box::new(|mut v| E::Prop(b(v.remove(0)), "a".into())));
    g.add(X, 1, vec![A, A], Box::new(|v| E::SpaceList(v)));
    g.add(X, 1, vec![A, A], Box::new(|v| E::CommaList(v)));
    g.add(X, 1, vec![A], Box::new(|v| E::CommaList(v)));
    g.add(X, 1, vec![A], Box::new(|mut v| E::Group(b(v.remove(0)))));
    // side-effect blocks in their three attachment forms: after an atom, after a group, before an atom
    g.add(X, 1, vec![A, A], Box::new(|v| {
        let (val, eff) = take2(v);
        E::SideAfter(b(val), b(eff))
    }));
    g.add(X, 2, vec![A, A], Box::new(|v| {
        let (val, eff) = take2(v);
        E::SideAfter(b(E::Group(b(val))), b(eff))
    }));
    g.add(X, 1, vec![A, A], Box::new(|v| {
        let (eff, val) = take2(v);
        E::SideBefore(b(eff), b(val))
    }));
    Corpus::new("T1", g, X, 4)
}

/// T2: every pair of operators (both nestings), smaller atom pool
pub fn t2(atoms: Vec<E>) -> Corpus {
    let mut g = Grammar::new(4);
    const A: usize = 2;
    const ONE: usize = 3; // exactly one operator
    for a in atoms {
        g.atom(A, a);
    }
    let pre = all_pre();
    let suf = all_suf();
    let bin = core_bin();
    add_unary_binary(&mut g, ONE, A, &pre, &suf, &bin);
    // two operators: unary over ONE, binary with ONE on either side
    for p in &pre {
        let p = *p;
        g.add(X, 1, vec![ONE], Box::new(move |mut v| E::Pre(p, b(v.remove(0)))));
    }
    for s in &suf {
        let s = *s;
        g.add(X, 1, vec![ONE], Box::new(move |mut v| E::Suf(s, b(v.remove(0)))));
    }
    for o in &bin {
        let o = *o;
        g.add(X, 1, vec![ONE, A], Box::new(move |mut v| {
            let l = v.remove(0);
            let r = v.remove(0);
            E::Bin(o, b(l), b(r))
        }));
        g.add(X, 1, vec![A, ONE], Box::new(move |mut v| {
            let l = v.remove(0);
            let r = v.remove(0);
            E::Bin(o, b(l), b(r))
        }));
    }
    Corpus::new("T2", g, X, 5)
}

pub struct T3Cfg {
    pub atoms: Vec<E>,
    pub pre: Vec<PreOp>,
    pub suf: Vec<SufOp>,
    pub bin: Vec<BinOp>,
    pub max: usize,
    pub side_before: bool,
}

pub fn t3_default(max: usize) -> T3Cfg {
    T3Cfg {
        atoms: small_atoms(),
        pre: vec![PreOp::Opp, PreOp::Not],
        suf: vec![SufOp::LenInt],
        bin: vec![BinOp::Add, BinOp::Lt, BinOp::Eq, BinOp::And, BinOp::Or, BinOp::Pair],
        max,
        side_before: true,
    }
}

fn take2(mut v: Vec<E>) -> (E, E) {
    let a = v.remove(0);
    let c = v.remove(0);
    (a, c)
}

/// T3: structural grammar - groups, lists, conditionals with else-chains, logic, sequencing, side effects,
/// nested expressions with apply / apply-to / empty apply, identifiers, bounded reapply loops
pub fn t3(cfg: T3Cfg) -> Corpus {
    let mut g = Grammar::new(3);
    const A: usize = 2;
    for a in cfg.atoms.iter().cloned() {
        g.atom(A, a);
    }
    g.alias(X, A);
    add_unary_binary(&mut g, X, X, &cfg.pre, &cfg.suf, &cfg.bin);
    // property access on the input
    g.add(X, 1, vec![X], Box::new(|mut v| E::Prop(b(v.remove(0)), "a".into())));
    // access by number
    g.add(X, 1, vec![X, A], Box::new(|v| {
        let (l, r) = take2(v);
        E::Bin(BinOp::Access, b(l), b(r))
    }));
    // groups only where they change structure: around a list item
    g.add(X, 1, vec![X, X], Box::new(|v| E::SpaceList(v)));
    g.add(X, 1, vec![X, X, X], Box::new(|v| E::SpaceList(v)));
    g.add(X, 1, vec![X, X], Box::new(|v| E::CommaList(v)));
    g.add(X, 1, vec![X], Box::new(|v| E::CommaList(v)));
    // conditionals
    for k in [CondKind::IfTrue, CondKind::IfFalse] {
        g.add(X, 1, vec![X, X], Box::new(move |v| {
            let (c, a) = take2(v);
            E::Cond(vec![(k, c, a)], None)
        }));
        g.add(X, 2, vec![X, X, X], Box::new(move |mut v| {
            let c = v.remove(0);
            let a = v.remove(0);
            let d = v.remove(0);
            E::Cond(vec![(k, c, a)], Some(b(d)))
        }));
    }
    // two-arm chains, with and without default
    g.add(X, 2, vec![X, X, X, X], Box::new(|mut v| {
        let c1 = v.remove(0);
        let a1 = v.remove(0);
        let c2 = v.remove(0);
        let a2 = v.remove(0);
        E::Cond(vec![(CondKind::IfTrue, c1, a1), (CondKind::IfFalse, c2, a2)], None)
    }));
    g.add(X, 3, vec![X, X, X, X, X], Box::new(|mut v| {
        let c1 = v.remove(0);
        let a1 = v.remove(0);
        let c2 = v.remove(0);
        let a2 = v.remove(0);
        let d = v.remove(0);
        E::Cond(vec![(CondKind::IfTrue, c1, a1), (CondKind::IfTrue, c2, a2)], Some(b(d)))
    }));
    // side effects
    g.add(X, 1, vec![X, B], Box::new(|v| {
        let (val, eff) = take2(v);
        E::SideAfter(b(val), b(eff))
    }));
    if cfg.side_before {
        g.add(X, 1, vec![B, A], Box::new(|v| {
            let (eff, val) = take2(v);
            E::SideBefore(b(eff), b(val))
        }));
    }
    // nested expressions with apply, apply-to, empty apply
    g.add(X, 2, vec![B, X], Box::new(|v| {
        let (body, arg) = take2(v);
        E::Bin(BinOp::Apply, b(E::Nested(0, b(body))), b(arg))
    }));
    g.add(X, 2, vec![X, B], Box::new(|v| {
        let (arg, body) = take2(v);
        E::Bin(BinOp::ApplyTo, b(arg), b(E::Nested(0, b(body))))
    }));
    g.add(X, 2, vec![B], Box::new(|mut v| E::Suf(SufOp::EmptyApply, b(E::Nested(0, b(v.remove(0)))))));
    // bounded reapply loop: { $ >= k ?> BODY |> ^~ $ + 1 } <~ 0   for k = 0..3  (cost 4 + body)
    for k in 0..=3i64 {
        g.add(X, 4, vec![X], Box::new(move |mut v| {
            let body = v.remove(0);
            let cond = E::Bin(BinOp::Ge, b(E::Val), b(E::Int(k)));
            let step = E::Pre(PreOp::Reapply, b(E::Bin(BinOp::Add, b(E::Val), b(E::Int(1)))));
            let looped = E::Cond(vec![(CondKind::IfTrue, cond, body)], Some(b(step)));
            E::Bin(BinOp::Apply, b(E::Nested(0, b(looped))), b(E::Int(0)))
        }));
    }
    // body level: an expression, or a blank-line sequence of two / three
    g.alias(B, X);
    g.add(B, 1, vec![X, X], Box::new(|v| {
        let (l, r) = take2(v);
        E::Bin(BinOp::Semi, b(l), b(r))
    }));
    g.add(B, 1, vec![X, X], Box::new(|v| E::SeqBlank(v)));
    g.add(B, 1, vec![X, X, X], Box::new(|v| E::SeqBlank(v)));
    Corpus::new("T3", g, B, cfg.max)
}

/// T4: reapply loops in every guarded position. A loop body T is built from guards over the counter `$`,
/// value expressions, and the reapply forms `^~ $ + 1`, `^~ $ + 2`, which may sit in a conditional arm (then / else /
/// chained), as the right operand of `&&` / `||`, inside a group and after a sequencing operator. The body is the
/// nested expression of `{ T } <~ 0` (or `0 ~> { T }`), or the whole program (top-level reapply, input = counter). Bodies that never terminate exhaust the reference
/// evaluator's fuel and are dropped (counted).
pub fn t4(max: usize) -> Corpus {
    let mut g = Grammar::new(6);
    const T: usize = 0; // any body
    const P: usize = 1; // program
    const VV: usize = 2;
    const G: usize = 3;
    const R: usize = 4;
    const D: usize = 5; // bodies that may stand in the default position of a conditional: not a default-less
                        // conditional (an else-chain whose last arm is conditional is the recorded C01/C06 finding,
                        // covered with its canonical witness by T3)
    let val = || E::Val;
    g.atom(VV, E::Val);
    g.atom(VV, E::Int(1));
    g.atom(VV, E::Bin(BinOp::Add, b(val()), b(E::Int(10))));
    g.atom(G, E::Bin(BinOp::Ge, b(val()), b(E::Int(2))));
    g.atom(G, E::Bin(BinOp::Lt, b(val()), b(E::Int(2))));
    g.atom(G, E::Bin(BinOp::Eq, b(val()), b(E::Int(1))));
    g.atom(R, E::Pre(PreOp::Reapply, b(E::Bin(BinOp::Add, b(val()), b(E::Int(1))))));
    g.atom(R, E::Pre(PreOp::Reapply, b(E::Bin(BinOp::Add, b(val()), b(E::Int(2))))));
    g.alias(D, VV);
    g.alias(D, R);
    g.alias(T, D);
    for k in [CondKind::IfTrue, CondKind::IfFalse] {
        g.add(T, 1, vec![G, T], Box::new(move |v| {
            let (c, a) = take2(v);
            E::Cond(vec![(k, c, a)], None)
        }));
        g.add(D, 1, vec![G, T, D], Box::new(move |mut v| {
            let c = v.remove(0);
            let a = v.remove(0);
            let d = v.remove(0);
            E::Cond(vec![(k, c, a)], Some(b(d)))
        }));
    }
    g.add(D, 2, vec![G, T, G, T, D], Box::new(|mut v| {
        let c1 = v.remove(0);
        let a1 = v.remove(0);
        let c2 = v.remove(0);
        let a2 = v.remove(0);
        let d = v.remove(0);
        E::Cond(vec![(CondKind::IfTrue, c1, a1), (CondKind::IfFalse, c2, a2)], Some(b(d)))
    }));
    for o in [BinOp::And, BinOp::Or] {
        g.add(D, 1, vec![G, T], Box::new(move |v| {
            let (l, r) = take2(v);
            E::Bin(o, b(l), b(r))
        }));
    }
    g.add(D, 1, vec![T], Box::new(|mut v| E::Group(b(v.remove(0)))));
    g.add(D, 1, vec![VV, T], Box::new(|v| {
        let (l, r) = take2(v);
        E::Bin(BinOp::Semi, b(l), b(r))
    }));
    g.add(D, 1, vec![VV, T], Box::new(|v| E::SeqBlank(v)));
    // the loop at the top level of the program: the program input is the counter (run with inputs 0 and 5)
    g.alias(P, T);
    g.add(P, 1, vec![T], Box::new(|mut v| E::Bin(BinOp::Apply, b(E::Nested(0, b(v.remove(0)))), b(E::Int(0)))));
    g.add(P, 1, vec![T], Box::new(|mut v| E::Bin(BinOp::ApplyTo, b(E::Int(0)), b(E::Nested(0, b(v.remove(0)))))));
    // the loop's result used by a pending operation of the caller
    g.add(P, 2, vec![T], Box::new(|mut v| E::Bin(BinOp::Add, b(E::Int(100)), b(E::Group(b(E::Bin(BinOp::Apply, b(E::Nested(0, b(v.remove(0)))), b(E::Int(0)))))))));
    Corpus::new("T4", g, P, max)
}

/// T5: calls - nested expressions applied inside nested expressions (call depth up to the size bound), with and
/// without pending operands around the call and with work remaining after it returns.
pub fn t5(max: usize) -> Corpus {
    let mut g = Grammar::new(3);
    const C: usize = 0;
    const A: usize = 2;
    g.atom(A, E::Int(1));
    g.atom(A, E::Val);
    g.atom(A, E::Unit);
    g.alias(C, A);
    g.add(C, 1, vec![C, C], Box::new(|v| {
        let (body, arg) = take2(v);
        E::Bin(BinOp::Apply, b(E::Nested(0, b(body))), b(arg))
    }));
    g.add(C, 1, vec![C, C], Box::new(|v| {
        let (arg, body) = take2(v);
        E::Bin(BinOp::ApplyTo, b(arg), b(E::Nested(0, b(body))))
    }));
    g.add(C, 1, vec![C], Box::new(|mut v| E::Suf(SufOp::EmptyApply, b(E::Nested(0, b(v.remove(0)))))));
    g.add(C, 1, vec![C, C], Box::new(|v| {
        let (l, r) = take2(v);
        E::Bin(BinOp::Add, b(l), b(r))
    }));
    g.add(C, 1, vec![C, C], Box::new(|v| E::SpaceList(v)));
    g.add(C, 1, vec![C, C, C], Box::new(|mut v| {
        let c = v.remove(0);
        let a = v.remove(0);
        let d = v.remove(0);
        E::Cond(vec![(CondKind::IfTrue, c, a)], Some(b(d)))
    }));
    g.add(C, 1, vec![C, C], Box::new(|v| {
        let (l, r) = take2(v);
        E::Bin(BinOp::Semi, b(l), b(r))
    }));
    Corpus::new("T5", g, C, max)
}

/// initial input values of C01
pub fn inputs() -> Vec<(&'static str, V)> {
    vec![
        ("unit", V::Unit),
        ("5", V::Int(5)),
        (":a = 1", V::pair(V::sym("a"), V::Int(1))),
        ("(:a = 1, :b = 2)", V::List(vec![V::pair(V::sym("a"), V::Int(1)), V::pair(V::sym("b"), V::Int(2))])),
        ("(:a = 1, 7)", V::List(vec![V::pair(V::sym("a"), V::Int(1)), V::Int(7)])),
        ("0", V::Int(0)),
        // a key whose value is unit: found, and not to be confused with "not found"
        ("(:a = (), 7)", V::List(vec![V::pair(V::sym("a"), V::Unit), V::Int(7)])),
    ]
}

/// T6: block endings - the C10 family (every core operator as the last thing evaluated by the right operand of
/// && / ||, by conditional arms and conditions, under ! and ^^) with its leaves replaced by literal atoms, in three
/// rotations of the atom pool so that each position sees truthy and falsy, number and non-number values
pub fn t6() -> Corpus {
    fn fill(e: &mut E, pool: &[E], next: &mut usize) {
        match e {
            E::Ident(n) if n == "?" => {
                *e = pool[*next % pool.len()].clone();
                *next += 1;
            }
            E::Bin(_, l, r) => {
                fill(l, pool, next);
                fill(r, pool, next);
            }
            E::Pre(_, x) | E::Group(x) | E::Suf(_, x) | E::Prop(x, _) => fill(x, pool, next),
            E::SpaceList(items) | E::CommaList(items) => {
                for i in items {
                    fill(i, pool, next);
                }
            }
            E::Cond(arms, d) => {
                for (_, c, a) in arms {
                    fill(c, pool, next);
                    fill(a, pool, next);
                }
                if let Some(d) = d {
                    fill(d, pool, next);
                }
            }
            _ => {}
        }
    }
    let pools: [Vec<E>; 4] = [
        vec![E::Int(1), E::Int(2), E::Int(3), E::Int(4), E::Int(5)],
        vec![E::Int(1), E::False, E::Int(3), E::Val, E::Int(2)],
        vec![E::False, E::Int(1), E::Unit, E::Int(2), E::Val],
        vec![E::Int(1), E::Int(2), E::False, E::Unit, E::Int(3)],
    ];
    let mut list = vec![];
    for p in crate::props::c10::ending_programs() {
        for pool in &pools {
            let mut e = p.clone();
            let mut n = 0;
            fill(&mut e, pool, &mut n);
            list.push(e);
        }
    }
    Corpus::from_list("T6", list)
}

/// one-hole contexts over the constructs of the structural grammar; in every context the hole is a position that is
/// actually evaluated (conditions are chosen so that the arm holding the hole is the selected one)
fn contexts() -> Vec<Box<dyn Fn(E) -> E>> {
    let mut v: Vec<Box<dyn Fn(E) -> E>> = vec![];
    for o in [BinOp::Add, BinOp::Lt, BinOp::Eq, BinOp::And, BinOp::Or, BinOp::Pair] {
        v.push(Box::new(move |h| E::Bin(o, b(h), b(E::Int(1)))));
        v.push(Box::new(move |h| E::Bin(o, b(E::Int(1)), b(h))));
    }
    v.push(Box::new(|h| E::Bin(BinOp::Or, b(E::False), b(h))));
    v.push(Box::new(|h| E::Bin(BinOp::Access, b(h), b(E::Int(0)))));
    v.push(Box::new(|h| E::Pre(PreOp::Opp, b(h))));
    v.push(Box::new(|h| E::Pre(PreOp::Not, b(h))));
    v.push(Box::new(|h| E::Suf(SufOp::LenInt, b(h))));
    v.push(Box::new(|h| E::Group(b(h))));
    v.push(Box::new(|h| E::SpaceList(vec![h, E::Int(1)])));
    v.push(Box::new(|h| E::SpaceList(vec![E::Int(1), h])));
    v.push(Box::new(|h| E::CommaList(vec![h, E::Int(1)])));
    v.push(Box::new(|h| E::CommaList(vec![E::Int(1), h])));
    v.push(Box::new(|h| E::CommaList(vec![h])));
    for k in [CondKind::IfTrue, CondKind::IfFalse] {
        let (taken, not_taken) = if k == CondKind::IfTrue { (E::True, E::Unit) } else { (E::Unit, E::True) };
        let (t1, t2, n1) = (taken.clone(), taken.clone(), not_taken.clone());
        v.push(Box::new(move |h| E::Cond(vec![(k, h, E::Int(1))], None)));
        v.push(Box::new(move |h| E::Cond(vec![(k, t1.clone(), h)], None)));
        v.push(Box::new(move |h| E::Cond(vec![(k, h, E::Int(1))], Some(b(E::Int(2))))));
        v.push(Box::new(move |h| E::Cond(vec![(k, t2.clone(), h)], Some(b(E::Int(2))))));
        v.push(Box::new(move |h| E::Cond(vec![(k, n1.clone(), E::Int(1))], Some(b(h)))));
    }
    v.push(Box::new(|h| E::Cond(vec![(CondKind::IfTrue, E::Unit, E::Int(1)), (CondKind::IfTrue, h, E::Int(2))], Some(b(E::Int(3))))));
    v.push(Box::new(|h| E::Cond(vec![(CondKind::IfTrue, E::Unit, E::Int(1)), (CondKind::IfFalse, E::Unit, h)], Some(b(E::Int(3))))));
    v.push(Box::new(|h| E::SideAfter(b(h), b(E::Int(1)))));
    v.push(Box::new(|h| E::SideAfter(b(E::Int(1)), b(h))));
    v.push(Box::new(|h| E::SideBefore(b(h), b(E::Int(1)))));
    v.push(Box::new(|h| E::Bin(BinOp::Apply, b(E::Nested(0, b(h))), b(E::Int(5)))));
    v.push(Box::new(|h| E::Bin(BinOp::Apply, b(E::Nested(0, b(E::Bin(BinOp::Add, b(E::Val), b(E::Int(1)))))), b(h))));
    v.push(Box::new(|h| E::Bin(BinOp::ApplyTo, b(h), b(E::Nested(0, b(E::Val))))));
    v.push(Box::new(|h| E::Suf(SufOp::EmptyApply, b(E::Nested(0, b(h))))));
    v.push(Box::new(|h| E::Bin(BinOp::Semi, b(h), b(E::Val))));
    v.push(Box::new(|h| E::Bin(BinOp::Semi, b(E::Int(1)), b(h))));
    v.push(Box::new(|h| {
        let cond = E::Bin(BinOp::Ge, b(E::Val), b(E::Int(1)));
        let step = E::Pre(PreOp::Reapply, b(E::Bin(BinOp::Add, b(E::Val), b(E::Int(1)))));
        E::Bin(BinOp::Apply, b(E::Nested(0, b(E::Cond(vec![(CondKind::IfTrue, cond, h)], Some(b(step)))))), b(E::Int(0)))
    }));
    v
}

/// T7: nesting - every one-hole context inside every one-hole context ... to the given depth, the innermost hole
/// filled with each atom of the pool: one path of `depth` constructs, atoms everywhere else. Covers the deep
/// three- and four-construct interactions the size-bounded grammar T3 does not reach.
pub fn t7(depth: usize, atoms: Vec<E>) -> Corpus {
    let cx = contexts();
    let n = cx.len();
    let mut codes: Vec<u32> = vec![];
    let total = n.pow(depth as u32);
    assert!((total * atoms.len()) < u32::MAX as usize);
    for code in 0..total {
        for (ai, a) in atoms.iter().enumerate() {
            let e = nest7(&cx, depth, code, a);
            // an else-chain whose last arm is conditional is the recorded C01/C06 finding (covered with its canonical
            // witness by T3): such programs are left out here
            if ends_chain_with_conditional(&e) {
                continue;
            }
            codes.push((code * atoms.len() + ai) as u32);
        }
    }
    Corpus { name: "T7", g: Grammar::new(1), nt: 0, max: 0, total: codes.len() as u64, fixed: None, lazy7: Some((depth, atoms, codes)) }
}

thread_local! {
    static T7_CX: Vec<Box<dyn Fn(E) -> E>> = contexts();
}

fn nest7(cx: &[Box<dyn Fn(E) -> E>], depth: usize, code: usize, atom: &E) -> E {
    let n = cx.len();
    let mut e = atom.clone();
    let mut c = code;
    for _ in 0..depth {
        e = cx[c % n](e);
        c /= n;
    }
    e
}

pub fn ends_chain_with_conditional(e: &E) -> bool {
    let kids: Vec<&E> = match e {
        E::Pre(_, x) | E::Suf(_, x) | E::Group(x) | E::Prop(x, _) | E::Nested(_, x) | E::PrefixApply(_, x) | E::SuffixApply(_, x) => vec![x],
        E::Bin(_, l, r) | E::SideAfter(l, r) | E::SideBefore(l, r) | E::InfixApply(_, l, r) => vec![l, r],
        E::SpaceList(v) | E::CommaList(v) | E::SeqBlank(v) => v.iter().collect(),
        E::Cond(arms, d) => {
            if let Some(d) = d {
                if matches!(**d, E::Cond(_, None)) {
                    return true;
                }
            } else if arms.len() >= 2 {
                return true;
            }
            let mut k: Vec<&E> = vec![];
            for (_, c, a) in arms {
                k.push(c);
                k.push(a);
            }
            if let Some(d) = d {
                k.push(d);
            }
            k
        }
        _ => vec![],
    };
    kids.into_iter().any(ends_chain_with_conditional)
}
