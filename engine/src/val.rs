//! Reference value type and the bridge between it and any GarnishData implementation
//! (put: through the add-interface; get: through the trait getters only).

use garnish_lang_simple_data::{DataError, SimpleNumber};
use garnish_lang_traits::{Extents, GarnishData, GarnishDataType, SymbolListPart, TypeConstants};

#[derive(Clone, Debug)]
pub enum V {
    Unit,
    True,
    False,
    Int(i32),
    Float(f64),
    Char(char),
    Byte(u8),
    Sym(u64),
    Type(GarnishDataType),
    Str(Vec<char>),
    Bytes(Vec<u8>),
    SymList(Vec<SymPart>),
    Pair(Box<V>, Box<V>),
    List(Vec<V>),
    Concat(Box<V>, Box<V>),
    Range(Box<V>, Box<V>),
    Slice(Box<V>, Box<V>),
    Partial(Box<V>, Box<V>),
    Expr(usize),
    External(usize),
    /// something the bridge could not read (carries the reason)
    Opaque(String),
}

#[derive(Clone, Debug, PartialEq)]
pub enum SymPart {
    Sym(u64),
    Num(i32),
}

impl PartialEq for V {
    fn eq(&self, o: &V) -> bool {
        use V::*;
        match (self, o) {
            (Unit, Unit) | (True, True) | (False, False) => true,
            (Int(a), Int(b)) => a == b,
            (Float(a), Float(b)) => a.to_bits() == b.to_bits() || (a == b) || (a.is_nan() && b.is_nan()),
            (Char(a), Char(b)) => a == b,
            (Byte(a), Byte(b)) => a == b,
            (Sym(a), Sym(b)) => a == b,
            (Type(a), Type(b)) => a == b,
            (Str(a), Str(b)) => a == b,
            (Bytes(a), Bytes(b)) => a == b,
            (SymList(a), SymList(b)) => a == b,
            (Pair(a, b), Pair(c, d)) | (Concat(a, b), Concat(c, d)) | (Range(a, b), Range(c, d)) | (Slice(a, b), Slice(c, d)) | (Partial(a, b), Partial(c, d)) => {
                a == c && b == d
            }
            (List(a), List(b)) => a == b,
            // expression values are compared as "some expression": the reference numbers bodies differently
            (Expr(_), Expr(_)) => true,
            (External(a), External(b)) => a == b,
            (Opaque(a), Opaque(b)) => a == b,
            _ => false,
        }
    }
}

impl V {
    pub fn int(i: i32) -> V {
        V::Int(i)
    }
    pub fn str(s: &str) -> V {
        V::Str(s.chars().collect())
    }
    pub fn sym(name: &str) -> V {
        V::Sym(garnish_lang_simple_data::symbol_value(name))
    }
    pub fn pair(a: V, b: V) -> V {
        V::Pair(Box::new(a), Box::new(b))
    }
    pub fn truthy(&self) -> bool {
        !matches!(self, V::Unit | V::False)
    }
    pub fn bool(b: bool) -> V {
        if b { V::True } else { V::False }
    }
    pub fn type_of(&self) -> GarnishDataType {
        use GarnishDataType as T;
        match self {
            V::Unit => T::Unit,
            V::True => T::True,
            V::False => T::False,
            V::Int(_) | V::Float(_) => T::Number,
            V::Char(_) => T::Char,
            V::Byte(_) => T::Byte,
            V::Sym(_) => T::Symbol,
            V::Type(_) => T::Type,
            V::Str(_) => T::CharList,
            V::Bytes(_) => T::ByteList,
            V::SymList(_) => T::SymbolList,
            V::Pair(..) => T::Pair,
            V::List(_) => T::List,
            V::Concat(..) => T::Concatenation,
            V::Range(..) => T::Range,
            V::Slice(..) => T::Slice,
            V::Partial(..) => T::Partial,
            V::Expr(_) => T::Expression,
            V::External(_) => T::External,
            V::Opaque(_) => T::Invalid,
        }
    }
    /// compact printable form used in samples and violation details
    pub fn show(&self) -> String {
        match self {
            V::Unit => "()".into(),
            V::True => "$?".into(),
            V::False => "$!".into(),
            V::Int(i) => format!("{}", i),
            V::Float(f) => format!("{:?}f", f),
            V::Char(c) => format!("chr({:?})", c),
            V::Byte(b) => format!("byte({})", b),
            V::Sym(s) => format!("sym#{:x}", s & 0xffff),
            V::Type(t) => format!("type({:?})", t),
            V::Str(s) => format!("{:?}", s.iter().collect::<String>()),
            V::Bytes(b) => format!("bytes{:?}", b),
            V::SymList(l) => format!("symlist{:?}", l),
            V::Pair(a, b) => format!("({} = {})", a.show(), b.show()),
            V::List(l) => format!("[{}]", l.iter().map(|x| x.show()).collect::<Vec<_>>().join(", ")),
            V::Concat(a, b) => format!("({} <> {})", a.show(), b.show()),
            V::Range(a, b) => format!("range({}, {})", a.show(), b.show()),
            V::Slice(a, b) => format!("slice({}, {})", a.show(), b.show()),
            V::Partial(a, b) => format!("partial({}, {})", a.show(), b.show()),
            V::Expr(_) => "expr".into(),
            V::External(n) => format!("ext({})", n),
            V::Opaque(s) => format!("opaque<{}>", s),
        }
    }
}

/// The concrete associated types shared by both shipped data implementations.
pub trait GD: GarnishData<Size = usize, Number = SimpleNumber, Char = char, Byte = u8, Symbol = u64, Error = DataError> {}
impl<T> GD for T where T: GarnishData<Size = usize, Number = SimpleNumber, Char = char, Byte = u8, Symbol = u64, Error = DataError> {}

pub fn num_to_v(n: SimpleNumber) -> V {
    match n {
        SimpleNumber::Integer(i) => V::Int(i),
        SimpleNumber::Float(f) => V::Float(f),
    }
}

pub fn v_to_num(v: &V) -> Option<SimpleNumber> {
    match v {
        V::Int(i) => Some(SimpleNumber::Integer(*i)),
        V::Float(f) => Some(SimpleNumber::Float(*f)),
        _ => None,
    }
}

fn full<D: GD>() -> Extents<SimpleNumber> {
    Extents::new(SimpleNumber::zero(), <SimpleNumber as TypeConstants>::max_value())
}

/// Read a value back through the trait getters only.
pub fn get<D: GD>(d: &D, addr: usize) -> V {
    NODES.with(|n| n.set(0));
    get_depth(d, addr, 0)
}

thread_local! {
    /// nodes read by the current `get`: a value whose sub-values are shared many times over (a loop that doubles its
    /// value on every pass) is a small graph and an astronomically large tree; reading stops after 20 000 nodes
    static NODES: std::cell::Cell<usize> = std::cell::Cell::new(0);
}

pub fn get_depth<D: GD>(d: &D, addr: usize, depth: usize) -> V {
    if depth > 64 {
        return V::Opaque("depth".into());
    }
    let seen = NODES.with(|n| {
        n.set(n.get() + 1);
        n.get()
    });
    if seen > 20_000 {
        return V::Opaque("size".into());
    }
    macro_rules! tr {
        ($e:expr) => {
            match $e {
                Ok(v) => v,
                Err(e) => return V::Opaque(format!("err:{}", short_err(&e))),
            }
        };
    }
    let t = tr!(d.get_data_type(addr));
    use GarnishDataType as T;
    match t {
        T::Unit => V::Unit,
        T::True => V::True,
        T::False => V::False,
        T::Number => num_to_v(tr!(d.get_number(addr))),
        T::Char => V::Char(tr!(d.get_char(addr))),
        T::Byte => V::Byte(tr!(d.get_byte(addr))),
        T::Symbol => V::Sym(tr!(d.get_symbol(addr))),
        T::Type => V::Type(tr!(d.get_type(addr))),
        T::CharList => {
            let it = tr!(d.get_char_list_iter(addr, full::<D>()));
            V::Str(it.collect())
        }
        T::ByteList => {
            let it = tr!(d.get_byte_list_iter(addr, full::<D>()));
            V::Bytes(it.collect())
        }
        T::SymbolList => {
            let it = tr!(d.get_symbol_list_iter(addr, full::<D>()));
            V::SymList(
                it.map(|p| match p {
                    SymbolListPart::Symbol(s) => SymPart::Sym(s),
                    SymbolListPart::Number(n) => SymPart::Num(i32::from(n)),
                })
                .collect(),
            )
        }
        T::Pair => {
            let (l, r) = tr!(d.get_pair(addr));
            V::Pair(Box::new(get_depth(d, l, depth + 1)), Box::new(get_depth(d, r, depth + 1)))
        }
        T::Concatenation => {
            let (l, r) = tr!(d.get_concatenation(addr));
            V::Concat(Box::new(get_depth(d, l, depth + 1)), Box::new(get_depth(d, r, depth + 1)))
        }
        T::Range => {
            let (l, r) = tr!(d.get_range(addr));
            V::Range(Box::new(get_depth(d, l, depth + 1)), Box::new(get_depth(d, r, depth + 1)))
        }
        T::Slice => {
            let (l, r) = tr!(d.get_slice(addr));
            V::Slice(Box::new(get_depth(d, l, depth + 1)), Box::new(get_depth(d, r, depth + 1)))
        }
        T::Partial => {
            let (l, r) = tr!(d.get_partial(addr));
            V::Partial(Box::new(get_depth(d, l, depth + 1)), Box::new(get_depth(d, r, depth + 1)))
        }
        T::List => {
            let it = tr!(d.get_list_item_iter(addr, full::<D>()));
            let items: Vec<usize> = it.collect();
            V::List(items.into_iter().map(|i| get_depth(d, i, depth + 1)).collect())
        }
        T::Expression => V::Expr(tr!(d.get_expression(addr))),
        T::External => V::External(tr!(d.get_external(addr))),
        T::Custom => V::Opaque("custom".into()),
        T::Invalid => V::Opaque("invalid".into()),
    }
}

pub fn short_err(e: &DataError) -> String {
    let s = format!("{}", e);
    s.chars().take(80).collect()
}

/// Implementation-specific ways of adding text / bytes / symbol lists (not part of the trait).
pub trait Adder: GD {
    fn add_text(&mut self, s: &[char]) -> Result<usize, DataError>;
    fn add_bytes(&mut self, b: &[u8]) -> Result<usize, DataError>;
}

/// Build a reference value through the add-interface. Returns the address.
pub fn put<D: Adder>(d: &mut D, v: &V) -> Result<usize, DataError> {
    Ok(match v {
        V::Unit => d.add_unit()?,
        V::True => d.add_true()?,
        V::False => d.add_false()?,
        V::Int(i) => d.add_number(SimpleNumber::Integer(*i))?,
        V::Float(f) => d.add_number(SimpleNumber::Float(*f))?,
        V::Char(c) => d.add_char(*c)?,
        V::Byte(b) => d.add_byte(*b)?,
        V::Sym(s) => d.add_symbol(*s)?,
        V::Type(t) => d.add_type(*t)?,
        V::Str(s) => d.add_text(s)?,
        V::Bytes(b) => d.add_bytes(b)?,
        V::SymList(parts) => {
            // built by merging; needs >= 2 parts, all symbols
            let mut cur: Option<usize> = None;
            for p in parts {
                let a = match p {
                    SymPart::Sym(s) => d.add_symbol(*s)?,
                    SymPart::Num(n) => d.add_number(SimpleNumber::Integer(*n))?,
                };
                cur = Some(match cur {
                    None => a,
                    Some(c) => d.merge_to_symbol_list(c, a)?,
                });
            }
            cur.unwrap_or(d.add_unit()?)
        }
        V::Pair(a, b) => {
            let x = put(d, a)?;
            let y = put(d, b)?;
            d.add_pair((x, y))?
        }
        V::Concat(a, b) => {
            let x = put(d, a)?;
            let y = put(d, b)?;
            d.add_concatenation(x, y)?
        }
        V::Range(a, b) => {
            let x = put(d, a)?;
            let y = put(d, b)?;
            d.add_range(x, y)?
        }
        V::Slice(a, b) => {
            let x = put(d, a)?;
            let y = put(d, b)?;
            d.add_slice(x, y)?
        }
        V::Partial(a, b) => {
            let x = put(d, a)?;
            let y = put(d, b)?;
            d.add_partial(x, y)?
        }
        V::List(items) => {
            let mut addrs = vec![];
            for it in items {
                addrs.push(put(d, it)?);
            }
            put_list(d, &addrs)?
        }
        V::Expr(j) => d.add_expression(*j)?,
        V::External(n) => d.add_external(*n)?,
        V::Opaque(_) => d.add_unit()?,
    })
}

pub fn put_list<D: GD>(d: &mut D, addrs: &[usize]) -> Result<usize, DataError> {
    let mut l = d.start_list(addrs.len())?;
    for a in addrs {
        l = d.add_to_list(l, *a)?;
    }
    d.end_list(l)
}
