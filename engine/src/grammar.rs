//! Grammar-based bounded-exhaustive AST enumeration with deterministic unranking (index -> AST).
//! A grammar has nonterminals; every production has a node cost, child nonterminals and a builder.
//! `count(nt, n)` = number of ASTs of exactly n nodes; `unrank(nt, n, i)` returns the i-th one.
//! Enumeration order: by size, then by production order (simplest first), then children left to right.

use crate::ast::E;

pub type Build = Box<dyn Fn(Vec<E>) -> E + Send + Sync>;

pub struct Prod {
    pub cost: usize,
    pub kids: Vec<usize>,
    pub build: Build,
}

pub struct Grammar {
    pub prods: Vec<Vec<Prod>>, // per nonterminal
    counts: Vec<Vec<u128>>,    // counts[nt][n]
    max: usize,
}

impl Grammar {
    pub fn new(nts: usize) -> Grammar {
        Grammar { prods: (0..nts).map(|_| vec![]).collect(), counts: vec![], max: 0 }
    }
    pub fn add(&mut self, nt: usize, cost: usize, kids: Vec<usize>, build: Build) {
        self.prods[nt].push(Prod { cost, kids, build });
    }
    pub fn atom(&mut self, nt: usize, e: E) {
        self.add(nt, 1, vec![], Box::new(move |_| e.clone()));
    }
    /// alias production: nt := other (no cost)
    pub fn alias(&mut self, nt: usize, other: usize) {
        self.add(nt, 0, vec![other], Box::new(|mut v| v.pop().unwrap()));
    }

    /// number of ways to give sizes to `kids` summing to `total`, weighted by counts
    fn ways(&self, kids: &[usize], total: usize) -> u128 {
        if kids.is_empty() {
            return if total == 0 { 1 } else { 0 };
        }
        if kids.len() == 1 {
            return self.counts[kids[0]].get(total).cloned().unwrap_or(0);
        }
        let mut sum = 0u128;
        for first in 1..=total.saturating_sub(kids.len() - 1) {
            let c = self.counts[kids[0]].get(first).cloned().unwrap_or(0);
            if c == 0 {
                continue;
            }
            sum += c * self.ways(&kids[1..], total - first);
        }
        sum
    }

    /// must be called after all productions are added. Alias (cost 0) productions must not be cyclic and
    /// must refer to nonterminals with a smaller index-order of evaluation: we iterate to a fixpoint per size.
    pub fn prepare(&mut self, max: usize) {
        let nts = self.prods.len();
        self.max = max;
        self.counts = vec![vec![0u128; max + 1]; nts];
        for n in 1..=max {
            // iterate a few times so that alias chains settle (aliases have one kid of the same size)
            for _round in 0..nts + 1 {
                for nt in 0..nts {
                    let mut c = 0u128;
                    for p in &self.prods[nt] {
                        if p.cost > n {
                            continue;
                        }
                        if p.kids.is_empty() {
                            if p.cost == n {
                                c += 1;
                            }
                        } else {
                            c += self.ways(&p.kids, n - p.cost);
                        }
                    }
                    self.counts[nt][n] = c;
                }
            }
        }
    }

    pub fn count(&self, nt: usize, n: usize) -> u128 {
        self.counts[nt].get(n).cloned().unwrap_or(0)
    }

    pub fn count_upto(&self, nt: usize, n: usize) -> u128 {
        (1..=n).map(|k| self.count(nt, k)).sum()
    }

    pub fn unrank(&self, nt: usize, n: usize, mut i: u128) -> E {
        for p in &self.prods[nt] {
            if p.cost > n {
                continue;
            }
            let c = if p.kids.is_empty() { if p.cost == n { 1 } else { 0 } } else { self.ways(&p.kids, n - p.cost) };
            if i < c {
                let kids = self.unrank_kids(&p.kids, n - p.cost, i);
                return (p.build)(kids);
            }
            i -= c;
        }
        panic!("unrank out of range");
    }

    fn unrank_kids(&self, kids: &[usize], total: usize, mut i: u128) -> Vec<E> {
        if kids.is_empty() {
            return vec![];
        }
        if kids.len() == 1 {
            return vec![self.unrank(kids[0], total, i)];
        }
        for first in 1..=total.saturating_sub(kids.len() - 1) {
            let c = self.count(kids[0], first);
            if c == 0 {
                continue;
            }
            let rest = self.ways(&kids[1..], total - first);
            let block = c * rest;
            if i < block {
                let a = self.unrank(kids[0], first, i / rest);
                let mut v = vec![a];
                v.extend(self.unrank_kids(&kids[1..], total - first, i % rest));
                return v;
            }
            i -= block;
        }
        panic!("unrank_kids out of range");
    }

    /// global index over sizes 1..=max of nonterminal nt
    pub fn nth(&self, nt: usize, mut i: u128) -> E {
        for n in 1..=self.max {
            let c = self.count(nt, n);
            if i < c {
                return self.unrank(nt, n, i);
            }
            i -= c;
        }
        panic!("nth out of range");
    }
}

/// assign unique ids to Nested nodes (identity of expression values), in pre-order
pub fn number_nested(e: &mut E, next: &mut usize) {
    match e {
        E::Nested(id, x) => {
            *id = *next;
            *next += 1;
            number_nested(x, next);
        }
        E::Pre(_, x) | E::Suf(_, x) | E::Group(x) | E::Prop(x, _) | E::PrefixApply(_, x) | E::SuffixApply(_, x) => number_nested(x, next),
        E::Bin(_, l, r) | E::SideAfter(l, r) | E::SideBefore(l, r) | E::InfixApply(_, l, r) => {
            number_nested(l, next);
            number_nested(r, next);
        }
        E::SpaceList(v) | E::CommaList(v) | E::SeqBlank(v) => {
            for x in v {
                number_nested(x, next);
            }
        }
        E::Cond(arms, d) => {
            for (_, c, a) in arms {
                number_nested(c, next);
                number_nested(a, next);
            }
            if let Some(d) = d {
                number_nested(d, next);
            }
        }
        _ => {}
    }
}
