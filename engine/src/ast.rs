//! Core-language AST and printer (source text with minimal parentheses from the spec precedence table).

#[derive(Clone, Copy, Debug, PartialEq, Eq, Hash)]
pub enum PreOp {
    Abs,       // ++
    Opp,       // --
    BitNot,    // !
    Not,       // !!
    Tis,       // ??
    TypeOf,    // #
    LeftInt,   // _.
    Reapply,   // ^~
}

#[derive(Clone, Copy, Debug, PartialEq, Eq, Hash)]
pub enum SufOp {
    EmptyApply, // ~~
    RightInt,   // ._
    LenInt,     // .|
}

#[derive(Clone, Copy, Debug, PartialEq, Eq, Hash)]
pub enum BinOp {
    Add,
    Sub,
    Mul,
    Div,
    IntDiv,
    Rem,
    Pow,
    BitAnd,
    BitOr,
    BitXor,
    Shl,
    Shr,
    Lt,
    Le,
    Gt,
    Ge,
    Eq,
    Ne,
    TypeEq,
    And,
    Or,
    Xor,
    Pair,
    Access,
    Apply,   // <~
    ApplyTo, // ~>
    Range,
    StartExRange,
    EndExRange,
    ExRange,
    Concat,
    TypeCast,
    Partial,
    Semi, // ;
    // conditional forms as plain binary operators (used by C02 only; C01 uses E::Cond)
    CondTrue,
    CondFalse,
    Else,
}

#[derive(Clone, Copy, Debug, PartialEq, Eq, Hash)]
pub enum CondKind {
    IfTrue,  // ?>
    IfFalse, // !>
}

#[derive(Clone, Debug, PartialEq)]
pub enum E {
    Unit,
    True,
    False,
    Int(i64),
    Float(String),
    Str(String),
    Bytes(String), // source text between the quotes
    Sym(String),
    Val,
    Ident(String),
    Pre(PreOp, Box<E>),
    Suf(SufOp, Box<E>),
    Bin(BinOp, Box<E>, Box<E>),
    /// a.name (name is not resolved)
    Prop(Box<E>, String),
    SpaceList(Vec<E>),
    CommaList(Vec<E>),
    Group(Box<E>),
    /// { body } with a unique id (identity of the expression value)
    Nested(usize, Box<E>),
    /// arms (kind, condition, value) and optional default
    Cond(Vec<(CondKind, E, E)>, Option<Box<E>>),
    /// a <blank line> b <blank line> c ; only printable at body level
    SeqBlank(Vec<E>),
    /// v [e]
    SideAfter(Box<E>, Box<E>),
    /// [e]v
    SideBefore(Box<E>, Box<E>),
    /// f` x
    PrefixApply(String, Box<E>),
    /// x `f
    SuffixApply(String, Box<E>),
    /// l `f` r
    InfixApply(String, Box<E>, Box<E>),
}

pub fn b(e: E) -> Box<E> {
    Box::new(e)
}

impl PreOp {
    pub fn text(self) -> &'static str {
        match self {
            PreOp::Abs => "++",
            PreOp::Opp => "--",
            PreOp::BitNot => "!",
            PreOp::Not => "!!",
            PreOp::Tis => "??",
            PreOp::TypeOf => "#",
            PreOp::LeftInt => "_.",
            PreOp::Reapply => "^~",
        }
    }
    pub fn level(self) -> u32 {
        match self {
            PreOp::Abs | PreOp::Opp | PreOp::BitNot => 75,
            PreOp::Not | PreOp::Tis => 400,
            PreOp::TypeOf => 69,
            PreOp::LeftInt => 50,
            PreOp::Reapply => 600,
        }
    }
}

impl SufOp {
    pub fn text(self) -> &'static str {
        match self {
            SufOp::EmptyApply => "~~",
            SufOp::RightInt => "._",
            SufOp::LenInt => ".|",
        }
    }
    pub fn level(self) -> u32 {
        match self {
            SufOp::EmptyApply => 40,
            SufOp::RightInt | SufOp::LenInt => 60,
        }
    }
}

impl BinOp {
    pub fn text(self) -> &'static str {
        use BinOp::*;
        match self {
            Add => "+",
            Sub => "-",
            Mul => "*",
            Div => "/",
            IntDiv => "//",
            Rem => "%",
            Pow => "**",
            BitAnd => "&",
            BitOr => "|",
            BitXor => "^",
            Shl => "<<",
            Shr => ">>",
            Lt => "<",
            Le => "<=",
            Gt => ">",
            Ge => ">=",
            Eq => "==",
            Ne => "!=",
            TypeEq => "#=",
            And => "&&",
            Or => "||",
            Xor => "^^",
            Pair => "=",
            Access => ".",
            Apply => "<~",
            ApplyTo => "~>",
            Range => "..",
            StartExRange => ">..",
            EndExRange => "..<",
            ExRange => ">..<",
            Concat => "<>",
            TypeCast => "~#",
            Partial => "~",
            Semi => ";",
            CondTrue => "?>",
            CondFalse => "!>",
            Else => "|>",
        }
    }
    pub fn level(self) -> u32 {
        use BinOp::*;
        match self {
            Access => 30,
            TypeCast => 70,
            Pow => 80,
            Mul | Div | IntDiv | Rem => 90,
            Add | Sub => 100,
            Shl | Shr => 110,
            BitAnd => 111,
            BitXor => 112,
            BitOr => 113,
            Range | StartExRange | EndExRange | ExRange => 200,
            Pair => 210,
            Partial => 230,
            Concat => 240,
            Lt | Le | Gt | Ge => 300,
            Eq | Ne | TypeEq => 400,
            And => 410,
            Xor => 420,
            Or => 430,
            Apply | ApplyTo => 550,
            Semi => 990,
            CondTrue | CondFalse => 700,
            Else => 800,
        }
    }
    pub fn rtl(self) -> bool {
        self == BinOp::Pair
    }
}

thread_local! {
    /// C02 prints a suffix-operator expression as a complete left operand without parentheses (what the table
    /// dictates); the other properties parenthesise it because the implementation's parser needs that
    pub static IDEAL_SUFFIX: std::cell::Cell<bool> = const { std::cell::Cell::new(false) };
}

pub const LV_VALUE: u32 = 10;
pub const LV_GROUP: u32 = 20;
pub const LV_FIXAPPLY_PRE: u32 = 150;
pub const LV_FIXAPPLY_SUF: u32 = 151;
pub const LV_FIXAPPLY_IN: u32 = 152;
pub const LV_LIST: u32 = 220;
pub const LV_COND: u32 = 700;
pub const LV_ELSE: u32 = 800;
pub const LV_COMMA: u32 = 900;
pub const LV_BLANK: u32 = 1000;

impl E {
    /// number of AST nodes
    pub fn size(&self) -> usize {
        match self {
            E::Pre(_, x) | E::Suf(_, x) | E::Group(x) | E::Nested(_, x) | E::Prop(x, _) | E::PrefixApply(_, x) | E::SuffixApply(_, x) => 1 + x.size(),
            E::Bin(_, l, r) | E::SideAfter(l, r) | E::SideBefore(l, r) | E::InfixApply(_, l, r) => 1 + l.size() + r.size(),
            E::SpaceList(v) | E::CommaList(v) | E::SeqBlank(v) => 1 + v.iter().map(|x| x.size()).sum::<usize>(),
            E::Cond(arms, d) => arms.iter().map(|(_, c, a)| 1 + c.size() + a.size()).sum::<usize>() + d.as_ref().map(|x| x.size()).unwrap_or(0),
            _ => 1,
        }
    }

    /// loosest level met on the right spine (what a following operator climbs through)
    fn rs(&self) -> u32 {
        match self {
            E::Pre(o, x) => o.level().max(x.rs()),
            E::Suf(o, _) => if IDEAL_SUFFIX.with(|f| f.get()) { LV_VALUE } else { o.level() },
            E::Bin(o, _, r) => o.level().max(r.rs()),
            E::Prop(_, _) => 30,
            E::SpaceList(v) => LV_LIST.max(v.last().map(|x| x.rs()).unwrap_or(0)),
            E::CommaList(v) => {
                if v.len() == 1 {
                    LV_COMMA
                } else {
                    LV_COMMA.max(v.last().map(|x| x.rs()).unwrap_or(0))
                }
            }
            E::Cond(arms, d) => {
                let base = if arms.len() > 1 || d.is_some() { LV_ELSE } else { LV_COND };
                let last = match d {
                    Some(d) => d.rs(),
                    None => arms.last().map(|(_, _, a)| a.rs()).unwrap_or(0),
                };
                base.max(last)
            }
            E::SeqBlank(v) => LV_BLANK.max(v.last().map(|x| x.rs()).unwrap_or(0)),
            E::SideAfter(v, _) => v.rs(),
            E::SideBefore(_, v) => v.rs(),
            E::PrefixApply(_, x) => LV_FIXAPPLY_PRE.max(x.rs()),
            E::SuffixApply(_, _) => if IDEAL_SUFFIX.with(|f| f.get()) { LV_VALUE } else { LV_FIXAPPLY_SUF },
            E::InfixApply(_, _, r) => LV_FIXAPPLY_IN.max(r.rs()),
            E::Group(_) | E::Nested(..) => LV_GROUP,
            _ => LV_VALUE,
        }
    }

    /// loosest level among the left-spine nodes that take a left operand
    fn ls(&self) -> u32 {
        match self {
            E::Pre(..) | E::PrefixApply(..) => 0,
            E::Suf(o, x) => o.level().max(x.ls()),
            E::Bin(o, l, _) => o.level().max(l.ls()),
            E::Prop(x, _) => 30.max(x.ls()),
            E::SpaceList(v) => LV_LIST.max(v.first().map(|x| x.ls()).unwrap_or(0)),
            E::CommaList(v) => LV_COMMA.max(v.first().map(|x| x.ls()).unwrap_or(0)),
            E::Cond(arms, d) => {
                let base = if arms.len() > 1 || d.is_some() { LV_ELSE } else { LV_COND };
                base.max(arms.first().map(|(_, c, _)| c.ls()).unwrap_or(0))
            }
            E::SeqBlank(v) => LV_BLANK.max(v.first().map(|x| x.ls()).unwrap_or(0)),
            E::SideAfter(v, _) => v.ls(),
            E::SideBefore(_, v) => v.ls(),
            E::SuffixApply(_, x) => LV_FIXAPPLY_SUF.max(x.ls()),
            E::InfixApply(_, l, _) => LV_FIXAPPLY_IN.max(l.ls()),
            _ => 0,
        }
    }

    fn root_rtl_at(&self, lv: u32) -> bool {
        // is the left-spine operator that sits at level `lv` right-to-left?
        match self {
            E::Bin(o, l, _) => {
                if o.level() == lv && o.level() >= l.ls() { o.rtl() } else { l.root_rtl_at(lv) }
            }
            _ => false,
        }
    }
}

pub struct Printer {
    /// refuse (return None) instead of printing a blank-line sequence inside ( )
    pub out: String,
}

fn paren(s: String) -> String {
    format!("({})", s)
}

/// print `e` as the left operand of an operator at level p
fn left_of(e: &E, p: u32, rtl: bool, body: bool) -> Option<String> {
    let s = print_in(e, body)?;
    let need = e.rs() > p || (rtl && e.rs() == p);
    Some(if need { paren(print_in(e, false)?) } else { s })
}

/// print `e` as the right operand of an operator at level p
fn right_of(e: &E, p: u32, body: bool) -> Option<String> {
    let l = e.ls();
    let need = l > p || (l == p && !e.root_rtl_at(p));
    Some(if need { paren(print_in(e, false)?) } else { print_in(e, body)? })
}

/// `body` = we are at expression-body level (top level or directly inside { }), where a blank line separates
pub fn print(e: &E) -> Option<String> {
    print_in(e, true)
}

fn starts_with_side_effect(e: &E) -> bool {
    match e {
        E::SideBefore(..) => true,
        E::Suf(_, x) | E::SuffixApply(_, x) | E::Prop(x, _) => starts_with_side_effect(x),
        E::Bin(_, l, _) | E::InfixApply(_, l, _) | E::SideAfter(l, _) => starts_with_side_effect(l),
        E::SpaceList(v) | E::CommaList(v) | E::SeqBlank(v) => v.first().map(starts_with_side_effect).unwrap_or(false),
        E::Cond(arms, _) => arms.first().map(|(_, c, _)| starts_with_side_effect(c)).unwrap_or(false),
        _ => false,
    }
}

fn ends_with_suffix(e: &E) -> bool {
    match e {
        E::Suf(..) | E::SuffixApply(..) => true,
        E::Pre(_, x) | E::PrefixApply(_, x) => ends_with_suffix(x),
        E::Bin(_, _, r) | E::InfixApply(_, _, r) => ends_with_suffix(r),
        E::SideBefore(_, v) => ends_with_suffix(v),
        _ => false,
    }
}

fn is_simple_value(e: &E) -> bool {
    matches!(e, E::Unit | E::True | E::False | E::Int(_) | E::Float(_) | E::Str(_) | E::Bytes(_) | E::Sym(_) | E::Val | E::Ident(_))
}

fn print_in(e: &E, body: bool) -> Option<String> {
    Some(match e {
        E::Unit => "()".into(),
        E::True => "$?".into(),
        E::False => "$!".into(),
        E::Int(i) => {
            if *i < 0 {
                return None;
            }
            format!("{}", i)
        }
        E::Float(s) => s.clone(),
        E::Str(s) => format!("\"{}\"", s),
        E::Bytes(s) => format!("'{}'", s),
        E::Sym(s) => format!(":{}", s),
        E::Val => "$".into(),
        E::Ident(s) => s.clone(),
        E::Pre(o, x) => {
            let inner = {
                let l = x.ls();
                // operators on the operand's left spine must be strictly tighter than the prefix operator
                if l >= o.level() { paren(print_in(x, false)?) } else { print_in(x, false)? }
            };
            format!("{} {}", o.text(), inner)
        }
        E::Suf(o, x) => {
            let inner = if x.rs() > o.level() { paren(print_in(x, false)?) } else { print_in(x, false)? };
            format!("{} {}", inner, o.text())
        }
        E::Prop(x, name) => {
            let inner = if x.rs() > 30 { paren(print_in(x, false)?) } else { print_in(x, false)? };
            // `1.a` would lex as one number token
            if inner.ends_with(|c: char| c.is_ascii_digit()) { format!("{} . {}", inner, name) } else { format!("{}.{}", inner, name) }
        }
        E::Bin(BinOp::Semi, l, r) => {
            // inside ( ) a `;` is list whitespace, so a sequence can only be written at body level, unparenthesised
            if !body {
                return None;
            }
            if l.rs() > 990 || r.ls() >= 990 {
                return None;
            }
            format!("{} ; {}", print_in(l, true)?, print_in(r, false)?)
        }
        E::Bin(o, l, r) => {
            let ls = left_of(l, o.level(), o.rtl(), false)?;
            let rs = right_of(r, o.level(), false)?;
            format!("{} {} {}", ls, o.text(), rs)
        }
        E::SpaceList(items) => {
            if items.len() < 2 {
                return None;
            }
            let mut parts = vec![];
            for (i, it) in items.iter().enumerate() {
                // a list item that is itself a space list must be grouped, else it would be flattened
                let s = if matches!(it, E::SpaceList(_)) {
                    paren(print_in(it, false)?)
                } else if i > 0 && starts_with_side_effect(it) {
                    // `a [e]b` would read as a side effect after `a`
                    paren(print_in(it, false)?)
                } else if i + 1 < items.len() && ends_with_suffix(it) {
                    // the parser does not start a list after a suffix operator: group the item
                    paren(print_in(it, false)?)
                } else if i == 0 {
                    left_of(it, LV_LIST, false, false)?
                } else {
                    // middle items are both right operand of the previous list node and left of the next
                    let need = it.ls() >= LV_LIST || it.rs() > LV_LIST;
                    if need { paren(print_in(it, false)?) } else { print_in(it, false)? }
                };
                parts.push(s);
            }
            parts.join(" ")
        }
        E::CommaList(items) => {
            if items.is_empty() {
                return None;
            }
            let mut parts = vec![];
            for it in items.iter() {
                let need = matches!(it, E::CommaList(_)) || it.ls() >= LV_COMMA || it.rs() > LV_COMMA;
                parts.push(if need { paren(print_in(it, false)?) } else { print_in(it, false)? });
            }
            if items.len() == 1 { format!("{},", parts[0]) } else { parts.join(", ") }
        }
        E::Group(x) => paren(print_in(x, false)?),
        E::Nested(_, x) => format!("{{ {} }}", print_in(x, true)?),
        E::Cond(arms, d) => {
            let mut parts = vec![];
            for (k, c, a) in arms {
                let op = match k {
                    CondKind::IfTrue => "?>",
                    CondKind::IfFalse => "!>",
                };
                let cs = left_of(c, LV_COND, false, false)?;
                let asv = right_of(a, LV_COND, false)?;
                parts.push(format!("{} {} {}", cs, op, asv));
            }
            if let Some(d) = d {
                parts.push(right_of(d, LV_ELSE, false)?);
            }
            parts.join(" |> ")
        }
        E::SeqBlank(items) => {
            if !body || items.len() < 2 {
                return None;
            }
            let mut parts = vec![];
            for it in items {
                if matches!(it, E::SeqBlank(_)) {
                    return None;
                }
                parts.push(print_in(it, false)?);
            }
            parts.join("\n\n")
        }
        E::SideAfter(v, eff) => {
            // a side-effect block attaches to the token before it: a non-atomic operand is parenthesised
            let vs = if is_simple_value(v) || matches!(**v, E::Group(_) | E::Nested(..)) { print_in(v, false)? } else { paren(print_in(v, false)?) };
            format!("{} [{}]", vs, print_in(eff, true)?)
        }
        E::SideBefore(eff, v) => {
            // a leading block is taken over by a value, a prefix-operator expression, a group or a nested expression
            if !is_simple_value(v) && !matches!(**v, E::Pre(..) | E::Group(_) | E::Nested(..)) {
                return None;
            }
            format!("[{}]{}", print_in(eff, true)?, print_in(v, false)?)
        }
        E::PrefixApply(f, x) => {
            let inner = if x.ls() >= LV_FIXAPPLY_PRE { paren(print_in(x, false)?) } else { print_in(x, false)? };
            format!("{}` {}", f, inner)
        }
        E::SuffixApply(f, x) => {
            let inner = if x.rs() > LV_FIXAPPLY_SUF { paren(print_in(x, false)?) } else { print_in(x, false)? };
            format!("{} `{}", inner, f)
        }
        E::InfixApply(f, l, r) => {
            let ls = left_of(l, LV_FIXAPPLY_IN, false, false)?;
            let rs = right_of(r, LV_FIXAPPLY_IN, false)?;
            format!("{} `{}` {}", ls, f, rs)
        }
    })
}
