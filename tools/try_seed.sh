#!/bin/bash
# Evaluate a seeded change without touching /repo: the patch is applied in a scratch worktree of /repo's HEAD and a
# copy of the engine is built against that worktree.
# usage: tools/try_seed.sh <patch.diff> <ID> [<ID> ...]        (tier via TIER=quick|thorough, default quick)
set -u
PATCH="$1"; shift
WT=/tmp/eval_wt
ENG=/tmp/eval_engine
ROOT=/tmp/eval_root
if [ ! -d "$WT" ]; then git -C /repo worktree add --detach "$WT" >/dev/null 2>&1 || exit 2; fi
git -C "$WT" checkout -q --detach "$(git -C /repo rev-parse HEAD)" 2>/dev/null
git -C "$WT" checkout -q -- . ; git -C "$WT" clean -fdq -e target
if [ "$PATCH" != "none" ]; then
  git -C "$WT" apply "$PATCH" || { echo "PATCH DOES NOT APPLY"; exit 2; }
fi
mkdir -p "$ENG" "$ROOT"
rsync -a --delete --exclude target /verif/engine/ "$ENG/"
sed -i "s|/repo/|$WT/|g" "$ENG/Cargo.toml"
cp /verif/known_findings.txt "$ROOT/"
( cd "$ENG" && CARGO_NET_OFFLINE=true cargo build --release --offline >build.log 2>&1 ) || { echo "ENGINE BUILD FAILED"; tail -20 "$ENG/build.log"; exit 2; }
rc=0
for id in "$@"; do
  VERIF_ROOT="$ROOT" RUST_BACKTRACE=0 "$ENG/target/release/engine" check "$id" "${TIER:-quick}" 2>&1 | grep -v "^KNOWN-FINDING\|^NOTE" | cut -c1-260 | tail -8
  [ "${PIPESTATUS[0]}" != "0" ] && rc=1
done
git -C "$WT" checkout -q -- .
exit $rc
