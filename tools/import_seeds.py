#!/usr/bin/env python3
"""Copy evaluated seeds from /tmp/seed_out/<ID>/<k>/ into /verif/seeded/<ID>-<k>/ (patch.diff, demo.patch,
demo_cmd.txt, meta.json, eval.txt) and write /verif/seeded/INDEX.md. meta.json gains the fields
confirmed (what was re-run here) and caught_by (checks whose quick tier reports the change)."""
import json, os, re, shutil, glob, sys
out_root = "/verif/seeded"
os.makedirs(out_root, exist_ok=True)
rows = []
dirs = [(d, "") for d in sorted(glob.glob("/tmp/seed_out/C??/[0-9]"))] + [(d, "r2") for d in sorted(glob.glob("/tmp/seed_out2/C??/[0-9]"))] + [(d, "r3") for d in sorted(glob.glob("/tmp/seed_out3/C??/[0-9]"))]
for d, rnd in dirs:
    pid = os.path.basename(os.path.dirname(d)); k = rnd + os.path.basename(d)
    ev = os.path.join(d, "eval.txt")
    if not os.path.exists(os.path.join(d, "patch.diff")):
        continue
    try:
        meta0 = json.load(open(os.path.join(d, "meta.json")))
    except Exception:
        meta0 = {}
    obsolete = str(meta0.get("status", "")).startswith("obsolete")
    text = open(ev).read() if os.path.exists(ev) else ""
    if "patch_applies=yes" not in text and not obsolete:
        continue
    if obsolete:
        dst = os.path.join(out_root, f"{pid}-{k}")
        os.makedirs(dst, exist_ok=True)
        for f in ["patch.diff", "demo.patch", "demo_cmd.txt"]:
            if os.path.exists(os.path.join(d, f)):
                shutil.copy(os.path.join(d, f), os.path.join(dst, f))
        meta0["breaks_property"] = pid
        json.dump(meta0, open(os.path.join(dst, "meta.json"), "w"), indent=1, ensure_ascii=False)
        rows.append((f"{pid}-{k}", meta0.get("site", ""), meta0.get("summary", "")[:160].replace("\n", " "), "(obsolete on the current tree, see meta.json)", "-", "-"))
        continue
    dst = os.path.join(out_root, f"{pid}-{k}")
    os.makedirs(dst, exist_ok=True)
    for f in ["patch.diff", "demo.patch", "demo_cmd.txt", "eval.txt"] + [os.path.basename(x) for x in glob.glob(os.path.join(d, "patch_original_*.diff"))]:
        if os.path.exists(os.path.join(d, f)):
            shutil.copy(os.path.join(d, f), os.path.join(dst, f))
    try:
        meta = json.load(open(os.path.join(d, "meta.json")))
    except Exception:
        meta = {"property": pid}
    caught = sorted(set(re.findall(r"^check (C\d\d) rc=1", text, re.M)))
    ran = sorted(set(re.findall(r"^check (C\d\d) rc=", text, re.M)))
    heads = re.findall(r"repo_head=(\w+)", text)
    meta["breaks_property"] = pid
    meta["confirmed"] = {
        "repo_head": heads[-1] if heads else None,
        "demo_passes_on_unchanged_tree": "demo_on_clean_rc=0" in text,
        "demo_fails_with_change": bool(re.search(r"demo_on_mutant_rc=(?!0\b)\d+", text)),
        "pinned_suite_with_change": (re.findall(r"passed=\d+ failed=\d+ stable_pass=\d+ stable_missing=\d+", text) or [None])[-1],
        "how": "tools/eval_seed.sh: scratch worktree of /repo HEAD, demo.patch alone (must pass), demo.patch + patch.diff (must fail), tools/run_suite.py with patch.diff alone, then ./check <ID> quick with the engine built against the patched worktree",
    }
    meta["checks_run"] = ran
    meta["caught_by"] = caught
    json.dump(meta, open(os.path.join(dst, "meta.json"), "w"), indent=1, ensure_ascii=False)
    neutral = not meta["confirmed"]["demo_fails_with_change"]
    if neutral:
        meta["status"] = "neutralised: on the current tree the demonstration passes with the change applied (a later fix: commit removed the defect class the change relied on, e.g. the intern cache no longer trusts the hash alone); kept for the record, not counted"
    json.dump(meta, open(os.path.join(dst, "meta.json"), "w"), indent=1, ensure_ascii=False)
    rows.append((f"{pid}-{k}", meta.get("site", ""), meta.get("summary", "")[:160].replace("\n", " "), "(neutralised by a later fix)" if neutral else (", ".join(caught) or "MISSED"), meta["confirmed"]["demo_fails_with_change"], meta["confirmed"]["pinned_suite_with_change"]))
with open(os.path.join(out_root, "INDEX.md"), "w") as f:
    f.write("# Seeded property-breaking changes (from independent sub-agents) and which quick checks report them\n\n")
    f.write("| seed | site | change | caught by (quick tier) | demo fails | suite with change |\n|---|---|---|---|---|---|\n")
    for r in rows:
        f.write("| " + " | ".join(str(x).replace("|", "\\|") for x in r) + " |\n")
print(len(rows), "seeds imported")
