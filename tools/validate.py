#!/opt/veriftools/pyvenv/bin/python
import json, jsonschema, glob, sys
ok = True
def v(path, schema):
    global ok
    try:
        jsonschema.validate(json.load(open(path)), json.load(open(schema)))
    except Exception as e:
        ok = False
        print("INVALID", path, str(e)[:300])
v("MANIFEST.json", "/root/.vp/MANIFEST.schema.json")
for f in sorted(glob.glob("evidence/*.json")):
    v(f, "/root/.vp/EVIDENCE.schema.json")
print("all valid" if ok else "FAILED")
sys.exit(0 if ok else 1)
