#!/bin/bash
# Confirm a seeded change and run checks against it, without touching /repo.
# usage: tools/eval_seed.sh <seed_dir> <slot> [<ID> ...]
#   <seed_dir> holds patch.diff, demo.patch, demo_cmd.txt, meta.json ; <slot> names the scratch worktree (/tmp/ev_<slot>)
#   IDs default to all 20 checks. Output: <seed_dir>/eval.txt (confirmation + per-check verdict lines)
set -u
SD="$(cd "$1" && pwd)"; SLOT="$2"; shift 2
IDS="$*"; [ -z "$IDS" ] && IDS="C01 C02 C03 C04 C05 C06 C07 C08 C09 C10 C11 C12 C13 C14 C15 C16 C17 C18 C19 C20"
WT=/tmp/ev_$SLOT/wt; ENG=/tmp/ev_$SLOT/engine; ROOT=/tmp/ev_$SLOT/root
OUT="$SD/eval.txt"; : > "$OUT"
export CARGO_NET_OFFLINE=true
mkdir -p /tmp/ev_$SLOT
if [ ! -d "$WT" ]; then git -C /repo worktree add --detach "$WT" >/dev/null 2>&1 || { echo "worktree failed" | tee -a "$OUT"; exit 2; }; fi
reset_wt() { git -C "$WT" checkout -q --detach "$(git -C /repo rev-parse HEAD)" 2>/dev/null; git -C "$WT" checkout -q -- . ; git -C "$WT" clean -fdq -e target; }
reset_wt
echo "repo_head=$(git -C /repo rev-parse --short HEAD)" >> "$OUT"
# 1. demo passes on the unchanged tree
DEMO_CMD="$(grep -v '^#' "$SD/demo_cmd.txt" 2>/dev/null | grep -m1 cargo | sed "s|/tmp/seed/C[0-9][0-9]|$WT|g")"
if [ -f "$SD/demo.patch" ] && [ -n "$DEMO_CMD" ]; then
  git -C "$WT" apply "$SD/demo.patch" || { echo "demo_applies=no" >> "$OUT"; }
  ( cd "$WT" && eval "$DEMO_CMD" ) > /tmp/ev_$SLOT/demo_clean.log 2>&1; echo "demo_on_clean_rc=$?" >> "$OUT"
  git -C "$WT" apply "$SD/patch.diff" || { echo "patch_applies=no" >> "$OUT"; reset_wt; exit 2; }
  ( cd "$WT" && eval "$DEMO_CMD" ) > /tmp/ev_$SLOT/demo_mut.log 2>&1; echo "demo_on_mutant_rc=$?" >> "$OUT"
  reset_wt
fi
git -C "$WT" apply "$SD/patch.diff" || { echo "patch_applies=no" >> "$OUT"; reset_wt; exit 2; }
echo "patch_applies=yes" >> "$OUT"
# 2. suite still passes with the change
python3 /verif/tools/run_suite.py "$WT" 2>&1 | head -5 >> "$OUT"
# 3. the checks
mkdir -p "$ENG" "$ROOT"
rsync -a --delete --exclude target /verif/engine/ "$ENG/"
sed -i "s|/repo/|$WT/|g" "$ENG/Cargo.toml"
cp /verif/known_findings.txt "$ROOT/"
( cd "$ENG" && cargo build --release --offline >build.log 2>&1 ) || { echo "ENGINE BUILD FAILED" >> "$OUT"; tail -20 "$ENG/build.log" >> "$OUT"; reset_wt; exit 2; }
for id in $IDS; do
  s=$(date +%s)
  VERIF_ROOT="$ROOT" RUST_BACKTRACE=0 "$ENG/target/release/engine" check "$id" "${TIER:-quick}" > /tmp/ev_$SLOT/check_$id.log 2>&1; rc=$?
  e=$(date +%s)
  echo "check $id rc=$rc t=$((e-s))s violations=$(grep -c '^VIOLATION' /tmp/ev_$SLOT/check_$id.log)" >> "$OUT"
  if [ $rc -ne 0 ]; then grep -v '^KNOWN-FINDING\|^NOTE' /tmp/ev_$SLOT/check_$id.log | cut -c1-300 | head -6 | sed 's/^/    /' >> "$OUT"; fi
done
reset_wt
rm -rf "$ROOT/replays" "$ROOT/evidence"
cat "$OUT"
