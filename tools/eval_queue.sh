#!/bin/bash
# Evaluate every finished seed under /tmp/seed_out/C??/<k>/ that has no eval.txt yet: own-property check first,
# every other check only when the own check misses it. One slot, sequential.
# usage: tools/eval_queue.sh <slot> [--loop] [<seed root, default /tmp/seed_out>]
SLOT="$1"
ROOT="${3:-/tmp/seed_out}"
while true; do
  did=0
  for d in "$ROOT"/C??/[0-9]; do
    [ -f "$d/patch.diff" ] && [ -f "$d/meta.json" ] && [ -f "$d/demo_cmd.txt" ] || continue
    [ -f "$d/eval.txt" ] && continue
    [ -f "$d/.evaluating" ] && continue
    touch "$d/.evaluating"
    id=$(basename $(dirname "$d"))
    /verif/tools/eval_seed.sh "$d" "$SLOT" "$id" > /dev/null 2>&1
    if ! grep -q "^check $id rc=1" "$d/eval.txt"; then
      cp "$d/eval.txt" "$d/eval_own.txt"
      others=$(for i in $(seq -w 1 20); do [ "C$i" != "$id" ] && echo -n "C$i "; done)
      /verif/tools/eval_seed.sh "$d" "$SLOT" $others > /dev/null 2>&1
      cat "$d/eval_own.txt" >> "$d/eval.txt"
    fi
    rm -f "$d/.evaluating"
    did=1
  done
  [ "$2" = "--loop" ] || break
  [ $did = 0 ] && sleep 60
done
