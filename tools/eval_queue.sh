#!/bin/bash
# Evaluate every finished seed under /tmp/seed_out/C??/<k>/ that has no eval.txt yet: own-property check first,
# every other check only when the own check misses it. One slot, sequential.
# usage: tools/eval_queue.sh <slot> [--loop] [<seed root, default /tmp/seed_out>]
SLOT="$1"
ROOT="${3:-/tmp/seed_out}"
while true; do
  did=0
  for d in "$ROOT"/C??/[0-9]; do
    [ -f "$d/patch.diff" ] && [ -f "$d/meta.json" ] && [ -f "$d/demo_cmd.txt" ] || continue
    [ -f "$d/eval.txt" ] && continue
    [ -f "$d/.evaluating" ] && continue
    touch "$d/.evaluating"
    id=$(basename $(dirname "$d"))
    /verif/tools/eval_seed.sh "$d" "$SLOT" "$id" > /dev/null 2>&1
    if ! grep -q "^check $id rc=1" "$d/eval.txt" && ! grep -q "^demo_on_mutant_rc=0" "$d/eval.txt" && grep -q "^patch_applies=yes" "$d/eval.txt"; then
      cp "$d/eval.txt" "$d/eval_own.txt"
      # the own check missed it: try the checks of the neighbouring properties
      case $id in
        C01) others="C14 C16 C06 C07 C17 C20 C10";; C02) others="C04 C18 C03";; C03) others="C04 C05 C07";; C04) others="C03 C05 C18 C02";;
        C05) others="C03 C06 C20 C15";; C06) others="C01 C07 C05";; C07) others="C03 C08 C11 C01";; C08) others="C01 C07 C17";;
        C09) others="C12 C01";; C10) others="C01 C06 C17";; C11) others="C12 C16 C01";; C12) others="C11 C09";;
        C13) others="C03 C18 C14";; C14) others="C13 C03 C15";; C15) others="C19 C20 C05";; C16) others="C01 C11 C08";;
        C17) others="C01 C10 C08";; C18) others="C04 C13 C02 C01";; C19) others="C15 C20";; C20) others="C05 C15 C01";;
      esac
      /verif/tools/eval_seed.sh "$d" "$SLOT" $others > /dev/null 2>&1
      cat "$d/eval_own.txt" >> "$d/eval.txt"
    fi
    rm -f "$d/.evaluating"
    did=1
  done
  [ "$2" = "--loop" ] || break
  [ $did = 0 ] && sleep 60
done
