#!/usr/bin/env python3
"""Regenerates MANIFEST.json from tools/manifest_src.json-ish table below (kept in one place so the file stays valid)."""
import json, subprocess
props = [json.loads(l) for l in open("properties.jsonl")]
CLAIMED = json.load(open("tools/claimed.json"))
hook_commits = ["493cc1f"]
checks = []
na = []
for p in props:
    pid = p["id"]
    c = CLAIMED.get(pid)
    if not c:
        na.append({"property_id": pid, "reason": "check not built yet in this session (no technique switch; see DESIGN.md) - placeholder until its module lands"})
        continue
    checks.append({
        "property_id": pid,
        "quick_cmd": f"./check {pid} quick",
        "thorough_cmd": f"./check {pid} thorough",
        "evidence_file": f"/verif/evidence/{pid}.json",
        "replay_cmd_template": f"./check {pid} --replay {{path}}",
        "engine": "engine",
        "level_claimed": {"category": c["level"], "text": c["text"], "design_ref": c["design_ref"]},
        "level_note": c["note"],
        "technique": c["technique"],
    })
m = {
    "version": 1,
    "setup_cmd": "cd engine && CARGO_NET_OFFLINE=true cargo build --release --offline",
    "hooks": {
        "guard": "cargo feature `verif-hooks` of crate garnish_lang_simple_data (/repo/data)",
        "enable": "the engine's Cargo.toml requests features=[\"verif-hooks\"] on its path dependency /repo/data; nothing else is needed",
        "baseline_off_cmd": "cd /repo && cargo test --workspace --no-fail-fast --offline",
        "source_commits": hook_commits,
        "add_only": True,
    },
    "engines": [{"name": "engine", "path": "/verif/engine", "serves_properties": [c["property_id"] for c in checks],
                 "kind_free_text": "Rust crate with path dependencies on /repo crates; supervised, sharded bounded-exhaustive enumeration and explicit-state search over the real code"}],
    "checks": checks,
    "notes": "exit 0 = held (KNOWN-FINDING lines allowed), 1 = VIOLATION, 2 = MACHINERY-ERROR. known_findings.txt lists recorded defects and fix commits.",
    "not_applicable": na,
}
json.dump(m, open("MANIFEST.json", "w"), indent=1)
print("claimed", len(checks), "not_applicable", len(na))
