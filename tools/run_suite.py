#!/usr/bin/env python3
"""Run the repository's pinned test suite (cargo test --workspace, offline) in the given checkout and compare
the set of passing tests with the stable_pass list of /root/.vp/BASELINE.json.
usage: run_suite.py [repo_dir]   exit 0 iff every stable_pass test passes."""
import json, re, subprocess, sys, os
repo = sys.argv[1] if len(sys.argv) > 1 else "/repo"
base = json.load(open("/root/.vp/BASELINE.json"))
stable = set(base["stable_pass"])
env = dict(os.environ, CARGO_NET_OFFLINE="true")
p = subprocess.run(["cargo", "test", "--workspace", "--no-fail-fast", "--offline"], cwd=repo, env=env,
                   stdout=subprocess.PIPE, stderr=subprocess.STDOUT, text=True)
crate = None
passed, failed = set(), set()
for line in p.stdout.splitlines():
    m = re.search(r"Running (?:unittests )?(\S+) \(target/debug/deps/([A-Za-z0-9_]+)-[0-9a-f]+\)", line)
    if m:
        crate = m.group(2)
        src = m.group(1)
        if src.startswith("tests/"):
            crate = "garnish_lang_tests::" + crate
        # integration tests: tests/mod.rs in crate `tests` -> binary name `mod`
        continue
    m = re.match(r"test (\S+) \.\.\. (ok|FAILED|ignored)", line)
    if m and crate:
        name = f"{crate}::{m.group(1)}"
        (passed if m.group(2) == "ok" else failed).add(name)
missing = sorted(t for t in stable if t not in passed)
# names of integration-test binaries may differ (crate prefix); try suffix match for the missing ones
still = []
for t in missing:
    suffix = t.split("::", 1)[1]
    if any(x.split("::", 1)[1] == suffix for x in passed):
        continue
    still.append(t)
print(f"passed={len(passed)} failed={len(failed)} stable_pass={len(stable)} stable_missing={len(still)}")
for t in still[:40]:
    print("  MISSING-OR-FAILING:", t)
if p.returncode not in (0, 101) and not passed:
    print(p.stdout[-3000:])
sys.exit(0 if not still else 1)
